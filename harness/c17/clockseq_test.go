package c17

// Clock-answer sequences (seq_*): the deliverer's clock is an ENVIRONMENT that
// is asked, and it may answer differently every time it is asked. The other
// outbound parts hold the clock still during a Deliver call; this part
// enumerates what the clock answers to the 1st, 2nd, ... reading made within
// ONE Deliver call.
//
// A script is the list of answers by reading index (the last entry answers all
// later readings). The enumeration is deviation bounded and driven by what the
// code under test actually consumes: start with every constant script [b];
// after a run that made m readings, every reading index j that was consumed
// (and lies behind the script's last fixed position) is given every other
// instant c of the lattice, recursively up to maxDev deviations and reading
// index maxReads-1. A script that deviates at an index the call never reads is
// indistinguishable from the script without that deviation, so nothing is
// lost by not running it (the code is deterministic in the answers it got).
// Instants are taken in any order (a wall clock may also be stepped back).
//
// Oracle, from the statement: the request carries unix-seconds T and a
// signature over T made with the version the rule picks "among the versions
// valid at signing time". The signing time is ONE instant and the only clock
// the deliverer has is the one that was asked, so there has to be one answer a
// of this call with unix(a) = T whose rule-selected group contains the signing
// version; when nothing is sent there has to be an answer at which no version
// is valid. Nothing else is demanded (an implementation may read the clock as
// often as it likes as long as what it sends is consistent with one reading).

import (
	"encoding/hex"
	"fmt"
	"strings"
	"sync"
	"sync/atomic"
	"testing"
	"time"

	"github.com/nuetzliches/hookaido/internal/verifkit/runner"
)

// seqClock answers the deliverer's Now seam from a script and remembers what it handed out.
type seqClock struct {
	mu     sync.Mutex
	script []time.Time
	handed []time.Time
}

func (c *seqClock) arm(script []time.Time) {
	c.mu.Lock()
	c.script, c.handed = script, nil
	c.mu.Unlock()
}

func (c *seqClock) now() time.Time {
	c.mu.Lock()
	defer c.mu.Unlock()
	k := len(c.handed)
	if k >= len(c.script) {
		k = len(c.script) - 1
	}
	t := c.script[k]
	c.handed = append(c.handed, t)
	return t
}

func (c *seqClock) readings() []time.Time {
	c.mu.Lock()
	defer c.mu.Unlock()
	return append([]time.Time(nil), c.handed...)
}

// seqBounds: reading indices 0..maxReads-1 may be given a deviating answer; at most maxDev deviations per script.
type seqBounds struct{ maxReads, maxDev int }

func seqBoundsOf(r *runner.Run) seqBounds {
	return runner.Pick(r, seqBounds{4, 1}, seqBounds{6, 2})
}

// seqCase is one Deliver call of the part.
type seqCase struct {
	V      int
	Shape  shape
	Script []int // indices into clockInstants(), by reading index
	Dev    int   // number of deviations in the script
}

func (c seqCase) same(o seqCase) bool {
	if c.V != o.V || c.Shape != o.Shape || len(c.Script) != len(o.Script) {
		return false
	}
	for i := range c.Script {
		if c.Script[i] != o.Script[i] {
			return false
		}
	}
	return true
}

func scriptLabels(script []int, clocks []instant) []string {
	out := make([]string, len(script))
	for i, x := range script {
		out[i] = clocks[x].Label
	}
	return out
}

// seqVariants: the variants of a unit (all for tuples of <= 2 versions; for triples identity and reversed
// secret_ref order per selection in the quick tier, all in the thorough tier).
func seqVariants(r *runner.Run, n int) []variant {
	vars := allVariants(n)
	if n < 3 || r.Thorough() {
		return vars
	}
	var vs []variant
	nPerm := len(vars) / len(selections)
	for vi, v := range vars {
		if vi%nPerm == 0 || vi%nPerm == nPerm-1 {
			vs = append(vs, v)
		}
	}
	return vs
}

func seqShapes(r *runner.Run, n int) []shape {
	mini := shapeLists()[0]
	if n < 3 || r.Thorough() {
		return mini
	}
	return mini[:1]
}

// seqRun performs one Deliver call under the script and returns the answers handed out and what the target saw.
func seqRun(env *outEnv, clk *seqClock, clocks []instant, c seqCase) (reads []time.Time, got []seen, err error) {
	script := make([]time.Time, len(c.Script))
	for i, x := range c.Script {
		script[i] = clocks[x].At
	}
	clk.arm(script)
	rt := outRoutes[c.Shape.Route]
	got, err = env.deliver(env.routeNames[c.V][c.Shape.Route], targetURLs[c.Shape.Path], c.Shape, rt.Expected, script[0])
	return clk.readings(), got, err
}

// seqUnit is THE order of the Deliver calls of one booted configuration (enumeration and prefix replay use it).
// visit returns false to stop.
func seqUnit(env *outEnv, clk *seqClock, nVars int, shapes []shape, b seqBounds, visit func(c seqCase, reads []time.Time, got []seen) bool) error {
	clocks := clockInstants()
	var infra error
	var rec func(c seqCase) bool
	rec = func(c seqCase) bool {
		reads, got, err := seqRun(env, clk, clocks, c)
		if err != nil {
			infra = err
			return false
		}
		if !visit(c, reads, got) {
			return false
		}
		if c.Dev == b.maxDev {
			return true
		}
		m := len(reads)
		if m > b.maxReads {
			m = b.maxReads
		}
		last := c.Script[len(c.Script)-1]
		for j := len(c.Script); j < m; j++ {
			for alt := range clocks {
				if alt == last {
					continue
				}
				next := append([]int(nil), c.Script...)
				for len(next) < j {
					next = append(next, last)
				}
				next = append(next, alt)
				if !rec(seqCase{V: c.V, Shape: c.Shape, Script: next, Dev: c.Dev + 1}) {
					return false
				}
			}
		}
		return true
	}
	for vi := 0; vi < nVars; vi++ {
		for _, sh := range shapes {
			for base := range clocks {
				if !rec(seqCase{V: vi, Shape: sh, Script: []int{base}}) {
					return infra
				}
			}
		}
	}
	return infra
}

const (
	seqNotJudged = "no-reading"
	seqNotSent   = "not-sent"
)

// judgeSeq: the reference for one Deliver call whose clock readings were `reads` (all versions loadable).
func judgeSeq(s outSpec, reads []time.Time, names headerNames, got []seen) (verdict string, fl *failure) {
	ctx := func() string {
		ls := make([]string, len(reads))
		for i, t := range reads {
			ls[i] = t.UTC().Format(time.RFC3339Nano)
		}
		return fmt.Sprintf("%s; clock answers within the call, in order: [%s]", s, strings.Join(ls, " "))
	}
	if len(reads) == 0 {
		// the injected clock was not asked: this part has no signing time to judge by (the fixed-clock parts judge the timestamp header)
		return seqNotJudged, nil
	}
	if len(got) == 0 {
		for _, t := range reads {
			if len(refGroup(s.Windows, s.Sel, t.UnixNano())) == 0 {
				return seqNotSent, nil
			}
		}
		return "", &failure{"seq:not-sent-though-a-version-is-valid-at-every-clock-reading", "no request reached the target although a loadable version is valid at every instant the clock answered; " + ctx()}
	}
	if len(got) > 1 {
		return "", &failure{"seq:sent-more-than-once", fmt.Sprintf("%d requests for one delivery; %s", len(got), ctx())}
	}
	g := got[0]
	ts := g.Header.Get(names.Ts)
	var at []int64 // the answers whose unix seconds are the timestamp sent
	for _, t := range reads {
		if fmt.Sprint(unixFloor(t.UnixNano())) == ts {
			at = append(at, t.UnixNano())
		}
	}
	if len(at) == 0 {
		return "", &failure{"seq:timestamp-is-no-clock-reading-of-the-call", fmt.Sprintf("header %s = %q is the unix-seconds of none of the instants the clock answered; %s", names.Ts, ts, ctx())}
	}
	sig := g.Header.Get(names.Sig)
	msg := []byte(strings.ToUpper(g.Method) + "\n" + g.path() + "\n" + ts + "\n" + hexSHA256(g.Body))
	pick := pickFailed
	for i := range s.Windows {
		if sig == hex.EncodeToString(refHMAC([]byte(secretValues[i]), msg)) {
			pick = i
		}
	}
	if pick == pickFailed {
		return "", &failure{"seq:signature-matches-no-version", fmt.Sprintf("header %s = %q is not the reference HMAC of (%s, %s, %s, sha256 of the %d body bytes sent) under any configured version; %s", names.Sig, sig, g.Method, g.path(), ts, len(g.Body), ctx())}
	}
	validSomewhere := false
	for _, ns := range at {
		if member(refGroup(s.Windows, s.Sel, ns), pick) {
			return "signed:" + ids[pick], nil
		}
		validSomewhere = validSomewhere || refValid(s.Windows[pick], ns)
	}
	if !validSomewhere {
		return "", &failure{"seq:signing-secret-not-valid-at-the-timestamp-sent", fmt.Sprintf("the request carries %s = %s and is signed with %s (%s), which is not valid at any instant of that second the clock answered; %s", names.Ts, ts, ids[pick], s.Windows[pick], ctx())}
	}
	return "", &failure{"seq:picked-against-rule-at-the-timestamp-sent:" + s.Sel, fmt.Sprintf("the request carries %s = %s and is signed with %s (%s), valid then but not what the rule selects at any instant of that second the clock answered; %s", names.Ts, ts, ids[pick], s.Windows[pick], ctx())}
}

// seqReplay is the replay artefact of one call: the script by labels; Prefix: run the whole enumeration of the
// booted configuration (all variants) up to the call instead of the call alone.
type seqReplay struct {
	V        int      `json:"variant"`
	Shape    shape    `json:"shape"`
	Script   []string `json:"clock_answers_by_reading"`
	Prefix   bool     `json:"prefix"`
	Shapes   []shape  `json:"shapes,omitempty"`
	MaxReads int      `json:"max_reads,omitempty"`
	MaxDev   int      `json:"max_dev,omitempty"`
}

func bootSeq17(windows []win, worker int, vars []variant) (*outEnv, *seqClock, error) {
	env, err := bootOut(windows, -1, worker, vars, true)
	if err != nil {
		return nil, nil, err
	}
	// control with the clock held still: an unsigned target must get its request
	if got, err := env.deliver("/out/plain", targetOrigin+"/control", shape{Method: 1, Body: 1}, outRoutes[0].Expected, clockInstants()[0].At); err != nil || len(got) != 1 {
		env.close()
		return nil, nil, fmt.Errorf("unsigned control delivery not observed (%v, %d requests)", err, len(got))
	}
	clk := &seqClock{}
	env.deliv.Now = clk.now
	return env, clk, nil
}

// runSeqReplay re-executes a recorded call on a fresh boot and returns its failure (or nil).
func runSeqReplay(windows []win, vars []variant, sr seqReplay) (*failure, error) {
	recheckMu.Lock()
	defer recheckMu.Unlock()
	clocks := clockInstants()
	target := seqCase{V: sr.V, Shape: sr.Shape}
	for _, l := range sr.Script {
		found := false
		for i, c := range clocks {
			if c.Label == l {
				target.Script, found = append(target.Script, i), true
			}
		}
		if !found {
			return nil, fmt.Errorf("unknown clock %q", l)
		}
	}
	if len(target.Script) == 0 || sr.V < 0 || sr.V >= len(vars) {
		return nil, fmt.Errorf("incomplete clock-sequence case")
	}
	env, clk, err := bootSeq17(windows, recheckWorker, vars)
	if err != nil {
		return nil, err
	}
	defer env.close()
	names := outRoutes[sr.Shape.Route].Expected
	if !sr.Prefix {
		reads, got, err := seqRun(env, clk, clocks, target)
		if err != nil {
			return nil, err
		}
		_, fl := judgeSeq(env.spec(sr.V), reads, names, got)
		return fl, nil
	}
	var fl *failure
	reached := false
	err = seqUnit(env, clk, len(vars), sr.Shapes, seqBounds{sr.MaxReads, sr.MaxDev}, func(c seqCase, reads []time.Time, got []seen) bool {
		if !c.same(target) {
			return true
		}
		reached = true
		_, fl = judgeSeq(env.spec(c.V), reads, names, got)
		return false
	})
	if err != nil {
		return nil, err
	}
	if !reached {
		return nil, nil // on this tree the enumeration does not get to the script (fewer readings): the recorded case does not arise
	}
	return fl, nil
}

func seqRepros(windows []win, vars []variant, shapes []shape, b seqBounds, c seqCase) []repro {
	unload := -1
	labels := scriptLabels(c.Script, clockInstants())
	one := seqReplay{V: 0, Shape: c.Shape, Script: labels}
	oneVars := []variant{vars[c.V]}
	pre := seqReplay{V: c.V, Shape: c.Shape, Script: labels, Prefix: true, Shapes: shapes, MaxReads: b.maxReads, MaxDev: b.maxDev}
	return []repro{
		{doc: replayDoc{Part: "clockseq", History: "none: the Deliver call alone on a fresh boot, the clock answering its readings as listed (the last answer repeats)", Windows: windows, Unload: &unload, Variants: oneVars, Seq: &one},
			run: func() (*failure, error) { return runSeqReplay(windows, oneVars, one) }},
		{doc: replayDoc{Part: "clockseq", History: "exact enumeration prefix: every Deliver call made before it on the same deliverer", Windows: windows, Unload: &unload, Variants: vars, Seq: &pre},
			run: func() (*failure, error) { return runSeqReplay(windows, vars, pre) }},
	}
}

func clockSequences(t *testing.T, r *runner.Run, deadline time.Time, workers int) bool {
	clocks := clockInstants()
	sets := allSets(3)
	b := seqBoundsOf(r)
	// the part is tiny when the tree reads the clock once per call and grows with every further reading (x19 per consumed index):
	// it gets a budget of its own so that a tree that reads more often cannot take the other parts' time (a cut-off ends with exhaustive:false)
	if own := time.Now().Add(runner.Pick(r, 25*time.Second, 4*time.Minute)); own.Before(deadline) {
		deadline = own
	}
	var maxReadings atomic.Int64
	done := forEach(len(sets), workers, deadline, func(worker, ui int) {
		set := sets[ui]
		n := len(set)
		vars := seqVariants(r, n)
		shapes := seqShapes(r, n)
		env, clk, err := bootSeq17(set, worker, vars)
		if err != nil {
			infraOnce(r, "seq-boot", "clock-sequence boot (%s): %v", pattern(set), err)
			return
		}
		defer env.close()
		nPerm := len(vars) / len(selections)
		var calls, sent, notSent, notJudged, multi, deviating int64
		byReads := map[int]int64{}
		byDev := map[int]int64{}
		err = seqUnit(env, clk, len(vars), shapes, b, func(c seqCase, reads []time.Time, got []seen) bool {
			spec := env.spec(c.V)
			verdict, fl := judgeSeq(spec, reads, outRoutes[c.Shape.Route].Expected, got)
			calls++
			byReads[len(reads)]++
			byDev[c.Dev]++
			for {
				cur := maxReadings.Load()
				if int64(len(reads)) <= cur || maxReadings.CompareAndSwap(cur, int64(len(reads))) {
					break
				}
			}
			differ := false
			for _, x := range reads[min(1, len(reads)):] {
				differ = differ || !x.Equal(reads[0])
			}
			if differ {
				multi++
			}
			if c.Dev > 0 {
				deviating++
			}
			if fl != nil {
				report(r, fl, func() []repro { return seqRepros(set, vars, shapes, b, c) })
				verdict = "failed"
			}
			switch {
			case verdict == seqNotJudged:
				notJudged++
			case verdict == seqNotSent:
				notSent++
			case fl == nil:
				sent++
			}
			if c.V%nPerm == 0 && c.Shape == shapes[0] {
				if c.Dev == 0 {
					r.Distinct(fmt.Sprintf("seq|%s|%s|%s|n%d|%s", pattern(set), spec.Sel, clocks[c.Script[0]].Label, len(reads), verdict))
				} else if n <= 2 {
					r.Distinct(fmt.Sprintf("seq|%s|%s|%s|%s", pattern(set), spec.Sel, strings.Join(scriptLabels(c.Script, clocks), ">"), verdict))
				}
				if n > 1 && verdict != seqNotJudged {
					class := "seq:" + verdict
					if c.Dev > 0 {
						class = "seq:deviating:" + verdict
					}
					samples.keep(class, ui, func() any {
						return map[string]any{"part": "clock-sequences", "windows": pattern(set), "secret_ref_order": spec.Order, "selection": spec.Sel,
							"clock_answers_by_reading": scriptLabels(c.Script, clocks), "readings_made": len(reads), "verdict": verdict}
					})
				}
			}
			return true
		})
		if err != nil {
			infraOnce(r, "seq-case", "clock-sequence case (%s): %v", pattern(set), err)
			return
		}
		if p := env.rec.problems(); len(p) > 0 {
			infraOnce(r, "recorder", "recording transport: %v", p)
		}
		r.Add("evaluations", calls)
		r.Add("seq_deliver_calls", calls)
		r.Add("seq_sent", sent)
		r.Add("seq_not_sent", notSent)
		r.Add("seq_calls_that_did_not_ask_the_injected_clock", notJudged)
		r.Add("seq_calls_given_differing_clock_answers", multi)
		r.Add("seq_calls_under_a_deviating_script", deviating)
		for k, v := range byReads {
			r.Add(fmt.Sprintf("seq_calls_with_%d_clock_readings", k), v)
		}
		for k, v := range byDev {
			r.Add(fmt.Sprintf("seq_scripts_with_%d_deviations", k), v)
		}
		r.Add("seq_boots", 1)
	})
	r.Set("seq_max_clock_readings_in_one_call", maxReadings.Load())
	r.Set("seq_bounds", map[string]int{"reading_indices_given_a_deviating_answer": b.maxReads, "deviations_per_script": b.maxDev, "instants": len(clocks)})
	return done
}
