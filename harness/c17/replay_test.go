package c17

// Reproduction of a failing case for the runner's 4x re-check and for
// `--replay`. A failure may depend on what the same booted application /
// deliverer / authenticator did before (memoised selections, caches), so a
// reproduction is a *sequence* executed on one fresh boot whose last element is
// the case under judgement. Candidates are tried from the shortest history to
// the exact prefix of the enumeration; the first one that fails is the one the
// runner re-runs four times and the one written to the replay artefact.

import (
	"encoding/json"
	"fmt"
	"os"
	"sync"
	"testing"

	"github.com/nuetzliches/hookaido/internal/verifkit/runner"
)

// outStep is one Deliver call of a booted configuration.
type outStep struct {
	V     int    `json:"variant"` // index into replayDoc.Variants
	Shape shape  `json:"shape"`
	Clock string `json:"clock"`
}

// outPlan regenerates the exact enumeration prefix of a boot: the variants are
// crossed in order with the shape list of their level and all clock instants
// (unitOrder), up to and including position Stop = (variant, clock, shape index).
type outPlan struct {
	Levels []int  `json:"levels"`
	Stop   [3]int `json:"stop"`
	Steps  int    `json:"steps"`
}

type replayDoc struct {
	Part    string `json:"part"`
	History string `json:"history"` // what precedes the judged case on the same boot

	// outbound and e2e: the booted configuration
	Windows  []win     `json:"windows,omitempty"`
	Unload   *int      `json:"unload,omitempty"`
	Variants []variant `json:"variants,omitempty"`

	// outbound: Deliver calls in order on one deliverer; the last one is judged
	Steps []outStep `json:"steps,omitempty"`
	Plan  *outPlan  `json:"plan,omitempty"` // set when the steps are the enumeration prefix (they are listed too unless very many)

	// e2e: one message per variant and route at every instant, in order; judged: last instant, Var, Route
	Clocks []string `json:"clocks,omitempty"`
	Var    int      `json:"var,omitempty"`
	Route  int      `json:"route,omitempty"`

	// inbound: requests presented in order to one boot; the last one is judged
	Set     []win    `json:"set,omitempty"`
	InCases []inCase `json:"in_cases,omitempty"`

	DSL string `json:"dsl,omitempty"`

	// multi-route inbound (multi_test.go) and multi-target outbound (multiout_test.go)
	Multi    *mReplay `json:"multi,omitempty"`
	MultiOut *oReplay `json:"multi_out,omitempty"`

	// written window bounds (bounds_test.go)
	Bounds *bReplay `json:"bounds,omitempty"`

	// clock-answer sequences within one Deliver call (clockseq_test.go)
	Seq *seqReplay `json:"clock_sequence,omitempty"`
}

const maxListedSteps = 5000

func clockByLabel(label string) (instant, bool) {
	for _, c := range clockInstants() {
		if c.Label == label {
			return c, true
		}
	}
	return instant{}, false
}

const recheckWorker = 900 // its own scratch directory and environment variables, never used by an enumeration worker

var recheckMu sync.Mutex

// unitOrder is THE order in which the cases of one booted outbound
// configuration are executed (enumeration and replay use the same function).
func unitOrder(nVars int, levels []int, lists [3][]shape, clocks []instant, fn func(vi, ci, si int, sh shape, clk instant) bool) {
	for vi := 0; vi < nVars; vi++ {
		for ci, clk := range clocks {
			for si, sh := range lists[levels[vi]] {
				if !fn(vi, ci, si, sh, clk) {
					return
				}
			}
		}
	}
}

func planSteps(nVars int, p outPlan) []outStep {
	var steps []outStep
	unitOrder(nVars, p.Levels, shapeLists(), clockInstants(), func(vi, ci, si int, sh shape, clk instant) bool {
		steps = append(steps, outStep{V: vi, Shape: sh, Clock: clk.Label})
		return [3]int{vi, ci, si} != p.Stop
	})
	return steps
}

// runOutSteps boots the configuration, performs the unsigned control delivery
// (as the enumeration does) and the steps on one deliverer; it returns the
// failure of the last step (or nil).
func runOutSteps(windows []win, unload int, vars []variant, steps []outStep) (*failure, error) {
	recheckMu.Lock()
	defer recheckMu.Unlock()
	if len(steps) == 0 {
		return nil, fmt.Errorf("no steps")
	}
	env, err := bootOut(windows, unload, recheckWorker, vars, true)
	if err != nil {
		return nil, err
	}
	defer env.close()
	if got, err := env.deliver("/out/plain", targetOrigin+"/control", shape{Method: 1, Body: 1}, outRoutes[0].Expected, clockInstants()[0].At); err != nil || len(got) != 1 {
		return nil, fmt.Errorf("unsigned control delivery not observed (%v, %d requests)", err, len(got))
	}
	var last *failure
	for _, st := range steps {
		clk, ok := clockByLabel(st.Clock)
		if !ok || st.V < 0 || st.V >= len(vars) {
			return nil, fmt.Errorf("bad step %+v", st)
		}
		_, _, fl, infra := env.evalCase(st.V, st.Shape, clk)
		if infra != nil {
			return nil, infra
		}
		last = fl
	}
	return last, nil
}

// runInSteps presents the cases in order to one boot and judges the last one.
func runInSteps(t *testing.T, set []win, cases []inCase) (*failure, error) {
	recheckMu.Lock()
	defer recheckMu.Unlock()
	if len(cases) == 0 {
		return nil, fmt.Errorf("no cases")
	}
	res, infra := runInboundSet(t, set, recheckWorker, cases)
	if infra != nil || len(res) != len(cases) {
		return nil, fmt.Errorf("replay: %v (%d of %d cases)", infra, len(res), len(cases))
	}
	x := res[len(res)-1]
	if x.Status != 202 && x.Status != 401 {
		return nil, fmt.Errorf("status %d", x.Status)
	}
	return inFailure(set, x, secondInstants()), nil
}

// runE2ESteps drives one booted application + dispatcher through the instants
// (one message per variant and route at each) and judges (last instant, vi, route).
func runE2ESteps(t *testing.T, windows []win, vars []variant, clockLabels []string, vi, route int) (*failure, error) {
	recheckMu.Lock()
	defer recheckMu.Unlock()
	var clocks []instant
	for _, l := range clockLabels {
		c, ok := clockByLabel(l)
		if !ok {
			return nil, fmt.Errorf("unknown clock %q", l)
		}
		clocks = append(clocks, c)
	}
	if len(clocks) == 0 || vi < 0 || vi >= len(vars) {
		return nil, fmt.Errorf("incomplete e2e case")
	}
	obs, infra := runE2E(t, windows, recheckWorker, vars, clocks)
	if infra != nil {
		return nil, infra
	}
	lastLabel := clockLabels[len(clockLabels)-1]
	for _, o := range obs {
		if o.Clock.Label == lastLabel && o.Var == vi && o.Route == route {
			spec := outSpec{Windows: windows, Order: vars[vi].Order, Sel: vars[vi].Sel, Unload: -1}
			_, _, _, fl := judgeE2E(spec, o)
			return fl, nil
		}
	}
	return nil, fmt.Errorf("replay: case not observed")
}

// ---- reporting --------------------------------------------------------------

// repro is one candidate reproduction: a replay artefact and the function that executes it.
type repro struct {
	doc replayDoc
	run func() (*failure, error) // nil: no re-execution (relational findings)
}

var reported sync.Map

// report forwards the first failure of every key to the runner. The candidates
// are tried in order; the first that shows the same failure again (or, failing
// that, the last = the exact enumeration prefix) becomes the runner's re-check
// (run 4 more times there) and the replay artefact.
func report(r *runner.Run, fl *failure, mk func() []repro) {
	if _, dup := reported.LoadOrStore(fl.Key, true); dup {
		return
	}
	cands := mk()
	same := func(c repro) bool {
		f, err := c.run()
		return err == nil && f != nil && f.Key == fl.Key
	}
	for i, c := range cands {
		if c.run == nil {
			r.Violation(fl.Key, fl.Msg, c.doc, nil)
			return
		}
		if i == len(cands)-1 || same(c) {
			c := c
			r.Violation(fl.Key, fl.Msg, c.doc, func() bool { return same(c) })
			return
		}
	}
	r.Violation(fl.Key, fl.Msg, nil, nil)
}

// infraOnce reports an infrastructure problem once per class (not once per configuration).
func infraOnce(r *runner.Run, class, format string, a ...any) {
	if _, dup := reported.LoadOrStore("infra:"+class, true); dup {
		return
	}
	r.Infra(format, a...)
}

// outRepros: reproductions of the outbound case (vi, ci, si) of a booted unit, shortest history first.
func outRepros(windows []win, unload int, vars []variant, levels []int, vi, ci, si int, sh shape, clocks []instant) []repro {
	one := []variant{vars[vi]}
	mk := func(doc replayDoc, vs []variant, steps func() []outStep) repro {
		doc.Part, doc.Windows, doc.Unload, doc.Variants = "outbound", windows, &unload, vs
		return repro{doc: doc, run: func() (*failure, error) { return runOutSteps(windows, unload, vs, steps()) }}
	}
	single := []outStep{{V: 0, Shape: sh, Clock: clocks[ci].Label}}
	var sameTarget []outStep
	for i := 0; i <= ci; i++ {
		sameTarget = append(sameTarget, outStep{V: 0, Shape: sh, Clock: clocks[i].Label})
	}
	plan := outPlan{Levels: levels, Stop: [3]int{vi, ci, si}}
	full := planSteps(len(vars), plan)
	plan.Steps = len(full)
	fullDoc := replayDoc{History: "exact enumeration prefix of the boot: all variants/clock instants/shapes executed before the case on the same deliverer (regenerate with plan)", Plan: &plan}
	if len(full) <= maxListedSteps {
		fullDoc.Steps = full
	}
	return []repro{
		mk(replayDoc{History: "none: the case alone on a fresh boot", Steps: single}, one, func() []outStep { return single }),
		mk(replayDoc{History: "the same target and request shape on the same deliverer at every earlier clock instant, in order", Steps: sameTarget}, one, func() []outStep { return sameTarget }),
		mk(fullDoc, vars, func() []outStep { return full }),
	}
}

func inRepros(t *testing.T, set []win, cases []inCase, idx int) []repro {
	single := []inCase{cases[idx]}
	prefix := append([]inCase(nil), cases[:idx+1]...)
	return []repro{
		{doc: replayDoc{Part: "inbound", History: "none: the request alone on a fresh boot", Set: set, InCases: single},
			run: func() (*failure, error) { return runInSteps(t, set, single) }},
		{doc: replayDoc{Part: "inbound", History: "exact enumeration prefix: every request presented before it to the same boot", Set: set, InCases: prefix},
			run: func() (*failure, error) { return runInSteps(t, set, prefix) }},
	}
}

func e2eRepros(t *testing.T, windows []win, vars []variant, clocks []instant, o e2eObs) []repro {
	unload := -1
	one := []variant{vars[o.Var]}
	var labels []string
	for _, c := range clocks {
		labels = append(labels, c.Label)
		if c.Label == o.Clock.Label {
			break
		}
	}
	last := labels[len(labels)-1:]
	return []repro{
		{doc: replayDoc{Part: "e2e", History: "none: one message at the instant on a fresh boot", Windows: windows, Unload: &unload, Variants: one, Clocks: last, Var: 0, Route: o.Route},
			run: func() (*failure, error) { return runE2ESteps(t, windows, one, last, 0, o.Route) }},
		{doc: replayDoc{Part: "e2e", History: "exact enumeration prefix: one message per variant and route at every earlier clock instant through the same dispatcher", Windows: windows, Unload: &unload, Variants: vars, Clocks: labels, Var: o.Var, Route: o.Route},
			run: func() (*failure, error) { return runE2ESteps(t, windows, vars, labels, o.Var, o.Route) }},
	}
}

// ---- --replay ---------------------------------------------------------------

func runReplay(t *testing.T, r *runner.Run, path string) {
	b, err := os.ReadFile(path)
	if err != nil {
		r.Infra("replay: %v", err)
		return
	}
	var doc struct {
		Key    string    `json:"key"`
		Replay replayDoc `json:"replay"`
	}
	if err := json.Unmarshal(b, &doc); err != nil {
		r.Infra("replay: %v", err)
		return
	}
	d := doc.Replay
	unload := -1
	if d.Unload != nil {
		unload = *d.Unload
	}
	var fl *failure
	switch d.Part {
	case "outbound":
		steps := d.Steps
		if len(steps) == 0 && d.Plan != nil {
			steps = planSteps(len(d.Variants), *d.Plan)
		}
		fl, err = runOutSteps(d.Windows, unload, d.Variants, steps)
		r.Add("evaluations", int64(len(steps)))
	case "inbound":
		fl, err = runInSteps(t, d.Set, d.InCases)
		r.Add("evaluations", int64(len(d.InCases)))
	case "e2e":
		fl, err = runE2ESteps(t, d.Windows, d.Variants, d.Clocks, d.Var, d.Route)
		r.Add("evaluations", int64(len(d.Clocks)))
	case "multi-in":
		if d.Multi == nil {
			r.Infra("replay: no multi-route scenario in the artefact")
			return
		}
		fl, err = runMultiSteps(t, d.Multi.Scenario, d.Multi.Cases)
		r.Add("evaluations", int64(len(d.Multi.Cases)))
		d.Multi = &mReplay{Scenario: d.Multi.Scenario, Cases: d.Multi.Cases[len(d.Multi.Cases)-1:]}
	case "multi-out", "multi-e2e":
		if d.MultiOut == nil {
			r.Infra("replay: no multi-target configuration in the artefact")
			return
		}
		fl, err = runMultiOutReplay(t, d.Part, *d.MultiOut)
		r.Add("evaluations", int64(len(d.MultiOut.Clocks)))
	case "bounds":
		if d.Bounds == nil {
			r.Infra("replay: no bounds scenario in the artefact")
			return
		}
		fl, err = bRecheck(t, *d.Bounds, doc.Key)
		r.Add("evaluations", 1)
	case "clockseq":
		if d.Seq == nil {
			r.Infra("replay: no clock sequence in the artefact")
			return
		}
		fl, err = runSeqReplay(d.Windows, d.Variants, *d.Seq)
		r.Add("evaluations", 1)
	default:
		r.Infra("replay: part %q has no case replay; run the check", d.Part)
		return
	}
	if err != nil {
		r.Infra("replay: %v", err)
		return
	}
	r.Distinct("replay|" + d.Part)
	r.Distinct("replay|" + doc.Key)
	d.Steps = nil // keep the evidence small
	r.Sample(d)
	r.Set("rule", "replay of one recorded case with its recorded history")
	if fl != nil {
		r.Violation(fl.Key, fl.Msg, doc.Replay, nil)
	} else {
		fmt.Println("replay: the recorded case passes on this tree")
	}
}
