package c02

import (
	"fmt"
	"testing"
	"time"

	"github.com/nuetzliches/hookaido/internal/verifkit/qcheck"
	"github.com/nuetzliches/hookaido/internal/verifkit/qmodel"
	"github.com/nuetzliches/hookaido/internal/verifkit/runner"
)

const sec = time.Second

func alpha() qcheck.Alpha {
	return qcheck.Alpha{
		IDs: []string{"a", "b", "c"}, Routes: []string{"/r1", "/r1", "/r2"}, Targets: []string{"t1", "t2", "t1"},
		EnqPast: true, EnqBatch: true,
		Deq: []qcheck.DeqSpec{{Route: "/r1", Batch: 1, TTL: 2 * sec}, {Batch: 2, TTL: 2 * sec}, {Route: "/r1", Target: "t2", Batch: 100}},
		LeaseOps: []string{"ack", "nack", "nackd", "ext", "dead"}, LeaseBatch: true, StaleIDs: true, MaxHandles: 3,
		Operator:  []string{"cancel", "requeue", "resume", "rqdead", "deldead"},
		FilterOps: []string{"cancelf", "requeuef", "resumef"},
		Filters:   []qmodel.Filter{{}, {Route: "/r1", Limit: 1}},
		Reads:     []string{"list", "listdead", "stats"},
		Ticks:     []time.Duration{sec, 2 * sec, 10 * sec},
	}
}

// legalEdges is the documented state machine (C02 statement); the edge monitor fails on anything else,
// independently of qmodel's own successor computation.
var legalEdges = map[string]bool{
	"new -enqueue-> queued": true, "queued -dequeue-> leased": true, "leased -nack-> queued": true, "leased -expiry-> queued": true,
	"leased -ack-> delivered": true, "leased -ack-> removed": true, "leased -mark_dead-> dead": true, "leased -extend-> leased": true,
	"queued -cancel-> canceled": true, "leased -cancel-> canceled": true, "dead -cancel-> canceled": true,
	"dead -requeue-> queued": true, "canceled -requeue-> queued": true, "canceled -resume-> queued": true,
	"dead -dlq_delete-> removed": true, "queued -prune-> removed": true, "dead -prune-> removed": true, "delivered -prune-> removed": true,
	"queued -drop_oldest-> removed": true,
}

func configs(r *runner.Run) []qmodel.Config {
	base := []qmodel.Config{
		{},
		{MaxDepth: 2, DropOldest: true, RetentionMaxAge: 10 * sec, PruneInterval: sec},
		{MaxDepth: 2, DeliveredMaxAge: 10 * sec, DLQMaxAge: 10 * sec, DLQMaxDepth: 1, PruneInterval: sec},
	}
	if r.Quick() {
		return base
	}
	var all []qmodel.Config
	for _, lim := range []qmodel.Config{{}, {MaxDepth: 2}, {MaxDepth: 2, DropOldest: true}} {
		for _, ret := range []qmodel.Config{{}, {RetentionMaxAge: 10 * sec, PruneInterval: sec}, {DeliveredMaxAge: 10 * sec, PruneInterval: sec},
			{DLQMaxAge: 10 * sec, DLQMaxDepth: 1, PruneInterval: sec}} {
			c := ret
			c.MaxDepth, c.DropOldest = lim.MaxDepth, lim.DropOldest
			all = append(all, c)
		}
	}
	return all
}

func TestCheck(t *testing.T) {
	r := runner.Start("C02", "model_checking")
	deadline := r.Deadline(75*time.Second, 14*time.Minute)
	cfgs := configs(r)
	type job struct {
		backend string
		depth   int
	}
	jobs := []job{{"memory", runner.Pick(r, 3, 5)}, {"sqlite", runner.Pick(r, 3, 4)}}
	total := len(cfgs) * len(jobs)
	i := 0
	for _, j := range jobs {
		for _, cfg := range cfgs {
			// split the remaining budget evenly over the remaining runs
			rem := time.Until(deadline)
			per := rem / time.Duration(total-i)
			i++
			spec := qcheck.Spec{Name: "c02", Backend: j.backend, Cfg: cfg, Alpha: alpha(), Depth: j.depth,
				MaxTrans: runner.Pick(r, int64(3_000_000), int64(40_000_000)), Deadline: time.Now().Add(per),
				Extra: func(pre, post *qmodel.Model, op qmodel.Op, obs *qmodel.Obs) string {
					return ""
				},
			}
			res := qcheck.Run(spec)
			for e := range res.Edges {
				if !legalEdges[e] {
					r.Violation("illegal-edge:"+e, fmt.Sprintf("state transition outside the documented machine: %s (backend %s, config %s)", e, j.backend, res.ConfigLabel), map[string]any{"edge": e}, nil)
				}
			}
			qcheck.Report(r, spec, res)
		}
	}
	r.Assume("Postgres backend not executed (no server in the sandbox)")
	r.Assume("alphabet: ids a,b,c on routes /r1,/r1,/r2 and targets t1,t2,t1; see DESIGN.md §6 C02")
	r.Set("rule", "every operation sequence over the alphabet up to the depth per backend/config; a state is distinct by canonical implementation dump; non-trivial = distinct (operation kind, result class) pairs and distinct observed state-machine edges")
	r.Finish()
}
