package c02

import (
	"fmt"
	"testing"
	"time"

	"github.com/nuetzliches/hookaido/internal/verifkit/qcheck"
	"github.com/nuetzliches/hookaido/internal/verifkit/qmodel"
	"github.com/nuetzliches/hookaido/internal/verifkit/qsys"
	"github.com/nuetzliches/hookaido/internal/verifkit/runner"
)

const sec = time.Second

func alpha() qcheck.Alpha {
	return qcheck.Alpha{
		IDs: []string{"a", "b", "c"}, Routes: []string{"/r1", "/r1", "/r2"}, Targets: []string{"t1", "t2", "t1"},
		EnqPast: true, EnqBatch: true,
		Deq: []qcheck.DeqSpec{{Route: "/r1", Batch: 1, TTL: 2 * sec}, {Batch: 2, TTL: 2 * sec}, {Route: "/r1", Target: "t2", Batch: 100}},
		LeaseOps: []string{"ack", "nack", "nackd", "ext", "dead"}, LeaseBatch: true, StaleIDs: true, MaxHandles: 3,
		Operator:  []string{"cancel", "requeue", "resume", "rqdead", "deldead"},
		FilterOps: []string{"cancelf", "requeuef", "resumef"},
		Filters:   []qmodel.Filter{{}, {Route: "/r1", Limit: 1}, {Before: qsys.T0 + 1}, {Before: qsys.T0 + int64(sec), State: qmodel.Queued}},
		Reads:     []string{"list", "listdead", "stats"},
		Ticks:     []time.Duration{sec, 2 * sec, 10 * sec},
	}
}

// legalEdges is the documented state machine (C02 statement); the edge monitor fails on anything else,
// independently of qmodel's own successor computation.
var legalEdges = map[string]bool{
	"new -enqueue-> queued": true, "queued -dequeue-> leased": true, "leased -nack-> queued": true, "leased -expiry-> queued": true,
	"leased -ack-> delivered": true, "leased -ack-> removed": true, "leased -mark_dead-> dead": true, "leased -extend-> leased": true,
	"queued -cancel-> canceled": true, "leased -cancel-> canceled": true, "dead -cancel-> canceled": true,
	"dead -requeue-> queued": true, "canceled -requeue-> queued": true, "canceled -resume-> queued": true,
	"dead -dlq_delete-> removed": true, "queued -prune-> removed": true, "dead -prune-> removed": true, "delivered -prune-> removed": true,
	"queued -drop_oldest-> removed": true,
}

func configs(r *runner.Run) []qmodel.Config {
	base := []qmodel.Config{
		{},
		{MaxDepth: 2, DropOldest: true, RetentionMaxAge: 10 * sec, PruneInterval: sec},
		{MaxDepth: 2, DeliveredMaxAge: 10 * sec, DLQMaxDepth: 1, PruneInterval: sec},
	}
	if r.Quick() {
		return base
	}
	var all []qmodel.Config
	for _, lim := range []qmodel.Config{{}, {MaxDepth: 2}, {MaxDepth: 2, DropOldest: true}} {
		for _, ret := range []qmodel.Config{{}, {RetentionMaxAge: 10 * sec, PruneInterval: sec}, {DeliveredMaxAge: 10 * sec, PruneInterval: sec},
			{DLQMaxAge: 10 * sec, DLQMaxDepth: 1, PruneInterval: sec}, {DLQMaxDepth: 2, PruneInterval: sec}} {
			c := ret
			c.MaxDepth, c.DropOldest = lim.MaxDepth, lim.DropOldest
			all = append(all, c)
		}
	}
	return all
}

type job struct {
	backend string
	depth   int
	cfg     qmodel.Config
	focus   string // "" = full alphabet; "dlq" = small alphabet centred on dead-lettering and DLQ retention
	scaled  bool   // memory: order-list compaction thresholds lowered (qcheck.Spec.ScaleCompaction)
	prefix  int    // > 0: start from qcheck.RichPrefixes(alpha())[prefix-1] instead of the empty queue
	late    int    // > 0: start from latePrefixes(alpha())[late-1] (late_test.go)
}

// dlqAlpha: two messages with equal received_at (batch), dead-lettered singly or as a batch, DLQ listing / requeue /
// delete and clock steps over the prune interval and the DLQ age: reaches DLQ depth/age prunes (incl. ties at the
// depth boundary) two levels deeper than the full alphabet does in the same budget.
func dlqAlpha() qcheck.Alpha {
	return qcheck.Alpha{
		IDs: []string{"a", "b", "c"}, Routes: []string{"/r1"}, Targets: []string{"t1"},
		EnqBatch: true,
		Deq:      []qcheck.DeqSpec{{Batch: 3, TTL: 2 * sec}},
		LeaseOps: []string{"dead"}, LeaseBatch: true, MaxHandles: 3,
		Operator: []string{"rqdead", "deldead"},
		Reads:    []string{"listdead", "stats"},
		Ticks:    []time.Duration{sec, 10 * sec},
	}
}

// restartAlpha: a restart of the process on the same SQLite file among settlements, operator transitions and clock
// steps (the contract: a restart changes nothing; leases held by workers stay what they were).
func restartAlpha() qcheck.Alpha {
	return qcheck.Alpha{
		IDs: []string{"a", "b"}, Routes: []string{"/r1"}, Targets: []string{"t1"},
		Deq:      []qcheck.DeqSpec{{Batch: 1, TTL: 2 * sec}, {Batch: 2, TTL: 2 * sec}},
		LeaseOps: []string{"ack", "nack", "nackd", "ext", "dead"}, MaxHandles: 2,
		Operator: []string{"cancel", "requeue", "rqdead"},
		Ticks:    []time.Duration{2 * sec},
		Reopen:   true,
	}
}

// churnAlpha: settlements and operator transitions around one burst of traffic on another route that takes the memory
// store past the size thresholds of its bookkeeping (real thresholds, no scaling).
func churnAlpha() qcheck.Alpha {
	a := restartAlpha()
	a.IDs = []string{"a", "b", "c"}
	a.Reopen = false
	a.Operator = []string{"cancel", "requeue", "resume", "rqdead"}
	a.Churn = 1500
	return a
}

func TestCheck(t *testing.T) {
	r := runner.Start("C02", "model_checking")
	var jobs []job
	for _, cfg := range configs(r) {
		jobs = append(jobs, job{"memory", runner.Pick(r, 5, 6), cfg, "", false, 0, 0}, job{"sqlite", runner.Pick(r, 4, 5), cfg, "", false, 0, 0})
	}
	jobs = append(jobs, job{"sqlite", runner.Pick(r, 5, 6), qmodel.Config{}, "restart", false, 0, 0},
		job{"sqlite", runner.Pick(r, 5, 6), qmodel.Config{DeliveredMaxAge: 10 * sec, DLQMaxAge: 10 * sec, PruneInterval: sec}, "restart", false, 0, 0})
	for pi := range qcheck.RichPrefixes(alpha()) {
		jobs = append(jobs, job{"memory", runner.Pick(r, 4, 5), qmodel.Config{}, "churn", false, pi + 1, 0})
	}
	// non-initial start states (parked, settled, delayed and expired-lease populations), both backends
	for pi := range qcheck.RichPrefixes(alpha()) {
		jobs = append(jobs, job{"memory", runner.Pick(r, 4, 5), qmodel.Config{}, "", true, pi + 1, 0}, job{"sqlite", runner.Pick(r, 3, 4), qmodel.Config{}, "", false, pi + 1, 0})
		if r.Thorough() {
			c := qmodel.Config{DeliveredMaxAge: 10 * sec, DLQMaxAge: 10 * sec, PruneInterval: sec}
			jobs = append(jobs, job{"memory", 4, c, "", true, pi + 1, 0}, job{"sqlite", 3, c, "", false, pi + 1, 0})
		}
	}
	// the same memory searches with the order-list compaction brought into reach
	for _, cfg := range configs(r) {
		jobs = append(jobs, job{"memory", runner.Pick(r, 5, 6), cfg, "", true, 0, 0})
	}
	for _, cfg := range []qmodel.Config{{DLQMaxDepth: 1, PruneInterval: sec}, {DLQMaxDepth: 2, DLQMaxAge: 10 * sec, PruneInterval: sec}} {
		jobs = append(jobs, job{"memory", runner.Pick(r, 6, 7), cfg, "dlq", false, 0, 0}, job{"sqlite", runner.Pick(r, 5, 6), cfg, "dlq", false, 0, 0})
	}
	// late settlements (late_test.go): start states whose settlement lies max_age or more after the reception, every
	// age rule on; both backends
	for li := range latePrefixes(alpha()) {
		for _, cfg := range lateConfigs() {
			jobs = append(jobs, job{backend: "memory", depth: runner.Pick(r, 4, 5), cfg: cfg, late: li + 1}, job{backend: "sqlite", depth: runner.Pick(r, 3, 4), cfg: cfg, late: li + 1})
		}
	}
	if runner.ReplayPath() != "" {
		if !qcheck.HandleReplay(r, []qcheck.Spec{{Name: "c02", Alpha: alpha()}, {Name: "c02-dlq", Alpha: dlqAlpha()}, {Name: "c02-restart", Alpha: restartAlpha()}, {Name: "c02-churn", Alpha: churnAlpha()}}, nil) {
			twoHandlePart(r, t)
		}
		r.Finish()
	}
	par := len(jobs) // all at once: memory jobs finish within seconds, SQLite jobs are bound by the allocator lock (~2 cores each)
	waves := (len(jobs) + par - 1) / par
	budget := runner.Pick(r, 150*time.Second, 13*time.Minute) / time.Duration(waves)
	if ji, ok := runner.Job(); ok {
		if ji >= len(jobs) {
			ingressPart(r, ji-len(jobs))
			r.Finish()
		}
		j := jobs[ji]
		al, name := alpha(), "c02"
		if j.focus == "dlq" {
			al, name = dlqAlpha(), "c02-dlq"
		}
		if j.focus == "restart" {
			al, name = restartAlpha(), "c02-restart"
		}
		if j.focus == "churn" {
			al, name = churnAlpha(), "c02-churn"
		}
		var pre qcheck.Prefix
		if j.prefix > 0 {
			pre = qcheck.RichPrefixes(alpha())[j.prefix-1]
			if j.focus == "churn" {
				pre = qcheck.RichPrefixes(churnAlpha())[j.prefix-1]
			}
		}
		if j.late > 0 {
			pre = latePrefixes(alpha())[j.late-1]
		}
		spec := qcheck.Spec{Name: name, Backend: j.backend, Prefix: pre.Ops, PrefixName: pre.Name, Cfg: j.cfg, Alpha: al, Depth: j.depth, Workers: 3, ScaleCompaction: j.scaled,
			MaxTrans: runner.Pick(r, int64(3_000_000), int64(40_000_000)), Deadline: time.Now().Add(budget)}
		if j.late > 0 {
			// one key per (backend, operation kind) that met the wrong state, not per message text
			spec.VioKey = func(hist []qmodel.Op, op qmodel.Op, msg string) string { return "late-settlement:" + j.backend + ":" + op.Kind }
		}
		res := qcheck.Run(spec)
		for e := range res.Edges {
			if !legalEdges[e] {
				r.Violation("illegal-edge:"+e, fmt.Sprintf("state transition outside the documented machine: %s (backend %s, config %s)", e, j.backend, res.ConfigLabel), map[string]any{"edge": e}, nil)
			}
		}
		qcheck.Report(r, spec, res)
		r.Finish()
	}
	twoHandlePart(r, t)
	if _, child := runner.IsShard(); child {
		return
	}
	r.RunJobs(len(jobs)+len(ingressBackends), par+len(ingressBackends), budget+2*time.Minute)
	r.Assume("Postgres backend not executed (no server in the sandbox)")
	r.Assume("alphabet: ids a,b,c on routes /r1,/r1,/r2 and targets t1,t2,t1; see DESIGN.md §6 C02")
	r.Set("rule", "every operation sequence over the alphabet up to the depth per backend/config; a state is distinct by canonical implementation dump; non-trivial = distinct (operation kind, result class) pairs and distinct observed state-machine edges; plus a two-handle part: the gateway's SQLite store and a second default-option store on the same file (the MCP server's direct mode) run settlements against cancel/requeue/resume/DLQ operations, every interleaving of their statements that SQLite's write lock admits (unbounded, sleep-set reduced), oracle = linearizability against qmodel + lease monitor; plus searches from late-settlement start states (settled max_age or more after the reception; every age rule on); plus an ingress part: production boot per backend, every sequence of webhooks with different bodies through the real ingress handler and consumer operations up to a length, every stored message compared field by field with its acceptance record after every step")
	r.Finish()
}
