package c02

import (
	"time"

	"github.com/nuetzliches/hookaido/internal/verifkit/qcheck"
	"github.com/nuetzliches/hookaido/internal/verifkit/qmodel"
	"github.com/nuetzliches/hookaido/internal/verifkit/qsys"
)

// Late settlements: start states in which the instants a retention rule may refer to lie further apart than the rule's
// max_age - a message settled (acked under delivered retention, dead-lettered) at least max_age after its reception,
// reached by a long wait in the queue, by an explicit received_at in the past, or by a delayed retry. From the empty
// queue such a state needs five or six operations before the first prune can even look at it; the searches that start
// here spend their whole depth on what happens afterwards (prune-triggering calls, clock steps up to and over the
// boundary, re-enqueues, operator transitions). The statement's clause: a message disappears through a retention prune
// only when it is eligible - a delivered record max_age after its delivery, queued and dead rows max_age after their
// reception - whichever of its other timestamps is older.

func lateEnv(a qcheck.Alpha, i int) qmodel.EnvSpec {
	return qmodel.EnvSpec{ID: a.IDs[i], Route: a.Routes[i%len(a.Routes)], Target: a.Targets[i%len(a.Targets)],
		Payload: []byte("p-" + a.IDs[i]), Headers: map[string]string{"X-Id": a.IDs[i]}}
}

// lateConfig: every age rule on (delivered and DLQ; queue retention is left to its own configurations, it would prune
// the waiting messages of the prefixes before they are settled), prune interval 1 s.
func lateConfigs() []qmodel.Config {
	return []qmodel.Config{
		{DeliveredMaxAge: 10 * sec, DLQMaxAge: 10 * sec, PruneInterval: sec},
		{MaxDepth: 2, DropOldest: true, DeliveredMaxAge: 10 * sec, PruneInterval: sec},
	}
}

func latePrefixes(a qcheck.Alpha) []qcheck.Prefix {
	e := func(i int) qmodel.Op { return qmodel.Op{Kind: "enq", Envs: []qmodel.EnvSpec{lateEnv(a, i)}} }
	deq := func(b int) qmodel.Op { return qmodel.Op{Kind: "deq", Batch: b, TTL: 2 * sec} }
	h := func(i, attempt int) string { return a.IDs[i] + "#" + string(rune('0'+attempt)) }
	tick1 := qmodel.Op{Kind: "tick", Dur: sec} // the prune interval has passed since the settlement: the next call prunes
	old := lateEnv(a, 0)
	old.ReceivedAt = qsys.T0 - int64(time.Hour)
	return []qcheck.Prefix{
		// waited max_age in the queue, then delivered; a second message still leased
		{Name: "a-delivered-after-long-wait,b-leased", Ops: []qmodel.Op{e(0), e(1), {Kind: "tick", Dur: 10 * sec}, deq(2), {Kind: "ack", Lease: h(0, 1)}, tick1}},
		// accepted with a reception instant long ago (a publish carrying received_at), delivered at once
		{Name: "a-received-long-ago-delivered,b-queued", Ops: []qmodel.Op{{Kind: "enq", Envs: []qmodel.EnvSpec{old}}, deq(1), {Kind: "ack", Lease: h(0, 1)}, e(1)}},
		// delivered by the second attempt after a delayed retry; a dead-lettered neighbour
		{Name: "a-delivered-after-delayed-retry,b-dead", Ops: []qmodel.Op{e(0), deq(1), {Kind: "nack", Lease: h(0, 1), Delay: 5 * sec}, {Kind: "tick", Dur: 10 * sec}, deq(1), {Kind: "ack", Lease: h(0, 2)},
			e(1), deq(1), {Kind: "dead", Lease: h(1, 1), Reason: "boom"}, tick1}},
	}
}
