package c02

import (
	"bufio"
	"bytes"
	"fmt"
	"net/http"
	"net/http/httptest"
	"os"
	"path/filepath"
	"runtime"
	"sort"
	"strings"
	"time"

	"github.com/nuetzliches/hookaido/internal/app"
	"github.com/nuetzliches/hookaido/internal/queue"
	"github.com/nuetzliches/hookaido/internal/verifkit/runner"
)

// Ingress-in-front-of-the-store part. The store-level searches hand the store envelopes the harness built itself, so
// they cannot see what happens to a stored message when the memory it was built from belongs to somebody else (a
// request's read buffer, a header map, a recycled allocation). Here the messages come in the way production accepts
// them: the application is booted (app.VerifBoot: Parse, Compile, newQueueStore, startServers), webhooks with
// different bodies (equal length / longer / shorter / large / empty) and headers go through the real ingress handler
// into the configured queue backend, interleaved with the consumer's operations on the same store (dequeue, nack,
// dead-letter, ack, DLQ requeue). Every operation sequence up to a length is run on a fresh instance; after every
// step every message the store holds is read back (all states and the DLQ listing, payload and headers included) and
// compared with the record taken when it was accepted:
//   - a webhook answered 202 adds exactly one message (single-target routes), carrying the route of the path, the body
//     that was sent and the header that was sent; any other answer adds nothing;
//   - afterwards id, route, target, payload and headers of every message stay what they were, whatever operation runs
//     next (statement: "no operation ... alters its id, route, target, payload or headers"), also in what a dequeue
//     hands to the consumer;
//   - a message leaves the store only by a successful ack (no retention or limits configured here), none appears
//     without a webhook.
// The expected bytes are regenerated from the body's index for every comparison; the harness's own request buffer is
// overwritten after the handler returned (a store that kept the caller's bytes would show the scribble).

var ingressBackends = []string{"memory", "sqlite"}

type ingOp struct {
	Kind string // post deq1 deqall nack dead ack rqdead
	Path string `json:",omitempty"`
	Body int    `json:",omitempty"`
}

func (o ingOp) String() string {
	if o.Kind == "post" {
		return fmt.Sprintf("post(%s,body%d)", o.Path, o.Body)
	}
	return o.Kind
}

// ingBody: body number i; different lengths around each other, different bytes at every position.
func ingBody(i int) []byte {
	switch i {
	case 0:
		return bytes.Repeat([]byte("a0"), 12)
	case 1:
		return bytes.Repeat([]byte("b1"), 12) // as long as body 0
	case 2:
		return bytes.Repeat([]byte("c2"), 20) // longer
	case 3:
		return []byte("d3d3d") // shorter
	case 4:
		return bytes.Repeat([]byte("e4"), 35000) // large
	}
	return nil // 5: empty
}

const ingBodies = 6

var ingRoutes = map[string]string{"/p": "/p", "/q": "/q"} // request path -> route

func ingDSL(backend string, k int) string {
	base := 23000 + k*4
	return fmt.Sprintf("ingress { listen \"127.0.0.1:%d\" }\npull_api { listen \"127.0.0.1:%d\" auth token \"raw:g1\" }\nadmin_api { listen \"127.0.0.1:%d\" }\n"+
		"/p {\n  queue { backend %s }\n  pull { path /e }\n}\n/q {\n  queue { backend %s }\n  pull { path /e2 }\n}\n", base, base+1, base+2, backend, backend)
}

type ingRec struct {
	ID, Route, Target string
	Body              int
	Seq               string
	Headers           map[string]string
}

type ingWorld struct {
	a      *app.VerifApp
	known  map[string]*ingRec
	leases []string // lease ids held, oldest first
	lease  map[string]string
	dead   int
	queued int
	seq    int
}

func ingSnapshot(st queue.Store) (map[string]queue.Envelope, error) {
	out := map[string]queue.Envelope{}
	l, err := st.ListMessages(queue.MessageListRequest{Limit: 1000, IncludePayload: true, IncludeHeaders: true})
	if err != nil {
		return nil, err
	}
	for _, e := range l.Items {
		out[e.ID] = e
	}
	d, err := st.ListDead(queue.DeadListRequest{Limit: 1000, IncludePayload: true, IncludeHeaders: true})
	if err != nil {
		return nil, err
	}
	for _, e := range d.Items {
		if _, ok := out[e.ID]; !ok {
			out[e.ID] = e
		}
	}
	return out, nil
}

func sameHeaders(a, b map[string]string) bool {
	if len(a) != len(b) {
		return false
	}
	for k, v := range a {
		if w, ok := b[k]; !ok || w != v {
			return false
		}
	}
	return true
}

// compare one stored / handed-out envelope with its record; returns the class of the first difference.
func (w *ingWorld) differs(e queue.Envelope, rec *ingRec) (string, string) {
	if e.Route != rec.Route {
		return "route-altered", fmt.Sprintf("route %q, accepted on %q", e.Route, rec.Route)
	}
	if e.Target != rec.Target {
		return "target-altered", fmt.Sprintf("target %q, stored for %q", e.Target, rec.Target)
	}
	if want := ingBody(rec.Body); !bytes.Equal(e.Payload, want) {
		return "payload-altered", fmt.Sprintf("payload is %s, accepted with %s", short(e.Payload), short(want))
	}
	if !sameHeaders(e.Headers, rec.Headers) {
		return "headers-altered", fmt.Sprintf("headers %v, accepted with %v", e.Headers, rec.Headers)
	}
	return "", ""
}

func short(b []byte) string {
	if len(b) > 48 {
		return fmt.Sprintf("%q...(%d bytes)", b[:48], len(b))
	}
	return fmt.Sprintf("%q", b)
}

// enabled: consumer operations are offered only where they can do something (the store-level searches cover the
// stale / unknown cases).
func (w *ingWorld) enabled() []ingOp {
	var ops []ingOp
	for b := 0; b < ingBodies; b++ {
		ops = append(ops, ingOp{Kind: "post", Path: "/p", Body: b})
	}
	ops = append(ops, ingOp{Kind: "post", Path: "/q", Body: 1}, ingOp{Kind: "post", Path: "/nowhere", Body: 0})
	if w.queued > 0 {
		ops = append(ops, ingOp{Kind: "deq1"}, ingOp{Kind: "deqall"})
	}
	if len(w.leases) > 0 {
		ops = append(ops, ingOp{Kind: "nack"}, ingOp{Kind: "dead"}, ingOp{Kind: "ack"})
	}
	if w.dead > 0 {
		ops = append(ops, ingOp{Kind: "rqdead"})
	}
	return ops
}

// step runs one operation and the oracle; a non-empty class is a violation.
func (w *ingWorld) step(op ingOp, count func(string, int64), distinct func(string)) (class, msg string) {
	st := w.a.Store
	removed := ""     // id a successful ack removed
	var posted *ingRec // record under construction of an accepted webhook
	code := 0
	switch op.Kind {
	case "post":
		w.seq++
		seq := fmt.Sprintf("s%d", w.seq)
		buf := ingBody(op.Body)
		raw := fmt.Sprintf("POST %s HTTP/1.1\r\nHost: h\r\nX-Seq: %s\r\nContent-Type: application/octet-stream\r\nContent-Length: %d\r\n\r\n", op.Path, seq, len(buf))
		rq, err := http.ReadRequest(bufio.NewReader(strings.NewReader(raw)))
		if err != nil {
			return "INFRA", err.Error()
		}
		rq.RemoteAddr = "10.1.2.3:5555"
		rq.Body = ingReadCloser{bytes.NewReader(buf)}
		rq.ContentLength = int64(len(buf))
		rec := httptest.NewRecorder()
		w.a.Ingress.ServeHTTP(rec, rq)
		for i := range buf {
			buf[i] = '#'
		}
		code = rec.Code
		if code == http.StatusAccepted {
			posted = &ingRec{Route: ingRoutes[op.Path], Body: op.Body, Seq: seq}
			count("ref_accepts", 1)
		} else {
			count("ref_rejects", 1)
		}
		distinct(fmt.Sprintf("ingress:post:len%d:%d", len(ingBody(op.Body)), code))
	case "deq1", "deqall":
		n := 1
		if op.Kind == "deqall" {
			n = 100
		}
		got := 0
		for _, route := range []string{"/p", "/q"} {
			if got >= n {
				break
			}
			resp, err := st.Dequeue(queue.DequeueRequest{Route: route, Target: "pull", Batch: n - got, LeaseTTL: time.Hour})
			if err != nil {
				return "INFRA", "dequeue: " + err.Error()
			}
			for _, it := range resp.Items {
				got++
				rec := w.known[it.ID]
				if rec == nil {
					return "unknown-message-leased", fmt.Sprintf("dequeue handed out %s, which no webhook created", it.ID)
				}
				count("ingress_field_comparisons", 4)
				if c, m := w.differs(it, rec); c != "" {
					return c, fmt.Sprintf("dequeue handed message %s (webhook %s) to the consumer with %s", it.ID, rec.Seq, m)
				}
				w.leases = append(w.leases, it.LeaseID)
				w.lease[it.LeaseID] = it.ID
				w.queued--
			}
		}
		distinct(fmt.Sprintf("ingress:%s:%d", op.Kind, got))
	case "nack", "dead", "ack":
		h := w.leases[0]
		w.leases = w.leases[1:]
		var err error
		switch op.Kind {
		case "nack":
			if err = st.Nack(h, 0); err == nil {
				w.queued++
			}
		case "dead":
			if err = st.MarkDead(h, "boom"); err == nil {
				w.dead++
			}
		case "ack":
			if err = st.Ack(h); err == nil {
				removed = w.lease[h]
			}
		}
		distinct(fmt.Sprintf("ingress:%s:ok=%v", op.Kind, err == nil))
	case "rqdead":
		var ids []string
		for id := range w.known {
			ids = append(ids, id)
		}
		sort.Strings(ids)
		resp, err := st.RequeueDead(queue.DeadRequeueRequest{IDs: ids})
		if err != nil {
			return "INFRA", "requeue dead: " + err.Error()
		}
		w.dead -= resp.Requeued
		w.queued += resp.Requeued
		distinct(fmt.Sprintf("ingress:rqdead:%d", resp.Requeued))
	}

	snap, err := ingSnapshot(st)
	if err != nil {
		return "INFRA", "listing: " + err.Error()
	}
	// new messages
	var fresh []string
	for id := range snap {
		if w.known[id] == nil {
			fresh = append(fresh, id)
		}
	}
	sort.Strings(fresh)
	switch {
	case posted != nil && len(fresh) != 1:
		return "accepted-not-stored-once", fmt.Sprintf("webhook %s answered 202 and %d new messages exist (%v)", posted.Seq, len(fresh), fresh)
	case posted == nil && len(fresh) > 0 && op.Kind == "post":
		return "refused-but-stored", fmt.Sprintf("webhook answered %d and new messages exist (%v)", code, fresh)
	case posted == nil && len(fresh) > 0:
		return "message-appeared", fmt.Sprintf("%s created messages %v", op, fresh)
	}
	if posted != nil {
		e := snap[fresh[0]]
		posted.ID, posted.Target = e.ID, e.Target
		posted.Headers = map[string]string{}
		for k, v := range e.Headers {
			posted.Headers[k] = v
		}
		if strings.TrimSpace(e.ID) == "" || strings.TrimSpace(e.Target) == "" {
			return "accepted-without-identity", fmt.Sprintf("webhook %s stored with id %q target %q", posted.Seq, e.ID, e.Target)
		}
		if e.Headers["X-Seq"] != posted.Seq {
			return "headers-altered", fmt.Sprintf("webhook %s stored with headers %v", posted.Seq, e.Headers)
		}
		w.known[e.ID] = posted
		w.queued++
	}
	// every message accepted so far
	for id, rec := range w.known {
		e, ok := snap[id]
		if id == removed {
			delete(w.known, id) // acked: whether it is gone or kept is the store-level searches' business
			continue
		}
		if !ok {
			return "message-vanished", fmt.Sprintf("message %s (webhook %s) is gone after %s", id, rec.Seq, op)
		}
		count("ingress_field_comparisons", 4)
		if c, m := w.differs(e, rec); c != "" {
			return c, fmt.Sprintf("after %s message %s (webhook %s, state %s) has %s", op, id, rec.Seq, e.State, m)
		}
	}
	return "", ""
}

type ingReadCloser struct{ *bytes.Reader }

func (ingReadCloser) Close() error { return nil }

// ingressPart runs in a job child of its own (one per backend).
func ingressPart(r *runner.Run, k int) {
	backend := ingressBackends[k]
	// One P: whatever request-scoped memory the code under test recycles is recycled the same way in every run. The
	// oracle does not depend on it.
	runtime.GOMAXPROCS(1)
	length := runner.Pick(r, 4, 5)
	if backend == "sqlite" {
		length = runner.Pick(r, 3, 4)
	}
	deadline := time.Now().Add(runner.Pick(r, 70*time.Second, 8*time.Minute))
	dir := filepath.Join(runner.Scratch(), "c02-ingress-"+backend)
	seen := map[string]bool{}
	count := func(k string, n int64) { r.Add(k, n) }
	distinct := func(k string) { r.Distinct(k + ":" + backend) }
	var sequences, steps int64
	cut := false

	// run replays one sequence on a fresh instance; ok=false: stop everything (infrastructure).
	run := func(seq []ingOp) (next []ingOp, ok bool) {
		os.RemoveAll(dir)
		a, err := app.VerifBoot(app.VerifBootOptions{Dir: dir, ConfigText: ingDSL(backend, k)})
		if err != nil {
			r.Infra("ingress part: boot (%s): %v", backend, err)
			return nil, false
		}
		defer a.Shutdown()
		if a.Backend != backend {
			r.Infra("ingress part: booted backend %q, wanted %q", a.Backend, backend)
			return nil, false
		}
		w := &ingWorld{a: a, known: map[string]*ingRec{}, lease: map[string]string{}}
		for i, op := range seq {
			steps++
			class, msg := w.step(op, count, distinct)
			if class == "INFRA" {
				r.Infra("ingress part (%s) %v step %d: %s", backend, seq, i, msg)
				return nil, false
			}
			if class != "" {
				key := fmt.Sprintf("ingress-store:%s:%s", backend, class)
				if !seen[key] {
					seen[key] = true
					txt := make([]string, i+1)
					for j := range txt {
						txt[j] = seq[j].String()
					}
					r.Violation(key, fmt.Sprintf("[ingress -> %s store] %v: %s", backend, txt, msg),
						map[string]any{"engine": "ingress-store", "backend": backend, "sequence": seq[:i+1], "sequence_text": txt}, nil)
				}
				return nil, true
			}
		}
		return w.enabled(), true
	}

	// breadth-first by length: every sequence of length n (over the operations enabled after its prefix) runs once, on
	// a fresh instance, before any of length n+1; a budget that ends the part leaves the shorter lengths complete.
	type node struct {
		seq []ingOp
		ops []ingOp
	}
	level := []node{{nil, (&ingWorld{}).enabled()}}
	completed := 0
search:
	for n := 1; n <= length; n++ {
		var nextLevel []node
		for _, nd := range level {
			for _, op := range nd.ops {
				if time.Now().After(deadline) {
					cut = true
					break search
				}
				s := append(append([]ingOp{}, nd.seq...), op)
				next, ok := run(s)
				if !ok {
					break search
				}
				sequences++
				if n == length || n == 2 {
					r.Sample(map[string]any{"run": "c02-ingress/" + backend, "sequence": fmt.Sprint(s)})
				}
				if n < length && next != nil {
					nextLevel = append(nextLevel, node{s, next})
				}
			}
		}
		completed = n
		level = nextLevel
	}
	r.Add("ingress_sequences", sequences)
	r.Add("ingress_steps", steps)
	r.Add("states", sequences)
	r.Add("transitions", steps)
	r.Add("traces_validated_against_impl", sequences)
	r.Set("run:c02-ingress/"+backend, map[string]any{"sequences": sequences, "steps": steps, "length": length, "length_completed": completed, "exhaustive": !cut})
	if cut {
		r.NotExhaustive(fmt.Sprintf("c02-ingress/%s: wall budget ended the enumeration after length %d of %d", backend, completed, length))
	}
	r.Assume("ingress part: single-target pull routes, no auth, default limits, no retention; one request at a time (bodies of 0, 5, 24, 24, 40 and 70000 bytes); consumer operations go to the store directly")
}
