package c05

import (
	"fmt"
	"os"
	"path/filepath"
	"testing"
	"time"

	"github.com/nuetzliches/hookaido/internal/verifkit/crashkit"
	"github.com/nuetzliches/hookaido/internal/verifkit/lin"
	"github.com/nuetzliches/hookaido/internal/verifkit/qcheck"
	"github.com/nuetzliches/hookaido/internal/verifkit/qmodel"
	"github.com/nuetzliches/hookaido/internal/verifkit/qsched"
	"github.com/nuetzliches/hookaido/internal/verifkit/runner"
	"github.com/nuetzliches/hookaido/internal/verifkit/sched"
	"github.com/nuetzliches/hookaido/internal/verifkit/schedrun"
)

const (
	sec = time.Second
	ms  = time.Millisecond
	ttl = 2 * sec
)

// alphabet: readiness-centred. Clock steps hit every due instant exactly, 1 ns before, and the 10 ms sweep
// granularity boundary (10 ms - 1 ns, 10 ms) after it.
func alpha() qcheck.Alpha {
	return qcheck.Alpha{
		IDs: []string{"a", "b", "c"}, Routes: []string{"/r1", "/r1", "/r2"}, Targets: []string{"t1", "t2", "t1"},
		EnqPast:  true, // includes an enqueue with next_run_at = now + 5 s
		Deq:      []qcheck.DeqSpec{{Route: "/r1", Batch: 1, TTL: ttl}, {Batch: 2, TTL: ttl}, {Route: "/r1", Target: "t2", Batch: 3, TTL: ttl}, {Batch: 3, TTL: ttl}, {Batch: 100, TTL: ttl}, {Route: "/r2", Batch: 101, TTL: ttl}},
		LeaseOps: []string{"nack", "nackd", "ext"}, MaxHandles: 2,
		Operator: []string{"requeue", "cancel"},
		Reopen:   true,
		Ticks:    []time.Duration{1, 10*ms - 1, 10 * ms, sec - 1, ttl - 1, ttl, 5*sec - 1, 5 * sec},
	}
}

// readiness monitor, independent of qmodel's dequeue rule: nothing is returned before it is due; the count is
// min(batch, ready) where ready is computed here from the contents before the call.
func readiness(pre, post *qmodel.Model, op qmodel.Op, obs *qmodel.Obs) string {
	if op.Kind != "deq" {
		return ""
	}
	now := pre.Now
	batch := op.Batch
	if batch <= 0 {
		batch = 1
	}
	if batch > 100 {
		batch = 100
	}
	certain, maybe := 0, 0
	for _, it := range pre.Items {
		if op.Route != "" && it.Route != op.Route || op.Target != "" && it.Target != op.Target {
			continue
		}
		switch {
		case it.State == qmodel.Queued && it.NextRunAt <= now:
			certain++
		case it.State == qmodel.Leased && it.LeaseUntil <= now:
			if now-it.LeaseUntil >= int64(pre.Cfg.SweepGranularity) {
				certain++
			} else {
				maybe++
			}
		}
	}
	for _, it := range obs.Items {
		p := pre.Items[it.ID]
		if p == nil {
			return "dequeue returned an unknown message " + it.ID
		}
		if p.State == qmodel.Queued && p.NextRunAt > now {
			return fmt.Sprintf("message %s offered %d ns before it is due", it.ID, p.NextRunAt-now)
		}
		if p.State == qmodel.Leased && p.LeaseUntil > now {
			return fmt.Sprintf("message %s offered while its lease has %d ns left", it.ID, p.LeaseUntil-now)
		}
		if p.State != qmodel.Queued && p.State != qmodel.Leased {
			return fmt.Sprintf("message %s offered in state %s", it.ID, p.State)
		}
	}
	lo, hi := min(batch, certain), min(batch, certain+maybe)
	if len(obs.Items) < lo || len(obs.Items) > hi {
		return fmt.Sprintf("dequeue returned %d item(s); ready now: %d certain + %d inside the sweep granularity, batch %d", len(obs.Items), certain, maybe, batch)
	}
	return ""
}

type job struct {
	backend string
	depth   int
	shard   int
	scaled  bool           // memory: order-list compaction thresholds lowered (qcheck.Spec.ScaleCompaction)
	prefix  int            // > 0: start from qcheck.RichPrefixes(...)[prefix-1] with the alphabet alphaRich
	limits  *qmodel.Config // non-nil: search with queue_limits in force and the alphabet alphaLimits
}

// alphaLimits: the admission side of the store as a source of hidden messages. With queue_limits in force an enqueue
// (single or batch; accepted, refused as full, refused for a duplicate id after it already evicted under drop_oldest)
// rearranges or restores stored messages; whatever it leaves stored and due must still be offered, exactly
// min(batch, ready) at a time. Batches of one, two and three, with a repeated id, with ids already stored, across two
// routes; a message in the past (first victim of drop_oldest) and one scheduled for the future.
func alphaLimits() qcheck.Alpha {
	return qcheck.Alpha{
		IDs: []string{"a", "b", "c"}, Routes: []string{"/r1", "/r1", "/r2"}, Targets: []string{"t1"},
		EnqPast: true, EnqBatch: true,
		Deq:      []qcheck.DeqSpec{{Batch: 2, TTL: ttl}, {Route: "/r2", Batch: 1, TTL: ttl}, {Batch: 100, TTL: ttl}},
		LeaseOps: []string{"ack", "nack"}, MaxHandles: 2,
		Ticks: []time.Duration{ttl, 5 * sec},
	}
}

// limitConfigs: max_depth x drop policy of the limits searches.
func limitConfigs(r *runner.Run) []qmodel.Config {
	cs := []qmodel.Config{{MaxDepth: 2, DropOldest: true}, {MaxDepth: 3, DropOldest: true}, {MaxDepth: 2}}
	if r.Thorough() {
		cs = append(cs, qmodel.Config{MaxDepth: 1, DropOldest: true}, qmodel.Config{MaxDepth: 3})
	}
	return cs
}

// alphaRich: the alphabet of the searches that start from non-initial states: settlements and every operator
// transition that makes a parked message ready again, fewer clock steps.
func alphaRich() qcheck.Alpha {
	a := alpha()
	a.EnqPast = false
	a.Deq = []qcheck.DeqSpec{{Batch: 2, TTL: ttl}, {Batch: 100, TTL: ttl}, {Route: "/r1", Batch: 1, TTL: ttl}}
	a.LeaseOps = []string{"ack", "nack", "nackd", "dead"}
	a.LeaseBatch = true // batch settlements incl. a delayed batch nack that names an already expired lease
	a.Operator = []string{"requeue", "cancel", "resume", "rqdead"}
	a.Ticks = []time.Duration{ttl, 5 * sec}
	return a
}

// alphaChurn: parked / settled messages, a burst of traffic on another route that takes the memory store past the size
// thresholds of its bookkeeping (order-list compaction at 1024 entries), then every transition that makes a parked
// message ready again. Runs with the REAL thresholds.
func alphaChurn() qcheck.Alpha {
	a := alphaRich()
	a.Deq = []qcheck.DeqSpec{{Batch: 100, TTL: ttl}}
	a.LeaseOps = []string{"ack", "dead"}
	a.LeaseBatch = false
	a.Ticks = []time.Duration{ttl}
	a.Churn = 1500
	return a
}

const shards = 6

func TestCheck(t *testing.T) {
	crashkit.MaybeChild()
	r := runner.Start("C05", "model_checking")
	if qcheck.HandleReplay(r, []qcheck.Spec{{Name: "c05", Extra: readiness}, {Name: "c05-churn", Extra: readiness}, {Name: "c05-limits", Extra: readiness}}, nil) {
		r.Finish()
	}
	if runner.ReplayPath() != "" && (replayInstant(r, t) || replayMass(r, t)) {
		r.Finish()
	}
	if os.Getenv("VERIF_C05_PART") == "mass" { // development switch
		massPart(r, t)
		r.Finish()
	}
	if os.Getenv("VERIF_C05_PART") == "instants" { // development switch
		instantsPart(r, t)
		r.Finish()
	}
	var jobs []job
	for s := 0; s < shards; s++ {
		// memory: with the order-list compaction thresholds lowered, so that compactions happen inside the histories
		jobs = append(jobs, job{"memory", runner.Pick(r, 6, 7), s, true, 0, nil}, job{"sqlite", runner.Pick(r, 4, 6), s, false, 0, nil})
	}
	for pi := range qcheck.RichPrefixes(alphaRich()) {
		jobs = append(jobs, job{"memory", runner.Pick(r, 5, 6), 0, true, pi + 1, nil}, job{"sqlite", runner.Pick(r, 4, 5), 0, false, pi + 1, nil})
	}
	for pi := range qcheck.RichPrefixes(alphaRich()) {
		jobs = append(jobs, job{"memory-churn", runner.Pick(r, 4, 5), 0, false, pi + 1, nil})
	}
	if os.Getenv("VERIF_C05_PART") == "limits" { // development switch: only the limits searches
		jobs = nil
	}
	for _, c := range limitConfigs(r) {
		c := c
		jobs = append(jobs, job{"memory", runner.Pick(r, 5, 6), 0, true, 0, &c}, job{"sqlite", runner.Pick(r, 4, 5), 0, false, 0, &c})
	}
	budget := runner.Pick(r, 60*time.Second, 10*time.Minute)
	if ji, ok := runner.Job(); ok {
		j := jobs[ji]
		al, nsh := alpha(), shards
		var pre qcheck.Prefix
		if j.prefix > 0 {
			al, nsh = alphaRich(), 1
			pre = qcheck.RichPrefixes(al)[j.prefix-1]
		}
		name := "c05"
		if j.backend == "memory-churn" {
			j.backend, al, name = "memory", alphaChurn(), "c05-churn"
		}
		cfg := qmodel.Config{}
		if j.limits != nil {
			cfg, al, nsh, name = *j.limits, alphaLimits(), 1, "c05-limits"
			budget = runner.Pick(r, 25*time.Second, 4*time.Minute)
		}
		extra := readiness
		if j.limits != nil {
			// same monitor; the counters show how many dequeues were judged on a queue at / below its depth limit
			extra = func(pre, post *qmodel.Model, op qmodel.Op, obs *qmodel.Obs) string {
				if op.Kind == "deq" {
					active := 0
					for _, it := range pre.Items {
						if it.State == qmodel.Queued || it.State == qmodel.Leased {
							active++
						}
					}
					r.Add("limits:dequeues_judged", 1)
					if active >= pre.Cfg.MaxDepth {
						r.Add("limits:dequeues_judged_at_full_depth", 1)
					}
					if len(obs.Items) > 0 {
						r.Add("limits:dequeues_that_returned_messages", 1)
					}
				}
				return readiness(pre, post, op, obs)
			}
		}
		spec := qcheck.Spec{Name: name, Backend: j.backend, Cfg: cfg, Alpha: al, Depth: j.depth, Workers: 3,
			RootShard: j.shard, RootShards: nsh, ScaleCompaction: j.scaled, Prefix: pre.Ops, PrefixName: pre.Name,
			MaxTrans: runner.Pick(r, int64(3_000_000), int64(40_000_000)), Deadline: time.Now().Add(budget), Extra: extra}
		res := qcheck.Run(spec)
		qcheck.Report(r, spec, res)
		r.Finish()
	}
	if _, child := runner.IsShard(); !child {
		r.RunJobs(len(jobs), 12, budget+3*time.Minute)
	}
	// ---- schedules: two consumers on two routes race across a lease expiry (SQLite sweep throttle CAS) ----
	env := func(id, route string) qmodel.EnvSpec {
		return qmodel.EnvSpec{ID: id, Route: route, Target: "pull", Payload: []byte(id)}
	}
	for _, backend := range []string{"sqlite", "memory"} {
		sc := qsched.Scenario{
			Name: "expiry-race-" + backend, Backend: backend, Dir: filepath.Join(runner.Scratch(), "c05s"),
			Setup: []qmodel.Op{{Kind: "enq", Envs: []qmodel.EnvSpec{env("a", "/r1")}}, {Kind: "enq", Envs: []qmodel.EnvSpec{env("b", "/r2")}},
				{Kind: "deq", Batch: 2, TTL: sec}},
			Threads: []qsched.Thread{
				{Name: "c1", Steps: []qsched.Step{{Op: qmodel.Op{Kind: "deq", Route: "/r1", Batch: 1, TTL: sec}}, {Op: qmodel.Op{Kind: "deq", Route: "/r1", Batch: 1, TTL: sec}}}},
				{Name: "c2", Steps: []qsched.Step{{Op: qmodel.Op{Kind: "deq", Route: "/r2", Batch: 1, TTL: sec}}, {Op: qmodel.Op{Kind: "nack", Lease: "own", Delay: 0}}}},
			},
			Ticks: []time.Duration{sec},
		}
		body, rec := qsched.Body(sc)
		oracle := func(x *sched.Exec) {
			if why := lin.Check(rec.Init, rec.Events); why != "" {
				sched.Failf("%s", why)
			}
		}
		schedrun.Run(r, t, schedrun.Spec{Name: sc.Name, Bound: runner.Pick(r, 2, 3), Shards: 16, Budget: runner.Pick(r, 25*time.Second, 5*time.Minute), Body: body, Oracle: oracle,
			VioKey: func(f *sched.Failure) string { return "redelivery-race:" + backend }})
	}
	if _, child := runner.IsShard(); !child && runner.ReplayPath() == "" {
		// ---- crash points while messages are leased --------------------------------------------------------
		scens := []crashkit.Scenario{{Name: "lease", Script: "lease"}}
		if r.Thorough() {
			for i := 0; i < crashkit.GenCount(3); i++ {
				scens = append(scens, crashkit.Scenario{Name: fmt.Sprintf("gen3-%d", i), Script: fmt.Sprintf("gen:3:%d", i)})
			}
		}
		crashkit.Enumerate(r, scens)
		// ---- instants a client may write, up to the last RFC 3339 instant ------------------------------------
		instantsPart(r, t)
		// ---- volume: hundreds / thousands of leases running out at the same instant ------------------------------
		massPart(r, t)
	}
	r.Assume("SQLite: an expired lease is certainly released by a dequeue running >= 10 ms (the documented sweep granularity) after the expiry; earlier it may or may not be (the model follows the implementation there); the harness clock is monotonic")
	r.Assume("limits part: refusals for memory pressure (they need > 1000 retained items) are not executed; they share the undo of tentative evictions with the duplicate-id and queue-full refusals that are")
	r.Assume("crash part: process death only (see C01); Postgres not executed")
	r.Set("limits_part", "every store operation sequence up to the depth with queue_limits in force (max_depth 2 / 3 drop_oldest, max_depth 2 reject; thorough also 1 drop_oldest, 3 reject) on both backends over single and batch enqueues (1-3 items, repeated id, stored ids, past received_at, future next_run_at: accepted, refused as full, refused as duplicate after tentative evictions), dequeues, ack / nack and clock steps; every dequeue judged by qmodel and the readiness monitor")
	r.Set("rule", "(1) every store operation sequence up to the depth over enqueue (incl. future next_run_at), dequeue with all filters and batch sizes 1/2/3/100/101, nack with delay 0 / 5 s, extend, operator requeue/cancel and clock steps {1 ns, 10 ms - 1 ns, 10 ms, 1 s - 1 ns, ttl - 1 ns, ttl, 5 s - 1 ns, 5 s} on both backends, validated by qmodel and an independent readiness monitor (never before due, exactly min(batch, ready) items, everything due for >= the sweep granularity is ready); (2) every interleaving within the preemption bound of two consumers on two routes racing across a lease expiry, linearizability against qmodel; (3) SIGKILL before every file-mutating syscall of a lease-centred history (dequeue, extend, nack, delayed nack, dead-letter, checkpoint), restart, every unsettled message offered again exactly once after lease expiry; non-trivial = distinct (operation, result) pairs, distinct schedules' outcomes and distinct crash classes")
	r.Finish()
}
