package c05

import (
	"bytes"
	"encoding/json"
	"fmt"
	"net/http/httptest"
	"os"
	"path/filepath"
	"strings"
	"testing"
	"testing/synctest"
	"time"

	"github.com/nuetzliches/hookaido/internal/app"
	"github.com/nuetzliches/hookaido/internal/queue"
	"github.com/nuetzliches/hookaido/internal/verifkit/runner"
)

// Mass part ("no ready message can be starved while capacity is requested", "after its lease expires it is offered
// again"): what a bounded search cannot reach by single steps is VOLUME - hundreds or thousands of leases running out
// at the same instant (a worker fleet or the gateway died). N messages on route /bulk and 5 on /orders are leased,
// the clock passes all lease deadlines at once (optionally the gateway is restarted through the production boot
// path), and then, 10 ms (the sweep granularity) later: a dequeue on /orders returns exactly its 5 messages, repeated
// dequeues on /bulk return exactly min(batch, remaining) each time until every message was offered again exactly once,
// and nothing is offered a second time. N runs over both sides of powers of two and of the batch limits.

func massDSL(backend string) string {
	return fmt.Sprintf(`
ingress   { listen "127.0.0.1:18080" }
pull_api  { listen "127.0.0.1:18081"  auth token "raw:g1" }
admin_api { listen "127.0.0.1:18082" }
/bulk   { queue { backend %[1]s }  pull { path /eb } }
/orders { queue { backend %[1]s }  pull { path /eo } }
`, backend)
}

type mcase struct {
	Backend string `json:"backend"`
	N       int    `json:"n"`
	Restart bool   `json:"restart"`
	First   string `json:"first"` // which route polls first after the expiry
}

func replayMass(r *runner.Run, t *testing.T) bool {
	var doc struct {
		Replay struct {
			Engine string `json:"engine"`
			mcase
		} `json:"replay"`
	}
	b, err := os.ReadFile(runner.ReplayPath())
	if err != nil || json.Unmarshal(b, &doc) != nil || doc.Replay.Engine != "mass" {
		return false
	}
	massCases(r, t, []mcase{doc.Replay.mcase}, time.Now().Add(10*time.Minute))
	return true
}

func massPart(r *runner.Run, t *testing.T) {
	sizes := []int{1, 99, 100, 101, 255, 256, 257, 511, 513, 1000, 1001}
	if r.Thorough() {
		sizes = append(sizes, 1023, 1025, 2047, 2049, 4097, 9995) // the default queue_limits max_depth is 10 000
	}
	var cases []mcase
	for _, be := range []string{"sqlite", "memory"} {
		for _, n := range sizes {
			for _, first := range []string{"orders", "bulk"} {
				cases = append(cases, mcase{be, n, false, first})
				if be == "sqlite" {
					cases = append(cases, mcase{be, n, true, first})
				}
			}
		}
	}
	massCases(r, t, cases, time.Now().Add(runner.Pick(r, 40*time.Second, 8*time.Minute)))
}

func massCases(r *runner.Run, t *testing.T, cases []mcase, deadline time.Time) {
	dir := filepath.Join(runner.Scratch(), "c05-mass")
	const ttl = 30 * time.Second
	n, skipped, offeredAgain := 0, 0, 0
	for _, c := range cases {
		c := c
		if time.Now().After(deadline) {
			skipped++
			continue
		}
		run := func() (why string) {
			synctest.Test(t, func(t *testing.T) {
				os.RemoveAll(dir)
				os.MkdirAll(dir, 0o755)
				a, err := app.VerifBoot(app.VerifBootOptions{Dir: dir, ConfigText: massDSL(c.Backend)})
				if err != nil {
					why = "INFRA boot: " + err.Error()
					return
				}
				defer func() { a.Shutdown() }()
				var batch []queue.Envelope
				for i := 0; i < c.N; i++ {
					batch = append(batch, queue.Envelope{ID: fmt.Sprintf("b%05d", i), Route: "/bulk", Target: "pull", Payload: []byte("x")})
				}
				for i := 0; i < 5; i++ {
					batch = append(batch, queue.Envelope{ID: fmt.Sprintf("o%d", i), Route: "/orders", Target: "pull", Payload: []byte("x")})
				}
				be, ok := a.Store.(interface {
					EnqueueBatch([]queue.Envelope) (int, error)
				})
				for len(batch) > 0 {
					k := min(len(batch), 500)
					if ok {
						if _, err := be.EnqueueBatch(batch[:k]); err != nil {
							why = "INFRA enqueue: " + err.Error()
							return
						}
					} else {
						for _, e := range batch[:k] {
							if err := a.Store.Enqueue(e); err != nil {
								why = "INFRA enqueue: " + err.Error()
								return
							}
						}
					}
					batch = batch[k:]
				}
				deq := func(ep string, b int) (int, []string) {
					body, _ := json.Marshal(map[string]any{"batch": b, "lease_ttl": "30s"})
					rq := httptest.NewRequest("POST", ep+"/dequeue", bytes.NewReader(body))
					rq.Header.Set("Authorization", "Bearer g1")
					rq.Header.Set("Content-Type", "application/json")
					rec := httptest.NewRecorder()
					a.Pull.ServeHTTP(rec, rq)
					var resp struct {
						Items []struct {
							ID string `json:"id"`
						} `json:"items"`
					}
					json.Unmarshal(rec.Body.Bytes(), &resp)
					var ids []string
					for _, it := range resp.Items {
						ids = append(ids, it.ID)
					}
					return rec.Code, ids
				}
				// lease everything (the fleet holds every message) ...
				leased := 0
				for leased < c.N {
					code, ids := deq("/eb", 100)
					if code != 200 || len(ids) == 0 {
						why = fmt.Sprintf("INFRA leasing /bulk: status %d, %d items after %d", code, len(ids), leased)
						return
					}
					leased += len(ids)
					time.Sleep(time.Millisecond)
				}
				if code, ids := deq("/eo", 5); code != 200 || len(ids) != 5 {
					why = fmt.Sprintf("INFRA leasing /orders: status %d, %d items", code, len(ids))
					return
				}
				// ... and dies: every lease runs out
				time.Sleep(ttl + time.Second)
				if c.Restart {
					a.Shutdown()
					if a, err = app.VerifBoot(app.VerifBootOptions{Dir: dir, ConfigText: massDSL(c.Backend)}); err != nil {
						why = "the gateway did not start again: " + err.Error()
						return
					}
				}
				seen := map[string]int{}
				take := func(ep string, b, ready int, route string) bool {
					want := min(b, ready)
					code, ids := deq(ep, b)
					if code != 200 {
						why = fmt.Sprintf("dequeue on %s answered %d", route, code)
						return false
					}
					for _, id := range ids {
						seen[id]++
						if seen[id] > 1 {
							why = fmt.Sprintf("message %s was offered twice after the expiry although its second lease has not run out", id)
							return false
						}
					}
					if len(ids) != want {
						why = fmt.Sprintf("dequeue(batch %d) on %s returned %d items %s after every lease ran out; %d of its messages are ready (unsettled, lease expired more than 10 ms ago), want %d", b, route, len(ids), time.Second, ready, want)
						return false
					}
					offeredAgain += len(ids)
					return true
				}
				bulkLeft := c.N
				if c.First == "orders" {
					if !take("/eo", 5, 5, "/orders") {
						return
					}
				}
				for bulkLeft > 0 {
					if !take("/eb", 100, bulkLeft, "/bulk") {
						return
					}
					bulkLeft -= min(100, bulkLeft)
					time.Sleep(time.Millisecond)
				}
				if c.First != "orders" {
					if !take("/eo", 5, 5, "/orders") {
						return
					}
				}
				if !take("/eb", 100, 0, "/bulk") || !take("/eo", 5, 0, "/orders") {
					return
				}
			})
			return why
		}
		n++
		why := run()
		if strings.HasPrefix(why, "INFRA") {
			r.Infra("mass part %+v: %s", c, why)
			break
		}
		if why != "" {
			cls := "n-le-100"
			if c.N > 100 {
				cls = "n-le-1000"
			}
			if c.N > 1000 {
				cls = "n-gt-1000"
			}
			kind := "starved"
			if strings.Contains(why, "twice") {
				kind = "twice"
			}
			r.Violation(fmt.Sprintf("mass-expiry:%s:restart=%v:%s:%s", c.Backend, c.Restart, cls, kind),
				fmt.Sprintf("[mass part] %s backend, %d leases on /bulk + 5 on /orders expired at once, restart=%v, %s polls first: %s", c.Backend, c.N, c.Restart, c.First, why),
				map[string]any{"engine": "mass", "backend": c.Backend, "n": c.N, "restart": c.Restart, "first": c.First}, func() bool { return run() != "" })
		}
	}
	r.Add("states", int64(n))
	r.Add("transitions", int64(offeredAgain))
	r.Add("traces_validated_against_impl", int64(n))
	r.Set("mass_part", map[string]any{"cases": n, "messages_offered_again_after_mass_expiry": offeredAgain, "not_run": skipped})
	if skipped > 0 {
		r.NotExhaustive(fmt.Sprintf("mass part: time budget reached, %d cases not run", skipped))
	}
}
