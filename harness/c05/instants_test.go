package c05

import (
	"bytes"
	"encoding/base64"
	"encoding/json"
	"fmt"
	"net/http/httptest"
	"os"
	"path/filepath"
	"strings"
	"testing"
	"testing/synctest"
	"time"

	"github.com/nuetzliches/hookaido/internal/app"
	"github.com/nuetzliches/hookaido/internal/verifkit/runner"
)

// Instant part ("a message scheduled for the future is not offered before its next_run_at"): the instants a client
// may write - next_run_at of an Admin publish, the nack delay - from a boundary alphabet that runs from now+1 ns over
// the sweep granularity to the last RFC 3339 instant (year 9999), including both sides of the last instant a signed
// 64-bit nanosecond count can hold (2262-04-11T23:47:16.854775807Z). Everything goes through the Admin and pull HTTP
// handlers of a gateway booted by the production path, on both backends, in a virtual-time bubble. Monitor, from the
// statement: the message is not offered before the instant, and (for instants the bubble can reach) it IS offered from
// 10 ms after it. A refusal of the instant (4xx) is fine: nothing was scheduled.

func instantsDSL(backend string) string {
	return fmt.Sprintf(`
ingress   { listen "127.0.0.1:18080" }
pull_api  { listen "127.0.0.1:18081"  auth token "raw:g1" }
admin_api { listen "127.0.0.1:18082" }
/r { queue { backend %s }  pull { path /e } }
`, backend)
}

type icase struct {
	Backend string `json:"backend"`
	Kind    string `json:"kind"` // publish | nack
	When    string `json:"when"` // "+<duration>" relative to the operation, or an absolute RFC 3339 instant
}

var instantAlphabet = []string{"0001-01-01T00:00:00Z", "1000-01-01T00:00:00Z", "1677-09-21T00:12:43.145224191Z", "1677-09-21T00:12:43.145224192Z", "1970-01-01T00:00:00Z", "+1ns", "+9ms", "+10ms", "+11ms", "+1s", "+24h",
	"2200-01-01T00:00:00Z", "2262-04-11T23:47:16.854775807Z", "2262-04-11T23:47:16.854775808Z", "2262-04-12T00:00:00Z",
	"2263-01-01T00:00:00Z", "3000-01-01T00:00:00Z", "9999-12-31T23:59:59.999999999Z", "9999-12-31T23:59:59+14:00"}

func replayInstant(r *runner.Run, t *testing.T) bool {
	var doc struct {
		Replay struct {
			Engine string `json:"engine"`
			icase
		} `json:"replay"`
	}
	b, err := os.ReadFile(runner.ReplayPath())
	if err != nil || json.Unmarshal(b, &doc) != nil || doc.Replay.Engine != "instants" {
		return false
	}
	instantCases(r, t, []icase{doc.Replay.icase})
	return true
}

func instantsPart(r *runner.Run, t *testing.T) {
	var cases []icase
	for _, be := range []string{"memory", "sqlite"} {
		for _, w := range instantAlphabet {
			cases = append(cases, icase{be, "publish", w})
			cases = append(cases, icase{be, "publish-received", w}) // received_at written, next_run_at omitted (= received_at)
			cases = append(cases, icase{be, "nack", w})
		}
	}
	instantCases(r, t, cases)
}

func instantCases(r *runner.Run, t *testing.T, cases []icase) {
	dir := filepath.Join(runner.Scratch(), "c05-instants")
	probes := []time.Duration{0, time.Nanosecond, 9 * time.Millisecond, time.Millisecond, time.Millisecond, time.Second, 24 * time.Hour}
	n, probesRun, refused, offered := 0, 0, 0, 0
	for _, c := range cases {
		c := c
		run := func() (why string) {
			synctest.Test(t, func(t *testing.T) {
				os.RemoveAll(dir)
				os.MkdirAll(dir, 0o755)
				a, err := app.VerifBoot(app.VerifBootOptions{Dir: dir, ConfigText: instantsDSL(c.Backend)})
				if err != nil {
					why = "INFRA boot: " + err.Error()
					return
				}
				defer a.Shutdown()
				call := func(admin bool, path string, body any) (int, []byte) {
					b, _ := json.Marshal(body)
					rq := httptest.NewRequest("POST", path, bytes.NewReader(b))
					rq.Header.Set("Authorization", "Bearer g1")
					rq.Header.Set("Content-Type", "application/json")
					rq.Header.Set("X-Hookaido-Audit-Reason", "verif")
					rec := httptest.NewRecorder()
					if admin {
						a.Admin.ServeHTTP(rec, rq)
					} else {
						a.Pull.ServeHTTP(rec, rq)
					}
					return rec.Code, rec.Body.Bytes()
				}
				deq := func() (int, int, string) {
					code, body := call(false, "/e/dequeue", map[string]any{"batch": 1, "lease_ttl": "30s"})
					var resp struct {
						Items []struct {
							ID      string `json:"id"`
							LeaseID string `json:"lease_id"`
						} `json:"items"`
					}
					json.Unmarshal(body, &resp)
					lease := ""
					if len(resp.Items) > 0 {
						lease = resp.Items[0].LeaseID
					}
					return code, len(resp.Items), lease
				}
				// the instant
				var due time.Time
				var rel time.Duration
				if strings.HasPrefix(c.When, "+") {
					rel, _ = time.ParseDuration(c.When[1:])
				} else if due, err = time.Parse(time.RFC3339Nano, c.When); err != nil {
					why = "INFRA bad instant " + c.When
					return
				}
				item := map[string]any{"id": "a", "route": "/r", "target": "pull", "payload_b64": base64.StdEncoding.EncodeToString([]byte("a"))}
				var what string
				switch c.Kind {
				case "publish", "publish-received":
					if rel != 0 {
						due = time.Now().Add(rel)
					}
					field := "next_run_at"
					if c.Kind == "publish-received" {
						field = "received_at"
					}
					item[field] = due.Format(time.RFC3339Nano)
					code, body := call(true, "/messages/publish", map[string]any{"items": []any{item}})
					if code >= 400 && code < 500 && strings.Contains(string(body), field) {
						refused++ // the instant was refused: nothing scheduled
						return
					}
					if code != 200 {
						why = fmt.Sprintf("INFRA publish with %s %s answered %d %.200s", field, item[field], code, body)
						return
					}
					what = fmt.Sprintf("%s %s of the publish", field, item[field])
				case "nack":
					code, body := call(true, "/messages/publish", map[string]any{"items": []any{item}})
					if code != 200 {
						why = fmt.Sprintf("INFRA publish answered %d %.200s", code, body)
						return
					}
					dc, k, lease := deq()
					if dc != 200 || k != 1 {
						why = fmt.Sprintf("INFRA first dequeue answered %d with %d items", dc, k)
						return
					}
					if rel != 0 {
						due = time.Now().Add(rel)
					}
					delay := due.Sub(time.Now()) // saturates at the largest Duration for instants beyond its range
					due = time.Now().Add(delay)
					code, _ = call(false, "/e/nack", map[string]any{"lease_id": lease, "delay": delay.String()})
					if code == 400 || code == 422 {
						refused++
						return
					}
					if code != 204 {
						why = fmt.Sprintf("nack with delay %s of an unexpired lease answered %d", delay, code)
						return
					}
					what = fmt.Sprintf("the nack's delay %s (due %s)", delay, due.UTC().Format(time.RFC3339Nano))
				}
				for _, p := range probes {
					time.Sleep(p)
					code, k, _ := deq()
					probesRun++
					if code != 200 {
						why = fmt.Sprintf("probe dequeue answered %d", code)
						return
					}
					now := time.Now()
					switch {
					case k > 0 && now.Before(due):
						why = fmt.Sprintf("the message was offered %s before %s", due.Sub(now), what)
						return
					case k > 0:
						offered++
						return
					case !now.Before(due.Add(10 * time.Millisecond)):
						why = fmt.Sprintf("the message is not offered %s after %s", now.Sub(due), what)
						return
					}
				}
			})
			return why
		}
		n++
		why := run()
		if strings.HasPrefix(why, "INFRA") {
			r.Infra("%s", why)
			break
		}
		if why != "" {
			cls := "near"
			if !strings.HasPrefix(c.When, "+") {
				cls = "year-" + c.When[:4]
			}
			dir := "early"
			if strings.Contains(why, "not offered") {
				dir = "late"
			}
			r.Violation(fmt.Sprintf("instant-boundary:%s:%s:%s:%s", c.Backend, c.Kind, cls, dir),
				fmt.Sprintf("[instant part] %s backend, %s at %s: %s", c.Backend, c.Kind, c.When, why),
				map[string]any{"engine": "instants", "backend": c.Backend, "kind": c.Kind, "when": c.When}, func() bool { return run() != "" })
		}
	}
	r.Add("states", int64(n))
	r.Add("transitions", int64(n+probesRun))
	r.Add("traces_validated_against_impl", int64(n))
	r.Set("instant_part", map[string]any{"cases": n, "instants": instantAlphabet, "probe_dequeues": probesRun, "instants_refused_by_the_api": refused, "cases_that_saw_the_message_offered_when_due": offered})
}
