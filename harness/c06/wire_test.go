package c06

// Part (e) — the wire below the real HTTPDeliverer and the resolver above it.
//
// Parts (a)-(d) put a scripted http.RoundTripper below HTTPDeliverer and synthesise policy errors. This part runs
// the real PushDispatcher + real HTTPDeliverer with a real http.Transport (a clone of http.DefaultTransport, what
// run() ends up with) against a raw TCP target on loopback, and lets the egress check talk to a scripted resolver:
//
//	(e1) every sequence of wire behaviours of the target (one per wire exchange: answer and keep the connection,
//	     answer with Connection: close, read the request and hang up, hang up without reading, truncated answer),
//	     optionally after an earlier exchange that leaves an idle keep-alive connection;
//	(e2) every sequence of per-attempt resolver answers (allowed address, denied address, lookup errors, empty
//	     answers) for a host-name target under egress policies that need the target's addresses.
//
// Oracle, from the statement only: one wire exchange per recorded attempt and at most retry.max+1 of them; 2xx ->
// ack; 5xx / connection-level failure / failed lookup -> retry while attempt <= retry.max, then dead max_retries;
// denied address -> dead policy_denied at once, nothing sent; nothing happens after a terminal outcome.
//
// Real sockets cannot run inside a synctest bubble (a goroutine blocked in network I/O is not durably blocked), so
// this part runs in real time with a 1ms backoff; no observation of the oracle depends on the wall clock. A case
// that hits one of the generous wall limits is run again and, if it is disturbed again, counted and not judged.

import (
	"bufio"
	"context"
	"encoding/json"
	"fmt"
	"io"
	"net"
	"net/http"
	"os"
	"path/filepath"
	"runtime"
	"sort"
	"strconv"
	"strings"
	"sync"
	"sync/atomic"
	"time"

	"github.com/nuetzliches/hookaido/internal/app"
	"github.com/nuetzliches/hookaido/internal/dispatcher"
	"github.com/nuetzliches/hookaido/internal/queue"
	"github.com/nuetzliches/hookaido/internal/verifkit/runner"
)

// ---- case ----------------------------------------------------------------------

// WireCase is one history of part (e); it is also the replay object ({"replay":{"wire":{...}}}).
type WireCase struct {
	Part   string   `json:"part"`                    // e1 | e2 | e3
	Max    int      `json:"max"`                     // retry.max of the target
	Warm   bool     `json:"warm,omitempty"`          // e1: an earlier message is answered 200 first and leaves an idle keep-alive connection
	Empty  bool     `json:"empty_payload,omitempty"` // e1: the message has no payload (request without a body)
	Policy string   `json:"policy,omitempty"`        // e2: name in wirePolicies; e3: name in wireRedirPolicies
	Script []string `json:"script"`                  // e1: one behaviour per wire exchange the target sees; e2: one resolver answer per attempt; e3: one redirect chain per attempt (grammar of redir_test.go)
}

const (
	wireNextHost    = "next.partner.test"
	wireNext2Host   = "next2.partner.test"
	wireRefusedHost = "refused.partner.test"
	wireHostName    = "hooks.partner.test"
	wireOver        = "200c" // what the target does with an exchange beyond the script (only a violating run gets there)
	wireOverE2      = "allow/200"
)

// wire behaviours of the target (e1; the part after "allow/" in e2)
//
//	200, 503    answer, Content-Length: 0, connection kept
//	200b, 503b  answer with a 2-byte body, connection kept
//	200c, 503c  answer with "Connection: close", then close
//	rdclose     read the complete request, then close without a byte of answer
//	drop        reset (RST) without reading: a new connection right after accept, a kept connection as soon as the
//	            first byte of the next request arrives
//	partial     read the request, send a truncated header block ("HTTP/1.1 200 OK\r\nContent-Le"), close
//	200t, 404t, 503t  complete status line and headers with Content-Length: 10, 2 bytes of body, then an orderly close
//	            (the answer arrived, its body is cut short)
//	200k        complete headers with Transfer-Encoding: chunked, one 2-byte chunk, no terminating chunk, orderly close
func wireBehaviourClass(b string) string {
	switch b {
	case "200", "200b", "200c", "200t", "200k":
		return "success" // the class is that of the status code that arrived
	case "404", "404t": // 404: e3
		return "permanent"
	case "503t":
		return "retryable"
	case "503", "503b", "503c", "rdclose", "drop", "partial":
		return "retryable" // 5xx, or no answer at all: a network error
	}
	panic("c06 wire: unknown behaviour " + b)
}

// wirePolicy: an egress policy that makes the check resolve the host name, with one address it allows and one it
// denies — by construction of the rule, not by evaluating the policy.
type wirePolicy struct {
	Redirects bool // e3
	Rebind    bool
	Allow     []string
	Deny      []string
	AllowedIP string
	DeniedIP  string
}

var wirePolicies = map[string]wirePolicy{
	"deny-cidr":            {Deny: []string{"10.0.0.0/8"}, AllowedIP: "93.184.216.34", DeniedIP: "10.1.2.3"},
	"allow-cidr":           {Allow: []string{"93.184.216.0/24"}, AllowedIP: "93.184.216.34", DeniedIP: "198.51.100.7"},
	"rebind":               {Rebind: true, AllowedIP: "93.184.216.34", DeniedIP: "192.168.7.9"},
	"rebind-loopback":      {Rebind: true, AllowedIP: "93.184.216.34", DeniedIP: "127.0.0.1"},
	"allow-host+deny-cidr": {Allow: []string{wireHostName}, Deny: []string{"10.0.0.0/8"}, AllowedIP: "93.184.216.34", DeniedIP: "10.1.2.3"},
	"rebind+allow-cidr":    {Rebind: true, Allow: []string{"93.184.216.0/24"}, AllowedIP: "93.184.216.34", DeniedIP: "198.51.100.7"},
}

// wireRedirPolicies (e3): redirects on (one: off) with one rule that refuses wireRefusedHost and nothing else - by
// construction of the rule. The resolver of e3 is a table: wireRefusedHost -> DeniedIP, every other name -> AllowedIP.
var wireRedirPolicies = map[string]wirePolicy{
	"r-deny-host":  {Redirects: true, Deny: []string{wireRefusedHost}, AllowedIP: "93.184.216.34", DeniedIP: "93.184.216.35"},
	"r-deny-cidr":  {Redirects: true, Deny: []string{"10.0.0.0/8"}, AllowedIP: "93.184.216.34", DeniedIP: "10.1.2.3"},
	"r-allow-list": {Redirects: true, Allow: []string{wireHostName, wireNextHost, wireNext2Host}, AllowedIP: "93.184.216.34", DeniedIP: "93.184.216.35"},
	"r-rebind":     {Redirects: true, Rebind: true, AllowedIP: "93.184.216.34", DeniedIP: "192.168.7.9"},
	"r-off":        {Redirects: false, Deny: []string{wireRefusedHost}, AllowedIP: "93.184.216.34", DeniedIP: "93.184.216.35"},
}

type wireTable struct{ pol wirePolicy }

func (t wireTable) LookupIPAddr(_ context.Context, host string) ([]net.IPAddr, error) {
	if strings.TrimSuffix(strings.ToLower(host), ".") == wireRefusedHost {
		return []net.IPAddr{{IP: net.ParseIP(t.pol.DeniedIP)}}, nil
	}
	return []net.IPAddr{{IP: net.ParseIP(t.pol.AllowedIP)}}, nil
}

// resolver answers (e2): allow/<wire behaviour>, deny, err-temp, err-nx, err-timeout, err-deadline, empty, nil-ip
func wireAnswerKind(sym string) string {
	switch {
	case strings.HasPrefix(sym, "allow/"):
		return "allow"
	case sym == "deny":
		return "deny"
	case sym == "err-temp", sym == "err-nx", sym == "err-timeout", sym == "err-deadline":
		return "lookup-error"
	case sym == "empty", sym == "nil-ip":
		return "empty-answer"
	}
	panic("c06 wire: unknown resolver answer " + sym)
}

func wireDSL(max int, pol wirePolicy, url string) string {
	var b strings.Builder
	onoff := map[bool]string{false: "off", true: "on"}
	fmt.Fprintf(&b, "defaults {\n  egress {\n    https_only off\n    redirects %s\n    dns_rebind_protection %s\n", onoff[pol.Redirects], onoff[pol.Rebind])
	for _, a := range pol.Allow {
		fmt.Fprintf(&b, "    allow %q\n", a)
	}
	for _, d := range pol.Deny {
		fmt.Fprintf(&b, "    deny %q\n", d)
	}
	b.WriteString("  }\n}\n")
	fmt.Fprintf(&b, "%s {\n  deliver_concurrency 1\n  deliver %q {\n    retry exponential max %d base 1ms cap 1ms jitter 0\n    timeout 10s\n  }\n}\n", routePath, url, max)
	return b.String()
}

// wireBoot: real Parse + Compile + the production mapping to dispatcher.EgressPolicy / RouteConfig.
func wireBoot(text string) (dispatcher.EgressPolicy, []dispatcher.RouteConfig, error) {
	worldMu.Lock()
	defer worldMu.Unlock()
	bootSeq++
	dir := filepath.Join(runner.Scratch(), fmt.Sprintf("wboot-%d", bootSeq))
	a, err := app.VerifBoot(app.VerifBootOptions{Dir: dir, ConfigText: listenLines(bootSeq) + text, Store: queue.NewMemoryStore()})
	if err != nil {
		return dispatcher.EgressPolicy{}, nil, err
	}
	d := a.VerifDispatcher(&http.Client{})
	a.Shutdown()
	os.RemoveAll(dir)
	hd, ok := d.Deliverer.(*dispatcher.HTTPDeliverer)
	if !ok {
		return dispatcher.EgressPolicy{}, nil, fmt.Errorf("dispatcher deliverer is %T", d.Deliverer)
	}
	return hd.Policy, d.Routes, nil
}

// ---- the target: a raw TCP server ------------------------------------------------

type wireEvent struct {
	Beh  string `json:"beh"`
	Conn int    `json:"conn"` // connection number at the target
	Req  int    `json:"req"`  // position of the exchange on that connection (>1: a reused connection)
	Read bool   `json:"read"` // the target read the complete request
	Msg  string `json:"msg"`  // X-M header of the request ("" when it was not read)
	Tag  int    `json:"tag"`  // the Deliver call during which the exchange happened (0: none was in progress)
	Over bool   `json:"over"` // beyond the script

	Place  string `json:"place,omitempty"`  // e3: Host header + request URI
	Method string `json:"method,omitempty"` // e3
}

type wireTarget struct {
	ln  net.Listener
	cur *atomic.Int32

	mu        sync.Mutex
	script    []string
	chains    [][]string       // e3: per Deliver call, what the 1st, 2nd, ... place asked during that call answers
	places    map[int][]string // e3: the distinct places asked during a Deliver call, in order
	port      string
	pos       int
	conns     int
	events    []wireEvent
	open      map[net.Conn]struct{}
	disturbed string
	wg        sync.WaitGroup
}

func (s *wireTarget) next() string {
	s.mu.Lock()
	defer s.mu.Unlock()
	if s.chains != nil {
		return "" // e3 answers by place, after the request has been read
	}
	if s.pos < len(s.script) {
		return s.script[s.pos]
	}
	return wireOver
}

func (s *wireTarget) take(conn, req int, read bool, msg string) string {
	s.mu.Lock()
	defer s.mu.Unlock()
	b, over := wireOver, true
	if s.pos < len(s.script) {
		b, over = s.script[s.pos], false
	}
	s.pos++
	s.events = append(s.events, wireEvent{Beh: b, Conn: conn, Req: req, Read: read, Msg: msg, Tag: int(s.cur.Load()), Over: over})
	return b
}

// takeChain (e3): the k-th distinct place asked during a Deliver call answers the k-th segment of that call's chain,
// every time it is asked (a request the transport repeats on its own gets the same answer again).
func (s *wireTarget) takeChain(conn, req int, r *http.Request) string {
	s.mu.Lock()
	defer s.mu.Unlock()
	tag := int(s.cur.Load())
	place := r.Host + r.URL.RequestURI()
	b, over := wireOver, true
	if tag >= 1 && tag <= len(s.chains) {
		k := -1
		for i, p := range s.places[tag] {
			if p == place {
				k = i
			}
		}
		if k < 0 {
			s.places[tag] = append(s.places[tag], place)
			k = len(s.places[tag]) - 1
		}
		if segs := s.chains[tag-1]; k < len(segs) {
			b, over = segs[k], false
		}
	}
	s.pos++
	s.events = append(s.events, wireEvent{Beh: b, Conn: conn, Req: req, Read: true, Msg: r.Header.Get("X-M"), Tag: tag, Over: over, Place: place, Method: r.Method})
	return b
}

func (s *wireTarget) disturb(format string, a ...any) {
	s.mu.Lock()
	if s.disturbed == "" {
		s.disturbed = fmt.Sprintf(format, a...)
	}
	s.mu.Unlock()
}

func (s *wireTarget) serve() {
	defer s.wg.Done()
	for {
		c, err := s.ln.Accept()
		if err != nil {
			return
		}
		s.mu.Lock()
		s.conns++
		n := s.conns
		s.open[c] = struct{}{}
		s.mu.Unlock()
		s.wg.Add(1)
		go s.handle(c, n)
	}
}

// reset makes the close that follows an abortive one (RST), whether or not request bytes are waiting unread: the
// client then sees a reset connection and never a clean EOF, independent of timing.
func reset(c net.Conn) {
	if tc, ok := c.(*net.TCPConn); ok {
		tc.SetLinger(0)
	}
}

func (s *wireTarget) handle(c net.Conn, conn int) {
	defer s.wg.Done()
	defer func() {
		c.Close()
		s.mu.Lock()
		delete(s.open, c)
		s.mu.Unlock()
	}()
	br := bufio.NewReader(c)
	for n := 1; ; n++ {
		if n == 1 && s.next() == "drop" {
			s.take(conn, n, false, "") // closed right after accept
			reset(c)
			return
		}
		if _, err := br.Peek(1); err != nil {
			return // the client closed the (idle) connection
		}
		if n > 1 && s.next() == "drop" {
			s.take(conn, n, false, "") // kept connection: closed as soon as the next request starts to arrive, unread
			reset(c)
			return
		}
		req, err := http.ReadRequest(br)
		if err != nil {
			s.disturb("target could not read a request: %v", err)
			return
		}
		if _, err := io.Copy(io.Discard, req.Body); err != nil {
			s.disturb("target could not read a request body: %v", err)
			return
		}
		req.Body.Close()
		var b string
		if s.chains != nil {
			b = s.takeChain(conn, n, req)
		} else {
			b = s.take(conn, n, true, req.Header.Get("X-M"))
		}
		var out string
		keep := false
		if st, label, ok := strings.Cut(b, ">"); ok { // e3: a redirect answer
			loc := ""
			switch label {
			case "next":
				loc = "Location: http://" + wireNextHost + ":" + s.port + "/n\r\n"
			case "next2":
				loc = "Location: http://" + wireNext2Host + ":" + s.port + "/n2\r\n"
			case "same":
				loc = "Location: /again?x=1\r\n"
			case "refused":
				loc = "Location: http://" + wireRefusedHost + ":" + s.port + "/x\r\n"
			case "garbage":
				loc = "Location: http://[::1\r\n"
			case "none":
			default:
				panic("c06 wire: unknown location label " + label)
			}
			out, keep, b = "HTTP/1.1 "+st+" Redirect\r\n"+loc+"Content-Length: 0\r\n\r\n", true, "redirect"
		}
		switch b {
		case "redirect":
		case "404":
			out, keep = "HTTP/1.1 404 Not Found\r\nContent-Length: 0\r\n\r\n", true
		case "200":
			out, keep = "HTTP/1.1 200 OK\r\nContent-Length: 0\r\n\r\n", true
		case "503":
			out, keep = "HTTP/1.1 503 Service Unavailable\r\nContent-Length: 0\r\n\r\n", true
		case "200b":
			out, keep = "HTTP/1.1 200 OK\r\nContent-Type: text/plain\r\nContent-Length: 2\r\n\r\nok", true
		case "503b":
			out, keep = "HTTP/1.1 503 Service Unavailable\r\nContent-Type: text/plain\r\nContent-Length: 2\r\n\r\nno", true
		case "200c":
			out = "HTTP/1.1 200 OK\r\nConnection: close\r\nContent-Length: 0\r\n\r\n"
		case "503c":
			out = "HTTP/1.1 503 Service Unavailable\r\nConnection: close\r\nContent-Length: 0\r\n\r\n"
		case "rdclose":
		case "partial":
			out = "HTTP/1.1 200 OK\r\nContent-Le"
		case "200t":
			out = "HTTP/1.1 200 OK\r\nContent-Type: text/plain\r\nContent-Length: 10\r\n\r\nok"
		case "404t":
			out = "HTTP/1.1 404 Not Found\r\nContent-Type: text/plain\r\nContent-Length: 10\r\n\r\nno"
		case "503t":
			out = "HTTP/1.1 503 Service Unavailable\r\nContent-Type: text/plain\r\nContent-Length: 10\r\n\r\nno"
		case "200k":
			out = "HTTP/1.1 200 OK\r\nContent-Type: text/plain\r\nTransfer-Encoding: chunked\r\n\r\n2\r\nok\r\n"
		default:
			panic("c06 wire: unknown behaviour " + b)
		}
		if out != "" {
			if _, err := io.WriteString(c, out); err != nil {
				s.disturb("target could not write its answer %q: %v", b, err)
				return
			}
		}
		if !keep {
			return
		}
	}
}

// ---- the resolver ----------------------------------------------------------------

type wireResolver struct {
	mu      sync.Mutex
	pol     wirePolicy
	answer  string
	lookups int
}

func (r *wireResolver) set(sym string) {
	r.mu.Lock()
	r.answer = sym
	r.mu.Unlock()
}

func (r *wireResolver) LookupIPAddr(_ context.Context, host string) ([]net.IPAddr, error) {
	r.mu.Lock()
	defer r.mu.Unlock()
	r.lookups++
	switch {
	case strings.HasPrefix(r.answer, "allow/"):
		return []net.IPAddr{{IP: net.ParseIP(r.pol.AllowedIP)}}, nil
	case r.answer == "deny":
		return []net.IPAddr{{IP: net.ParseIP(r.pol.DeniedIP)}}, nil
	case r.answer == "err-temp": // SERVFAIL during a short resolver outage
		return nil, &net.DNSError{Err: "server misbehaving", Name: host, Server: "192.0.2.53:53", IsTemporary: true}
	case r.answer == "err-nx": // NXDOMAIN, e.g. while a record propagates
		return nil, &net.DNSError{Err: "no such host", Name: host, IsNotFound: true}
	case r.answer == "err-timeout": // resolver did not answer in time
		return nil, &net.DNSError{Err: "i/o timeout", Name: host, Server: "192.0.2.53:53", IsTimeout: true, IsTemporary: true}
	case r.answer == "err-deadline": // lookup cut off by the delivery timeout
		return nil, &net.OpError{Op: "lookup", Net: "udp", Err: context.DeadlineExceeded}
	case r.answer == "empty":
		return nil, nil
	case r.answer == "nil-ip":
		return []net.IPAddr{{}}, nil
	}
	return nil, &net.DNSError{Err: "c06 wire: no resolver answer scripted", Name: host}
}

// ---- the recording frame around the real HTTPDeliverer -----------------------------

type wireCall struct {
	Seq     int    `json:"seq"`
	Msg     string `json:"msg"`
	Sym     string `json:"sym,omitempty"` // e2: resolver answer in force during this call
	Status  int    `json:"status"`
	Err     string `json:"err,omitempty"`
	Expired bool   `json:"expired,omitempty"` // the delivery timeout ran out in real time: the case is disturbed
	send    *Send
}

type wireDeliverer struct {
	inner  dispatcher.Deliverer
	rec    *recorder
	cur    *atomic.Int32
	res    *wireResolver
	script []string // e2: answers per attempt of message m

	mu    sync.Mutex
	calls []*wireCall
	nm    int
}

func (w *wireDeliverer) Deliver(ctx context.Context, d dispatcher.Delivery) dispatcher.Result {
	w.mu.Lock()
	call := &wireCall{Seq: len(w.calls) + 1, Msg: d.ID}
	w.calls = append(w.calls, call)
	if w.script != nil && d.ID == "m" {
		call.Sym = wireOverE2
		if w.nm < len(w.script) {
			call.Sym = w.script[w.nm]
		}
		w.nm++
		w.res.set(call.Sym)
	}
	w.mu.Unlock()

	w.rec.mu.Lock()
	if l := w.rec.logs[d.ID]; len(l) > 0 {
		x := l[len(l)-1]
		x.Delivers++
		if !x.Delivered {
			x.Delivered, x.Start = true, time.Now()
		}
		call.send = x
	}
	w.rec.mu.Unlock()

	w.cur.Store(int32(call.Seq))
	res := w.inner.Deliver(ctx, d)
	w.cur.Store(0)

	w.mu.Lock()
	call.Status = res.StatusCode
	if res.Err != nil {
		call.Err = res.Err.Error()
	}
	call.Expired = ctx.Err() != nil
	w.mu.Unlock()
	return res
}

// wireStore counts the dispatcher's Dequeue calls (to give it a chance to act after a terminal outcome).
type wireStore struct {
	*recorder
	deq atomic.Int64
}

func (w *wireStore) Dequeue(req queue.DequeueRequest) (queue.DequeueResponse, error) {
	resp, err := w.recorder.Dequeue(req)
	w.deq.Add(1)
	return resp, err
}

// ---- one history -------------------------------------------------------------------

type wireObs struct {
	URL       string                             `json:"url"`
	Calls     []*wireCall                        `json:"calls"`
	Events    []wireEvent                        `json:"events"`
	Logs      map[string][]*Send                 `json:"-"`
	Rows      map[string][]queue.DeliveryAttempt `json:"-"`
	Final     map[string]Final                   `json:"final"`
	Lookups   int                                `json:"lookups"`
	Conns     int                                `json:"conns"`
	Stuck     bool                               `json:"stuck,omitempty"`
	Runaway   bool                               `json:"runaway,omitempty"`
	DrainOK   bool                               `json:"drain_ok"`
	Disturbed string                             `json:"disturbed,omitempty"`
	Infra     string                             `json:"infra,omitempty"`
}

func (wc WireCase) msgs() []string {
	if wc.Warm {
		return []string{"m0", "m"}
	}
	return []string{"m"}
}

func runWireOnce(wc WireCase, patience time.Duration) wireObs {
	o := wireObs{Logs: map[string][]*Send{}, Rows: map[string][]queue.DeliveryAttempt{}, Final: map[string]Final{}}
	var pol wirePolicy
	host := "127.0.0.1"
	if wc.Part == "e2" {
		p, ok := wirePolicies[wc.Policy]
		if !ok {
			o.Infra = "unknown policy " + wc.Policy
			return o
		}
		pol, host = p, wireHostName
	}
	if wc.Part == "e3" {
		p, ok := wireRedirPolicies[wc.Policy]
		if !ok {
			o.Infra = "unknown policy " + wc.Policy
			return o
		}
		pol, host = p, wireHostName
	}
	// thousands of short loopback connections leave their ports in TIME_WAIT; when the ephemeral range is exhausted
	// ("bind: address already in use") the ports come back by themselves: wait for one, and if none comes the case is
	// not judged (never an alarm, never an infrastructure error)
	var ln net.Listener
	var err error
	for try := 0; ; try++ {
		if ln, err = net.Listen("tcp", "127.0.0.1:0"); err == nil {
			break
		}
		if try >= 90 {
			o.Disturbed = "no free loopback port after 90 s: " + err.Error()
			return o
		}
		time.Sleep(time.Second)
	}
	addr := ln.Addr().String()
	_, port, _ := net.SplitHostPort(addr)
	url := "http://" + host + ":" + port + "/hook"
	o.URL = url
	policy, routes, err := wireBoot(wireDSL(wc.Max, pol, url))
	if err != nil {
		ln.Close()
		o.Infra = "boot: " + err.Error()
		return o
	}
	if len(routes) != 1 || len(routes[0].Targets) != 1 || routes[0].Targets[0].URL != url {
		ln.Close()
		o.Infra = fmt.Sprintf("boot: unexpected routes %+v", routes)
		return o
	}

	// the target and its script
	var script []string
	if wc.Part == "e2" {
		for _, sym := range wc.Script {
			if strings.HasPrefix(sym, "allow/") {
				script = append(script, strings.TrimPrefix(sym, "allow/"))
			}
		}
	} else {
		if wc.Warm {
			script = append(script, "200")
		}
		script = append(script, wc.Script...)
	}
	var cur atomic.Int32
	tgt := &wireTarget{ln: ln, cur: &cur, script: script, open: map[net.Conn]struct{}{}, port: port}
	if wc.Part == "e3" {
		tgt.script, tgt.places, tgt.chains = nil, map[int][]string{}, [][]string{}
		for _, ch := range wc.Script {
			tgt.chains = append(tgt.chains, strings.Split(ch, ":"))
		}
	}
	tgt.wg.Add(1)
	go tgt.serve()

	// the real deliverer over a real transport
	tr := http.DefaultTransport.(*http.Transport).Clone()
	tr.Proxy = nil
	res := &wireResolver{pol: pol}
	if wc.Part != "e1" {
		// the name does not exist in any DNS: connections for it end at the loopback target
		tr.DialContext = func(ctx context.Context, _, _ string) (net.Conn, error) {
			var d net.Dialer
			return d.DialContext(ctx, "tcp", addr)
		}
	}
	hd := dispatcher.NewHTTPDeliverer(&http.Client{Transport: tr}, policy)
	hd.Resolver = res
	if wc.Part == "e3" {
		hd.Resolver = wireTable{pol}
	}

	under := queue.NewMemoryStore(queue.WithDeliveredRetention(24 * time.Hour))
	rec := newRecorder(under, 1, 0, wc.Max+3)
	ws := &wireStore{recorder: rec}
	wd := &wireDeliverer{inner: hd, rec: rec, cur: &cur, res: res}
	if wc.Part == "e2" {
		wd.script = append([]string{}, wc.Script...)
	}
	enqueue := func(id string) error {
		payload := []byte(`{"id":"` + id + `"}`)
		if wc.Empty {
			payload = nil
		}
		return under.Enqueue(queue.Envelope{ID: id, Route: routePath, Target: url, Payload: payload, Headers: map[string]string{"X-M": id, "Content-Type": "application/json"}})
	}
	d := &dispatcher.PushDispatcher{Store: ws, Deliverer: wd, Routes: routes, Logger: discard, MaxWait: time.Millisecond}

	ids := wc.msgs()
	if err := enqueue(ids[0]); err != nil {
		o.Infra = "enqueue: " + err.Error()
	}
	d.Start()
	for i := range ids {
		if o.Infra != "" {
			break
		}
		select {
		case <-rec.doneCh():
		case <-time.After(patience):
			o.Stuck = true
		}
		rec.mu.Lock()
		runaway := rec.runaway
		rec.mu.Unlock()
		if o.Stuck || runaway || i+1 == len(ids) {
			break
		}
		rec.mu.Lock()
		rec.want = i + 2
		rec.mu.Unlock()
		rec.rearm()
		if err := enqueue(ids[i+1]); err != nil {
			o.Infra = "enqueue: " + err.Error()
		}
	}
	if !o.Stuck && o.Infra == "" {
		// let the dispatcher look at the queue twice more, beyond the backoff, before it is stopped: whatever it would
		// still send after a terminal outcome gets its chance (this only widens what is observed)
		from, t0 := ws.deq.Load(), time.Now()
		for (ws.deq.Load() < from+3 || time.Since(t0) < 3*time.Millisecond) && time.Since(t0) < time.Second {
			time.Sleep(200 * time.Microsecond)
		}
	}
	o.DrainOK = d.Drain(3 * patience)
	tr.CloseIdleConnections()
	ln.Close()
	handlers := make(chan struct{})
	go func() { tgt.wg.Wait(); close(handlers) }()
	select {
	case <-handlers:
	case <-time.After(patience):
		tgt.disturb("the target's connections were not closed after the dispatcher had drained")
		tgt.mu.Lock()
		for c := range tgt.open {
			c.Close()
		}
		tgt.mu.Unlock()
		<-handlers
	}

	tgt.mu.Lock()
	o.Events = append(o.Events, tgt.events...)
	o.Conns = tgt.conns
	o.Disturbed = tgt.disturbed
	tgt.mu.Unlock()
	wd.mu.Lock()
	o.Calls = append(o.Calls, wd.calls...)
	for _, c := range o.Calls {
		if c.Expired && o.Disturbed == "" {
			o.Disturbed = fmt.Sprintf("the delivery timeout ran out in real time during call %d", c.Seq)
		}
	}
	wd.mu.Unlock()
	res.mu.Lock()
	o.Lookups = res.lookups
	res.mu.Unlock()
	rec.mu.Lock()
	o.Runaway = rec.runaway
	for id, l := range rec.logs {
		o.Logs[id] = l
	}
	rec.mu.Unlock()
	if o.Infra != "" {
		return o
	}
	lm, err1 := under.ListMessages(queue.MessageListRequest{Route: routePath, Limit: 1000})
	dl, err2 := under.ListDead(queue.DeadListRequest{Route: routePath, Limit: 1000})
	if err1 != nil || err2 != nil {
		o.Infra = fmt.Sprintf("list: %v %v", err1, err2)
		return o
	}
	for _, id := range ids {
		f := Final{}
		for _, it := range lm.Items {
			if it.ID == id {
				f.Present, f.State, f.DeadReason, f.Attempt = true, it.State, it.DeadReason, it.Attempt
			}
		}
		for _, it := range dl.Items {
			if it.ID == id {
				f.InDLQ = true
				if !f.Present {
					f.Present, f.State, f.DeadReason, f.Attempt = true, it.State, it.DeadReason, it.Attempt
				}
			}
		}
		o.Final[id] = f
		la, err := under.ListAttempts(queue.AttemptListRequest{EventID: id, Limit: 1000})
		if err != nil {
			o.Infra = "list attempts: " + err.Error()
			return o
		}
		o.Rows[id] = la.Items
	}
	return o
}

// ---- judge (from the property text) --------------------------------------------------

type wireStats struct {
	attempts, requests                                  int
	refAck, refRetry, refMaxRetries, refPolicy, notSent int
	refNoRetry, refNon, hopRepeats                      int // e3
	sentDespiteLookupFailure                            int
	distinct, outcomes                                  []string
}

func judgeWire(wc WireCase, o wireObs) ([]Finding, wireStats) {
	var out []Finding
	var ws wireStats
	// keys name the failure class, not the part: what concerns the wire exchange starts with "wire:", what concerns
	// the resolver answer of an attempt with "resolver:"
	const pre = "wire"
	add := func(key, format string, a ...any) {
		out = append(out, Finding{Key: key, Msg: "[part " + wc.Part + "] " + wc.String() + ": " + fmt.Sprintf(format, a...)})
	}
	if o.Stuck {
		add(pre+":terminal:not-reached", "the message was neither delivered nor dead-lettered (waited far beyond every backoff)")
	}
	if o.Runaway {
		add(pre+":sends:runaway", "the message was sent more than retry.max+3 times")
	}
	if !o.DrainOK {
		add(pre+":drain:timeout", "dispatcher did not drain")
	}
	byTag := map[int][]wireEvent{}
	for _, e := range o.Events {
		byTag[e.Tag] = append(byTag[e.Tag], e)
	}
	ws.requests = len(o.Events)
	if n := len(byTag[0]); n > 0 {
		add(pre+":request-outside-any-attempt", "%d wire exchange(s) reached the target while no delivery attempt was in progress: %+v", n, byTag[0])
	}
	callsOf := map[*Send][]*wireCall{}
	for _, c := range o.Calls {
		callsOf[c.send] = append(callsOf[c.send], c)
		if c.send == nil {
			add(pre+":deliver-without-lease", "delivery call %d for %q has no lease", c.Seq, c.Msg)
		}
	}
	for _, id := range wc.msgs() {
		sends := o.Logs[id]
		onWire, terminalAt := 0, 0
		for i, s := range sends {
			ws.attempts++
			within := "att<=max"
			if s.Attempt > wc.Max {
				within = "att>max"
			}
			got := s.Action
			if s.Action == "dead" {
				got += "/" + s.Reason
			}
			if got == "" {
				got = "unsettled"
			}
			if terminalAt > 0 {
				add(pre+":sent-after-terminal-outcome", "message %s was leased and delivered again (lease #%d, attempt %d) after its terminal outcome at lease #%d", id, i+1, s.Attempt, terminalAt)
			}
			if s.Action == "ack" || s.Action == "dead" {
				if terminalAt == 0 {
					terminalAt = i + 1
				}
			}
			calls := callsOf[s]
			if len(calls) != 1 {
				add(fmt.Sprintf("%s:deliver-calls-per-lease=%d", pre, len(calls)), "message %s attempt %d: %d delivery calls under one lease", id, s.Attempt, len(calls))
				if len(calls) == 0 {
					continue
				}
			}
			// what happened at the target during this attempt
			var evs []wireEvent
			sym := ""
			for _, c := range calls {
				evs = append(evs, byTag[c.Seq]...)
				sym = c.Sym
			}
			n := len(evs)
			onWire += n
			var wires []string
			for _, e := range evs {
				wires = append(wires, fmt.Sprintf("%s(conn%d/req%d)", e.Beh, e.Conn, e.Req))
			}
			ctx := fmt.Sprintf("message %s attempt %d (retry.max %d): %d wire exchange(s) %v, delivery result status=%d err=%q, settled as %q",
				id, s.Attempt, wc.Max, n, wires, calls[len(calls)-1].Status, calls[len(calls)-1].Err, got)
			kind := "wire"
			if sym != "" {
				kind = wireAnswerKind(sym)
				ctx = fmt.Sprintf("policy %s, resolver answer %q: ", wc.Policy, sym) + ctx
			}
			chainIn := ""
			if wc.Part == "e3" {
				kind = "chain"
			}
			// (1) one attempt = one exchange on the wire
			if n > 1 && kind != "chain" {
				add(pre+":extra-request-on-the-wire", "%s; one recorded attempt put %d requests on the wire", ctx, n)
			}
			class := ""
			switch kind {
			case "chain":
				// (1') one attempt = one walk along the redirect chain
				chain := wireOver
				if k := calls[len(calls)-1].Seq - 1; k < len(wc.Script) {
					chain = wc.Script[k]
				}
				ctx = fmt.Sprintf("chain %s: ", chain) + ctx
				var first, repeats int
				class, chainIn, first, repeats = wireChainRef(wc, o, chain, evs, func(key, format string, a ...any) {
					add(key, "%s; %s", ctx, fmt.Sprintf(format, a...))
				})
				onWire += first - n // the bound below counts requests to the configured target
				ws.hopRepeats += repeats
			case "wire", "allow":
				if n == 0 {
					if kind == "wire" {
						add("wire:attempt-without-wire-exchange", "%s; nothing reached the target", ctx)
					} else {
						add("resolver:allowed-address-not-sent", "%s; the address is allowed, the delivery has to be sent", ctx)
					}
				} else {
					class = wireBehaviourClass(evs[n-1].Beh)
				}
			case "deny":
				if n > 0 {
					add("resolver:sent-to-denied-address", "%s; the policy denies %s, nothing may be sent", ctx, wirePolicies[wc.Policy].DeniedIP)
				} else {
					class = "policy"
				}
			case "lookup-error", "empty-answer":
				if n > 0 { // fail-open is not what C06 is about: judge what the target answered
					ws.sentDespiteLookupFailure++
					class = wireBehaviourClass(evs[n-1].Beh)
				} else {
					class = "retryable"
				}
			}
			if n == 0 {
				ws.notSent++
			}
			// (2) outcome class of the attempt
			want := ""
			switch class {
			case "success":
				ws.refAck++
				want = "ack"
			case "retryable":
				if s.Attempt <= wc.Max {
					ws.refRetry++
					want = "nack"
				} else {
					ws.refMaxRetries++
					want = "dead/max_retries"
				}
			case "policy":
				ws.refPolicy++
				want = "dead/policy_denied"
			case "permanent":
				ws.refNoRetry++
				want = "dead/no_retry"
			case "nonsuccess": // a 3xx answer: never a success, retried at most while attempt <= retry.max, dead only with a reason
				ws.refNon++
				want = got
				switch {
				case got == "ack":
					add("wire:redir:classify:"+chainIn+":treated-as-success", "%s; 1xx/3xx answers are never treated as success", ctx)
				case got == "nack" && s.Attempt > wc.Max:
					add("wire:redir:classify:"+chainIn+":retried-beyond-max", "%s; retried although attempt > retry.max", ctx)
				case s.Action == "dead" && strings.TrimSpace(s.Reason) == "":
					add("wire:redir:classify:"+chainIn+":dead-without-reason", "%s; dead-lettered without a reason", ctx)
				}
			}
			if class != "" && kind == "chain" {
				ws.distinct = append(ws.distinct, fmt.Sprintf("e3:%s:%s:%s:%s", wc.Policy, chainIn, within, got))
				for _, e := range evs[min(1, len(evs)):] {
					ws.distinct = append(ws.distinct, fmt.Sprintf("e3:hop-request:%s:conn=%v", e.Method, map[bool]string{false: "fresh", true: "reused"}[e.Req > 1]))
				}
				ws.outcomes = append(ws.outcomes, got)
				if got == "unsettled" {
					add(pre+":settle:missing", "%s; the attempt was never settled", ctx)
				} else if got != want {
					add(fmt.Sprintf("wire:redir:classify:%s:%s:got=%s", chainIn, within, got), "%s; want %q", ctx, want)
				}
			} else if class != "" {
				in := sym
				if kind == "wire" {
					in = evs[n-1].Beh
					conn := "fresh"
					if evs[n-1].Req > 1 {
						conn = "reused"
					}
					ws.distinct = append(ws.distinct, fmt.Sprintf("e1:%s:%s:%s:%s", in, conn, within, got))
				} else {
					ws.distinct = append(ws.distinct, fmt.Sprintf("e2:%s:%s:%s:sent=%d:%s", wc.Policy, sym, within, n, got))
				}
				ws.outcomes = append(ws.outcomes, got)
				if got == "unsettled" {
					add(pre+":settle:missing", "%s; the attempt was never settled", ctx)
				} else if got != want {
					switch {
					case kind == "lookup-error" && got == "dead/policy_denied":
						add("resolver:lookup-error-classified-policy", "%s; a failed lookup is a network error (retried while attempt <= retry.max, then max_retries), not a policy denial; want %q", ctx, want)
					case kind == "empty-answer" && got == "dead/policy_denied":
						add("resolver:empty-answer-classified-policy", "%s; a lookup without addresses is a network error (retried while attempt <= retry.max, then max_retries), not a policy denial; want %q", ctx, want)
					case n > 0: // the target answered (or hung up): classification of that wire behaviour
						add(fmt.Sprintf("wire:classify:%s:%s:got=%s", evs[n-1].Beh, within, got), "%s; want %q", ctx, want)
					default:
						add(fmt.Sprintf("resolver:classify:%s:%s:got=%s", in, within, got), "%s; want %q", ctx, want)
					}
				}
			}
			// (3) the attempt is recorded with its outcome
			switch len(s.Rows) {
			case 0:
				add(pre+":attempt-not-recorded", "%s; no attempt record was written", ctx)
			case 1:
				row := s.Rows[0]
				wantRow := map[string]queue.AttemptOutcome{"ack": queue.AttemptOutcomeAcked, "nack": queue.AttemptOutcomeRetry, "dead": queue.AttemptOutcomeDead}[s.Action]
				if s.Action != "" && row.Outcome != wantRow {
					add(pre+":attempt-record:outcome:"+s.Action+"-recorded-as-"+string(row.Outcome), "%s; attempt record says outcome %q", ctx, row.Outcome)
				}
				if s.Action == "dead" && row.DeadReason != s.Reason {
					add(pre+":attempt-record:dead-reason", "%s; attempt record says dead_reason %q", ctx, row.DeadReason)
				}
				if row.EventID != id || row.Attempt != s.Attempt {
					add(pre+":attempt-record:identity", "%s; attempt record is for event %q attempt %d", ctx, row.EventID, row.Attempt)
				}
			default:
				add(fmt.Sprintf("%s:attempt-record:count=%d", pre, len(s.Rows)), "%s; %d attempt records for one attempt", ctx, len(s.Rows))
			}
		}
		// (4) bounds and the stored log
		if len(sends) > wc.Max+1 {
			add(pre+":attempts-more-than-max+1", "message %s was delivered under %d leases (retry.max %d)", id, len(sends), wc.Max)
		}
		if onWire > wc.Max+1 {
			add(pre+":more-than-max+1-requests-on-the-wire", "the target saw %d wire exchanges for message %s (retry.max %d)", onWire, id, wc.Max)
		}
		if len(o.Rows[id]) != len(sends) {
			add(pre+":attempt-log:count", "message %s: %d attempts but %d rows in the stored attempt log", id, len(sends), len(o.Rows[id]))
		}
		// (5) terminal state
		if len(sends) == 0 {
			if !o.Stuck {
				add(pre+":terminal:never-sent", "message %s was never leased", id)
			}
			continue
		}
		f := o.Final[id]
		last := sends[len(sends)-1]
		switch last.Action {
		case "ack":
			if f.Present && f.State != queue.StateDelivered {
				add(pre+":terminal:acked-but-"+string(f.State), "message %s was acked but is stored as %q", id, f.State)
			}
		case "dead":
			if !f.Present {
				add(pre+":terminal:dropped", "message %s was dead-lettered but is not in the store", id)
			} else if f.State != queue.StateDead || !f.InDLQ {
				add(pre+":terminal:dead-but-"+string(f.State), "message %s was dead-lettered but is stored as %q (in DLQ listing: %v)", id, f.State, f.InDLQ)
			} else if f.DeadReason != last.Reason || strings.TrimSpace(f.DeadReason) == "" {
				add(pre+":terminal:dead-reason", "message %s dead-lettered as %q but stored dead_reason is %q", id, last.Reason, f.DeadReason)
			}
		default:
			if !o.Stuck && !o.Runaway {
				add(pre+":terminal:open", "message %s ended the history with last settlement %q (state %q)", id, last.Action, f.State)
			}
		}
	}
	return out, ws
}

// wireChainRef (e3): reference walk of one attempt's redirect chain on the wire (same grammar and same reference as
// part h: redirects off -> the 3xx is the answer; on -> a refused Location is a policy denial and is never requested,
// the final answer of an allowed chain counts like a direct one, a 3xx nobody followed or without a usable Location
// stays a 3xx). It returns the reference class, the input class, how often the configured target was requested and
// how many requests repeated a place already asked during the attempt.
func wireChainRef(wc WireCase, o wireObs, chain string, evs []wireEvent, add func(key, format string, a ...any)) (class, in string, first, repeats int) {
	pol := wireRedirPolicies[wc.Policy]
	mode := map[bool]string{false: "off", true: "on"}[pol.Redirects]
	_, port, _ := net.SplitHostPort(strings.TrimSuffix(strings.TrimPrefix(o.URL, "http://"), "/hook"))
	firstPlace := wireHostName + ":" + port + "/hook"
	refusedPlace := wireRefusedHost + ":" + port + "/x"
	path := []string{firstPlace}
	curHost := wireHostName + ":" + port
	end, endsAtRedirect, decided := "", false, false
	for _, seg := range strings.Split(chain, ":") {
		_, label, redirect := strings.Cut(seg, ">")
		if !redirect {
			class, end, decided = wireBehaviourClass(seg), seg, true
			break
		}
		endsAtRedirect = true
		switch {
		case !pol.Redirects:
			class, end, decided = "nonsuccess", "3xx", true
		case label == "none" || label == "garbage":
			class, end, decided = "nonsuccess", "location-"+label, true
		case label == "refused":
			class, end, decided = "policy", "refused", true
		}
		if decided {
			break
		}
		switch label {
		case "next":
			curHost = wireNextHost + ":" + port
			path = append(path, curHost+"/n")
		case "next2":
			curHost = wireNext2Host + ":" + port
			path = append(path, curHost+"/n2")
		case "same":
			path = append(path, curHost+"/again?x=1")
		default:
			panic("c06 wire: unknown location label " + label)
		}
		endsAtRedirect = false
	}
	if !decided {
		panic("c06 wire: chain without an end: " + chain)
	}
	where := "direct"
	switch hops := len(path) - 1; {
	case endsAtRedirect:
		where = fmt.Sprintf("hop%d", hops+1)
	case hops > 0:
		where = fmt.Sprintf("after-hop%d", hops)
	}
	// what was asked during the attempt: the distinct places in order, and how often each
	var asked []string
	count := map[string]int{}
	for _, e := range evs {
		if count[e.Place] == 0 {
			asked = append(asked, e.Place)
		}
		count[e.Place]++
	}
	first = count[firstPlace]
	repeats = len(evs) - len(asked)
	differs := len(asked) > len(path)
	for i := 0; i < len(asked) && !differs; i++ {
		differs = asked[i] != path[i]
	}
	switch {
	case len(evs) == 0:
		add("wire:redir:nothing-requested", "the attempt requested nothing, not even the configured target")
	case count[refusedPlace] > 0:
		add("wire:redir:request-to-refused-location", "%s was requested although the policy refuses it; places asked: %v", refusedPlace, asked)
	case !pol.Redirects && len(asked) > 1:
		add("wire:redir:hop-requested-although-redirects-off", "places asked: %v", asked)
	case differs:
		add("wire:redir:walk-differs", "places asked %v, want %v in this order", asked, path)
	case len(asked) < len(path): // an allowed hop nobody followed: the 3xx is the answer of this attempt
		class, end, where = "nonsuccess", "3xx-not-followed", fmt.Sprintf("hop%d", len(asked))
	}
	if first > 1 {
		add("wire:redir:configured-target-requested-more-than-once-in-one-attempt", "%d requests to %s; places asked: %v", first, firstPlace, asked)
	}
	if class == "success" || class == "retryable" || class == "permanent" {
		end = map[string]string{"success": "2xx", "retryable": end, "permanent": "4xx"}[class]
	}
	return class, "redir-" + mode + ":" + where + ":" + end, first, repeats
}

func (wc WireCase) String() string {
	s := fmt.Sprintf("retry.max %d, script %v", wc.Max, wc.Script)
	if wc.Part == "e2" || wc.Part == "e3" {
		return "policy " + wc.Policy + ", " + s
	}
	if wc.Warm {
		s += ", after one exchange that left an idle keep-alive connection"
	}
	if wc.Empty {
		s += ", empty payload"
	}
	return s
}

func wireSummary(wc WireCase, o wireObs) map[string]any {
	out := map[string]any{"part": wc.Part, "max": wc.Max, "script": wc.Script, "url": o.URL, "connections_at_target": o.Conns, "lookups": o.Lookups}
	if wc.Part == "e2" || wc.Part == "e3" {
		out["policy"] = wc.Policy
	} else {
		out["warm"], out["empty_payload"] = wc.Warm, wc.Empty
	}
	byTag := map[int][]string{}
	for _, e := range o.Events {
		x := fmt.Sprintf("%s(conn%d/req%d)", e.Beh, e.Conn, e.Req)
		if e.Place != "" {
			x = fmt.Sprintf("%s %s -> %s(conn%d/req%d)", e.Method, e.Place, e.Beh, e.Conn, e.Req)
		}
		byTag[e.Tag] = append(byTag[e.Tag], x)
	}
	var l []string
	for _, c := range o.Calls {
		x := fmt.Sprintf("%s", c.Msg)
		if c.send != nil {
			x += fmt.Sprintf(" att%d", c.send.Attempt)
		}
		if c.Sym != "" {
			x += " dns=" + c.Sym
		}
		x += fmt.Sprintf(" wire=%v", byTag[c.Seq])
		if c.send != nil {
			x += " -> " + c.send.Action
			if c.send.Action == "dead" {
				x += "/" + c.send.Reason
			}
			x += fmt.Sprintf(" (%d record)", len(c.send.Rows))
		}
		l = append(l, x)
	}
	if len(byTag[0]) > 0 {
		l = append(l, fmt.Sprintf("outside any attempt: %v", byTag[0]))
	}
	out["attempts"] = l
	if o.Disturbed != "" {
		out["disturbed"] = o.Disturbed
	}
	return out
}

// ---- driver ------------------------------------------------------------------------

var (
	wireMu         sync.Mutex
	wireExamples   []any
	wireOutcomes   = map[string]bool{}
	wireDisturbed  bool
	wireAssumption bool
	wireClassMu    sync.Mutex
	wireClasses    = map[string]bool{}
)

const (
	wirePatience     = 20 * time.Second // far beyond any backoff (1ms) or exchange on loopback
	wirePatienceLong = 60 * time.Second
)

// wireRun executes one case (again if the first execution hit a wall limit), judges it and reports.
func (c *checker) wireRun(wc WireCase) wireObs {
	r := c.r
	o := runWireOnce(wc, wirePatience)
	if o.Infra == "" && (o.Stuck || o.Disturbed != "") {
		r.Add("e_cases_run_again_after_wall_limit", 1)
		o = runWireOnce(wc, wirePatienceLong)
	}
	if o.Infra != "" {
		r.Infra("%s: %s: %s", wc.Part, wc.String(), o.Infra)
		return o
	}
	if o.Disturbed != "" {
		r.Add("e_cases_not_judged_wall_limit", 1)
		wireMu.Lock()
		first := !wireDisturbed
		wireDisturbed = true
		wireMu.Unlock()
		if first {
			fmt.Printf("DISTURBED property=C06 part=%s %s: %s (case not judged)\n", wc.Part, wc.String(), o.Disturbed)
			r.NotExhaustive("part e: a case hit a real-time limit twice (loaded machine) and was not judged")
		}
		return o
	}
	for id, l := range o.Logs {
		for _, s := range l {
			if s.ActErr != "" {
				// "the attempt bound assumes lease mutations on the store succeed": nothing is claimed about this history
				r.Add("histories_outside_assumption_lease_mutation_failed", 1)
				wireMu.Lock()
				first := !wireAssumption
				wireAssumption = true
				wireMu.Unlock()
				if first {
					fmt.Printf("ASSUMPTION-BROKEN property=C06 part=%s %s: message %s attempt %d: %s failed: %s (history not judged)\n", wc.Part, wc.String(), id, s.Attempt, s.Action, s.ActErr)
					r.NotExhaustive("part e: a lease mutation failed on the store: histories outside the statement's assumption were not judged")
				}
				return o
			}
		}
	}
	finds, ws := judgeWire(wc, o)
	r.Add("evaluations", 1)
	r.Add(wc.Part+"_histories", 1)
	r.Add("e_cases", 1)
	r.Add("e_wire_requests_seen_by_target", int64(ws.requests))
	r.Add("e_attempts_recorded", int64(ws.attempts))
	r.Add("e_attempts_with_nothing_sent", int64(ws.notSent))
	r.Add("e_connections_at_target", int64(o.Conns))
	r.Add("e_resolver_lookups", int64(o.Lookups))
	r.Add("e_ref_ack", int64(ws.refAck))
	r.Add("e_ref_retry", int64(ws.refRetry))
	r.Add("e_ref_dead_max_retries", int64(ws.refMaxRetries))
	r.Add("e_ref_dead_policy_denied", int64(ws.refPolicy))
	if wc.Part == "e3" {
		r.Add("e3_ref_dead_no_retry", int64(ws.refNoRetry))
		r.Add("e3_ref_3xx_answers", int64(ws.refNon))
		r.Add("e3_info_hop_requests_repeated_by_the_transport", int64(ws.hopRepeats))
		r.Add("ref_dead_no_retry", int64(ws.refNoRetry))
		r.Add("ref_nonsuccess_1xx_3xx", int64(ws.refNon))
	}
	r.Add("e_info_sent_despite_failed_lookup", int64(ws.sentDespiteLookupFailure))
	r.Add("sends_judged", int64(ws.attempts))
	r.Add("ref_ack", int64(ws.refAck))
	r.Add("ref_retry", int64(ws.refRetry))
	r.Add("ref_dead_max_retries", int64(ws.refMaxRetries))
	r.Add("ref_dead_policy_denied", int64(ws.refPolicy))
	for _, e := range o.Events {
		if e.Req > 1 {
			r.Add("e_wire_requests_on_reused_connection", 1)
		}
	}
	wireClassMu.Lock()
	for _, d := range ws.distinct {
		if !wireClasses[d] {
			wireClasses[d] = true
			r.Add("e_distinct_classes", 1)
		}
		r.Distinct(d)
	}
	wireClassMu.Unlock()
	wireMu.Lock()
	for _, g := range ws.outcomes {
		wireOutcomes[g] = true
	}
	if len(wireExamples) < 6 && len(o.Calls) >= 2 && (len(wireExamples) == 0 || c.samples[wc.Part] < 3) {
		if c.samples == nil {
			c.samples = map[string]int{}
		}
		c.samples[wc.Part]++
		wireExamples = append(wireExamples, wireSummary(wc, o))
	}
	var report []Finding
	if c.reported == nil {
		c.reported = map[string]bool{}
	}
	for _, f := range finds {
		r.Add("violating_observations", 1)
		if !c.reported[f.Key] {
			c.reported[f.Key] = true
			report = append(report, f)
		}
	}
	wireMu.Unlock()
	for _, f := range report {
		key := f.Key
		b, _ := json.Marshal(wireSummary(wc, o))
		r.Violation(key, f.Msg+"\nobserved: "+string(b), map[string]any{"wire": wc}, func() bool {
			again := runWireOnce(wc, wirePatience)
			if again.Infra != "" || again.Disturbed != "" {
				return false
			}
			fs, _ := judgeWire(wc, again)
			for _, x := range fs {
				if x.Key == key {
					return true
				}
			}
			return false
		})
	}
	return o
}

// wireScripts: every script over the alphabet in which only the last element may be terminal by the statement
// (2xx answer / denied address) and which has max+1 elements otherwise: exactly the histories a message can have.
func wireScripts(alpha []string, terminal func(string) bool, max int) [][]string {
	var out [][]string
	var rec func(prefix []string)
	rec = func(prefix []string) {
		for _, s := range alpha {
			sc := append(append([]string{}, prefix...), s)
			if terminal(s) || len(sc) == max+1 {
				out = append(out, sc)
				continue
			}
			rec(sc)
		}
	}
	rec(nil)
	return out
}

func (c *checker) partWire() {
	r := c.r
	// this part has its own wall budget: it runs in real time and must get its share after the virtual-time parts
	budget := runner.Pick(r, 45*time.Second, 8*time.Minute)
	if n, err := strconv.Atoi(os.Getenv("VERIF_BUDGET_S")); err == nil && time.Duration(n)*time.Second/2 < budget {
		budget = time.Duration(n) * time.Second / 2
	}
	deadline := time.Now().Add(budget)

	e1Alpha := []string{"200", "200b", "200c", "503", "503b", "503c", "rdclose", "drop", "partial", "200t", "200k", "404t", "503t"}
	e1Max := []int{1, 2}
	payloads := []bool{false}
	e2Alpha := []string{"allow/200", "allow/503", "allow/rdclose", "deny", "err-temp", "err-nx", "err-timeout", "err-deadline", "empty", "nil-ip"}
	e2Max := []int{1, 2}
	policies := []string{"deny-cidr", "allow-cidr", "rebind"}
	if r.Thorough() {
		e1Max = []int{1, 2, 3}
		payloads = []bool{false, true}
		e2Max = []int{1, 2, 3}
		policies = []string{"deny-cidr", "allow-cidr", "rebind", "rebind-loopback", "allow-host+deny-cidr", "rebind+allow-cidr"}
	}
	var cases []WireCase
	for _, max := range e1Max {
		scripts := wireScripts(e1Alpha, func(s string) bool { return wireBehaviourClass(s) != "retryable" }, max)
		for _, empty := range payloads {
			for _, warm := range []bool{false, true} {
				for _, sc := range scripts {
					cases = append(cases, WireCase{Part: "e1", Max: max, Warm: warm, Empty: empty, Script: sc})
				}
			}
		}
	}
	for _, max := range e2Max {
		scripts := wireScripts(e2Alpha, func(s string) bool { return s == "deny" || s == "allow/200" }, max)
		for _, p := range policies {
			for _, sc := range scripts {
				cases = append(cases, WireCase{Part: "e2", Max: max, Policy: p, Script: sc})
			}
		}
	}
	// (e3) redirect chains on the wire: policy x every script of per-attempt chains
	e3Alphabet := func(statuses, finals, extra []string) []string {
		alpha := append([]string{}, finals...)
		for _, st := range statuses {
			for _, f := range finals {
				alpha = append(alpha, st+">next:"+f, st+">same:"+f)
			}
			alpha = append(alpha, st+">refused", st+">next:307>refused", st+">none", st+">same:"+st+">next2:200")
		}
		return append(alpha, extra...)
	}
	type e3Job struct {
		max      int
		alpha    []string
		policies []string
	}
	small := e3Alphabet([]string{"302", "307"}, []string{"200", "503", "404", "rdclose"}, nil)
	e3Jobs := []e3Job{{1, small, []string{"r-deny-host", "r-deny-cidr", "r-rebind", "r-off"}}}
	if r.Thorough() {
		all := []string{"r-deny-host", "r-deny-cidr", "r-allow-list", "r-rebind", "r-off"}
		large := e3Alphabet([]string{"301", "302", "303", "307", "308"}, []string{"200", "200c", "503", "404", "rdclose", "partial"},
			[]string{"307>garbage", "307>next:302>same:503", "302>next:308>next2:307>refused"})
		e3Jobs = []e3Job{{1, large, all}, {2, small, []string{"r-deny-host", "r-off"}}}
	}
	for _, j := range e3Jobs {
		for _, p := range j.policies {
			pol := wireRedirPolicies[p]
			// terminal by the statement: an attempt whose reference class is not "retryable"
			scripts := wireScripts(j.alpha, func(ch string) bool {
				segs := strings.Split(ch, ":")
				for i, seg := range segs {
					_, label, redirect := strings.Cut(seg, ">")
					if !redirect {
						return wireBehaviourClass(seg) != "retryable"
					}
					if !pol.Redirects || label == "refused" || label == "none" || label == "garbage" || i == len(segs)-1 {
						return true
					}
				}
				return true
			}, j.max)
			for _, sc := range scripts {
				cases = append(cases, WireCase{Part: "e3", Max: j.max, Policy: p, Script: sc})
			}
		}
	}
	r.Set("e_cases_enumerated", len(cases))

	workers := runtime.NumCPU()
	if workers > 8 {
		workers = 8
	}
	var next atomic.Int64
	var capped atomic.Bool
	var wg sync.WaitGroup
	for w := 0; w < workers; w++ {
		wg.Add(1)
		go func() {
			defer wg.Done()
			for {
				i := int(next.Add(1)) - 1
				if i >= len(cases) {
					return
				}
				if time.Now().After(deadline) {
					if capped.CompareAndSwap(false, true) {
						r.NotExhaustive("part e: wall budget reached before the enumeration finished")
					}
					return
				}
				c.wireRun(cases[i])
			}
		}()
	}
	wg.Wait()

	wireMu.Lock()
	var classes []string
	for g := range wireOutcomes {
		classes = append(classes, g)
	}
	sort.Strings(classes)
	r.Set("e_outcome_classes_observed", classes)
	if os.Getenv("VERIF_VERBOSE") != "" {
		wireClassMu.Lock()
		var l []string
		for k := range wireClasses {
			l = append(l, k)
		}
		wireClassMu.Unlock()
		sort.Strings(l)
		fmt.Printf("part e classes (%d):\n  %s\n", len(l), strings.Join(l, "\n  "))
	}
	r.Set("e_examples", wireExamples)
	wireMu.Unlock()
	r.Set("e_rule", "every case is one history on the real PushDispatcher + real HTTPDeliverer + real http.Transport (clone of http.DefaultTransport, no proxy) against a raw TCP target on loopback, in real time with a 1ms backoff: "+
		"(e1) every script of wire behaviours {answer 2xx/503 and keep the connection (with and without body), answer with Connection: close, read the request and close, close unread, truncated header block} "+
		"with retry.max+1 elements (shorter when an element is terminal by the statement), without and with an earlier exchange that leaves an idle keep-alive connection (thorough: also requests without a body); "+
		"(e2) egress policy x every script of per-attempt resolver answers {allowed address (target answers 200/503), denied address, lookup errors, empty answers} for a host-name target; "+
		"(e3) egress policy {redirects on + deny host / deny cidr / dns_rebind_protection (thorough: + allow list), redirects off} x every script of per-attempt redirect chains {direct answer; 302/307 (thorough: 301..308) to another allowed host or to the same host (reused connection), then 200/503/404/read-and-close (thorough: + Connection: close, truncated answer); to the refused host; to an allowed host that redirects to the refused one; without Location; two allowed hops} - all host names are connected to the one loopback target, which answers by (Host, URI). "+
		"distinct_nontrivial gains (behaviour, fresh/reused connection, attempt<=max?, settlement), (policy, resolver answer, attempt<=max?, sent?, settlement) and (policy, redirects on/off, where the walk ends, what ends it, attempt<=max?, settlement) classes")
	r.Assume("part e: the transport is a clone of http.DefaultTransport without proxy (what run() uses when tracing is off); HTTP/1.1 over plain TCP on loopback only (no TLS, no HTTP/2, no proxy, no otelhttp wrapper); " +
		"e2 connects the non-existent host name to the loopback target through Transport.DialContext, so the transport's own name resolution at dial time is not exercised (the egress check has no dial hook of its own; check and dial resolve independently, that gap is outside C06)")
	r.Assume("part e: target behaviours whose effect depends on a race inside the client are left out: a target that closes an idle keep-alive connection while the next request is on its way, a target that stalls until the delivery timeout (virtual-time hangs are in parts a/c), and answers cut off inside the body (HTTPDeliverer reports the 2xx status; the statement says 2xx acks)")
	r.Assume("part e3: a hop request that the transport itself repeats (net/http re-sends an idempotent GET - what a 301/302/303 hop is - on a fresh connection when a reused connection dies before the first answer byte) is counted (e3_info_hop_requests_repeated_by_the_transport), not judged: the statement bounds the requests to the configured target, which is asked exactly once per attempt; the place asked again answers the same again")
	r.Assume("part e: a failed lookup after which the request is sent anyway (fail-open) is judged by what the target answered, not as a violation (that would be C16's business); counter e_info_sent_despite_failed_lookup")
}

// replayWire re-runs one recorded case of part (e); false: the replay file is not one of this part.
func (c *checker) replayWire(raw []byte) bool {
	var f struct {
		Replay struct {
			Wire *WireCase `json:"wire"`
		} `json:"replay"`
	}
	if err := json.Unmarshal(raw, &f); err != nil || f.Replay.Wire == nil {
		return false
	}
	wc := *f.Replay.Wire
	o := c.wireRun(wc)
	b, _ := json.MarshalIndent(wireSummary(wc, o), "", " ")
	fmt.Printf("REPLAY %s\n", b)
	c.r.Sample(wireSummary(wc, o))
	c.r.NotExhaustive("replay of one case")
	c.r.Set("rule", "replay of one recorded history of part e")
	c.r.Finish()
	return true
}
