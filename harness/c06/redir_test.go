package c06

// Part (h) — redirects as part of the answer alphabet of the real HTTPDeliverer behind the real PushDispatcher.
// Added after an independently seeded change that parts (a)-(g) missed (MUTANTS.md, wave 4): until then a policy
// denial existed only as a denial of the CONFIGURED target before the first request, and a 3xx only as a status
// under `redirects off`.
//
// One attempt is no longer one answer but a WALK: the configured target answers 301/302/303/307/308 with a Location,
// the place it points to answers again, ... The in-memory network below the real http.Client (which does the
// following, calls HTTPDeliverer's CheckRedirect per hop and wraps its errors) serves several hosts; the egress
// policy is compiled from written configuration text by the production path; names are resolved from a fixed table.
//
//	chain   = seg (":" seg)*          what the 1st, 2nd, ... URL of the walk answers
//	seg     = final | status ">" label
//	final   = status code | "reset" | "hang"
//	label   = next | next2 | relative | loop            (places every policy of the part allows)
//	        | a key of redirPolicy.Refused               (a place the written rule refuses)
//	        | none | garbage | escape | ftp | empty-host (no / unusable Location)
//
// Reference, from the statement and the docs (docs/delivery.md, docs/security.md "Egress Protection"):
//
//	redirects off (or not written: the documented default): the 3xx IS the answer - "1xx/3xx answers are never
//	    treated as success"; nothing is requested anywhere else;
//	redirects on: every hop is checked like the configured target. A Location the policy refuses is an egress-policy
//	    denial: dead policy_denied by that very attempt, no retry, and the refused place is never requested. The
//	    final answer of an allowed chain is classified like a direct answer (2xx ack; 5xx/429/408/network error/
//	    timeout retried while attempt <= retry.max, then max_retries; other 4xx no_retry). A 3xx without a usable
//	    Location, a 3xx nobody followed and a redirect loop are 3xx answers: never a success, retried at most while
//	    attempt <= retry.max, dead-lettered only with a reason; a loop ends.
//	every attempt requests the configured target exactly once and each further place of the walk at most once, in
//	    order; everything else (attempt records, delay window, sends per cycle <= retry.max+1, terminal state) is the
//	    unchanged judge of parts (a)-(d).
//
// Which places a policy refuses is written down by hand next to the rule (redirPolicy.Refused) - by construction of
// the rule, never by evaluating the policy.

import (
	"context"
	"fmt"
	"io"
	"net"
	"net/http"
	"net/url"
	"os"
	"sort"
	"strconv"
	"strings"
	"sync"
	"syscall"
)

// ---- the places ------------------------------------------------------------------

// redirURL is the naming table of the part: what a location label stands for. scheme is the scheme of the
// configured target (the places that are meant to be allowed use the same one).
func redirURL(label, scheme string) string {
	switch label {
	case "next":
		return scheme + "://next.example/n"
	case "next2":
		return scheme + "://next2.example/n2"
	case "loop":
		return scheme + "://next.example/loop"
	case "deny-host":
		return scheme + "://" + deniedHost + "/x"
	case "deny-sub":
		return scheme + "://a.corp.example/x"
	case "cidr-name":
		return scheme + "://internal.example/x"
	case "cidr-ip":
		return scheme + "://10.9.9.9/x"
	case "other-host":
		return scheme + "://other.example/x"
	case "other-tld":
		return scheme + "://hooks.other.test/x"
	case "http":
		return "http://next.example/n"
	case "private-name":
		return scheme + "://private.example/x"
	case "loopback-ip":
		return scheme + "://127.0.0.1/x"
	case "metadata-ip":
		return scheme + "://169.254.169.254/latest/meta-data"
	}
	panic("c06 redir: unknown location label " + label)
}

// the Location header value of a label ("", false: no header at all)
func redirLocation(label, scheme string) (string, bool) {
	switch label {
	case "none":
		return "", false
	case "garbage":
		return "http://[::1", true // no URL parser accepts it
	case "escape":
		return "/%zz", true
	case "ftp":
		return "ftp://next.example/x", true
	case "empty-host":
		return scheme + ":///x", true
	case "relative":
		return "/again?x=1", true
	}
	return redirURL(label, scheme), true
}

func redirOdd(label string) bool {
	switch label {
	case "none", "garbage", "escape", "ftp", "empty-host":
		return true
	}
	return false
}

// redirResolver: the name table of the in-memory network (the egress check asks it only under policies with CIDR
// rules or dns_rebind_protection).
type redirResolver struct{}

var redirNames = map[string]string{
	okHost:             "93.184.216.34",
	"next.example":     "93.184.216.35",
	"next2.example":    "93.184.216.36",
	deniedHost:         "93.184.216.40",
	"a.corp.example":   "93.184.216.50",
	"internal.example": "10.1.2.3",
	"private.example":  "192.168.7.9",
	"other.example":    "198.51.100.7",
	"hooks.other.test": "203.0.113.9",
}

func (redirResolver) LookupIPAddr(_ context.Context, host string) ([]net.IPAddr, error) {
	if ip, ok := redirNames[strings.TrimSuffix(strings.ToLower(host), ".")]; ok {
		return []net.IPAddr{{IP: net.ParseIP(ip)}}, nil
	}
	return nil, &net.DNSError{Err: "no such host", Name: host, IsNotFound: true}
}

// ---- the policies ------------------------------------------------------------------

type redirPolicy struct {
	Lines   []string          // the egress block as written, without the redirects line
	Scheme  string            // of the configured target and of the places meant to be allowed
	Refused map[string]string // location label -> the written rule that refuses it
}

var redirPolicies = map[string]redirPolicy{
	"open": {Lines: []string{"https_only off", "dns_rebind_protection off"}, Scheme: "http"},
	"deny-host": {Lines: []string{"https_only off", "dns_rebind_protection off", `deny "` + deniedHost + `"`}, Scheme: "http",
		Refused: map[string]string{"deny-host": "deny <host>"}},
	"deny-sub": {Lines: []string{"https_only off", "dns_rebind_protection off", `deny "*.corp.example"`}, Scheme: "http",
		Refused: map[string]string{"deny-sub": "deny *.<domain>"}},
	"deny-cidr": {Lines: []string{"https_only off", "dns_rebind_protection off", `deny "10.0.0.0/8"`}, Scheme: "http",
		Refused: map[string]string{"cidr-name": "deny <cidr>, the name resolves into it", "cidr-ip": "deny <cidr>, literal address"}},
	"allow-hosts": {Lines: []string{"https_only off", "dns_rebind_protection off", `allow "` + okHost + `"`, `allow "next.example"`, `allow "next2.example"`}, Scheme: "http",
		Refused: map[string]string{"other-host": "not in the allow list", "deny-host": "not in the allow list"}},
	"allow-cidr": {Lines: []string{"https_only off", "dns_rebind_protection off", `allow "93.184.216.0/24"`}, Scheme: "http",
		Refused: map[string]string{"other-host": "resolves outside the allowed cidr", "cidr-ip": "literal address outside the allowed cidr"}},
	"https-only": {Lines: []string{"https_only on", "dns_rebind_protection off"}, Scheme: "https",
		Refused: map[string]string{"http": "https_only"}},
	"rebind": {Lines: []string{"https_only off", "dns_rebind_protection on"}, Scheme: "http",
		Refused: map[string]string{"private-name": "dns_rebind_protection, name resolves to a private address", "loopback-ip": "dns_rebind_protection, loopback address",
			"metadata-ip": "dns_rebind_protection, link-local address", "cidr-name": "dns_rebind_protection, name resolves to a private address"}},
	// nothing written: the documented defaults https_only on, dns_rebind_protection on
	"defaults": {Scheme: "https",
		Refused: map[string]string{"http": "https_only (default)", "private-name": "dns_rebind_protection (default)", "loopback-ip": "dns_rebind_protection (default)"}},
	"mixed": {Lines: []string{"https_only off", "dns_rebind_protection off", `allow "*.example"`, `deny "` + deniedHost + `"`, `deny "10.0.0.0/8"`}, Scheme: "http",
		Refused: map[string]string{"deny-host": "deny before allow", "cidr-name": "deny <cidr> before allow", "cidr-ip": "deny <cidr>", "other-tld": "not in the allow list"}},
}

// redirEgressBlock writes the egress block of "<policy>/<on|off|unset>" (specDSL).
func redirEgressBlock(egress string) string {
	name, mode, _ := strings.Cut(egress, "/")
	pol, ok := redirPolicies[name]
	if !ok {
		panic("c06 redir: unknown policy " + egress)
	}
	lines := append([]string{}, pol.Lines...)
	switch mode {
	case "on", "off":
		lines = append(lines, "redirects "+mode)
	case "unset":
	default:
		panic("c06 redir: unknown redirects mode " + egress)
	}
	if len(lines) == 0 {
		return "" // nothing written at all
	}
	return "  egress {\n    " + strings.Join(lines, "\n    ") + "\n  }\n"
}

func (p redirPolicy) refusedLabels() []string {
	var l []string
	for k := range p.Refused {
		l = append(l, k)
	}
	sort.Strings(l)
	return l
}

// ---- the network --------------------------------------------------------------------

type chainKey struct{}

// WireReq is one request the in-memory network saw.
type WireReq struct {
	Method string `json:"method"`
	URL    string `json:"url"`
	Body   int    `json:"body"`
}

// chainGuard: a walk that long is answered 200 from then on (only a loop nobody ends gets there).
const chainGuard = 40

type chainRun struct {
	segs   []string
	scheme string
	mu     sync.Mutex
	reqs   []WireReq
}

func newChainRun(chain, first string) *chainRun {
	scheme := "http"
	if strings.HasPrefix(first, "https://") {
		scheme = "https"
	}
	return &chainRun{segs: strings.Split(chain, ":"), scheme: scheme}
}

func (cr *chainRun) seen() []WireReq {
	cr.mu.Lock()
	defer cr.mu.Unlock()
	return append([]WireReq(nil), cr.reqs...)
}

func parseSeg(seg string) (status int, label string, redirect bool) {
	if a, b, ok := strings.Cut(seg, ">"); ok {
		n, err := strconv.Atoi(a)
		if err != nil {
			panic("c06 redir: bad segment " + seg)
		}
		return n, b, true
	}
	if seg == "reset" || seg == "hang" {
		return 0, "", false
	}
	n, err := strconv.Atoi(seg)
	if err != nil {
		panic("c06 redir: bad segment " + seg)
	}
	return n, "", false
}

func (cr *chainRun) roundTrip(req *http.Request) (*http.Response, error) {
	body := 0
	if req.Body != nil {
		n, _ := io.Copy(io.Discard, req.Body)
		req.Body.Close()
		body = int(n)
	}
	cr.mu.Lock()
	n := len(cr.reqs)
	cr.reqs = append(cr.reqs, WireReq{Method: req.Method, URL: req.URL.String(), Body: body})
	cr.mu.Unlock()

	last := cr.segs[len(cr.segs)-1]
	seg := "200" // beyond the chain: only a run that requests what it must not request gets here
	switch {
	case n < len(cr.segs):
		seg = cr.segs[n]
	case strings.HasSuffix(last, ">loop") && n < chainGuard:
		seg = last // the place the loop points to answers the same again, pointing to itself
	}
	status, label, redirect := parseSeg(seg)
	answer := func(code int, h http.Header) (*http.Response, error) {
		return &http.Response{StatusCode: code, Status: fmt.Sprintf("%d x", code), Proto: "HTTP/1.1", ProtoMajor: 1, ProtoMinor: 1,
			Header: h, Body: http.NoBody, Request: req}, nil
	}
	if !redirect {
		switch seg {
		case "reset":
			return nil, &net.OpError{Op: "read", Net: "tcp", Err: syscall.ECONNRESET}
		case "hang":
			<-req.Context().Done()
			return nil, req.Context().Err()
		}
		return answer(status, http.Header{})
	}
	h := http.Header{}
	if loc, ok := redirLocation(label, cr.scheme); ok {
		h["Location"] = []string{loc}
	}
	return answer(status, h)
}

// ---- the reference walk ---------------------------------------------------------------

func redirFinalClass(seg string) (cls, name string) {
	switch seg {
	case "reset":
		return "retryable", "reset"
	case "hang":
		return "retryable", "hang"
	}
	c, _, _ := parseSeg(seg)
	switch {
	case c/100 == 2:
		return "success", "2xx"
	case c == 408 || c == 429:
		return "retryable", strconv.Itoa(c)
	case c/100 == 5:
		return "retryable", "5xx"
	case c/100 == 4:
		return "permanent", "4xx"
	}
	return "nonsuccess", fmt.Sprintf("%dxx", c/100)
}

// judgeChain: reference class and input class of one attempt whose answer is a redirect chain, plus what the
// requests seen by the network have to look like.
func judgeChain(sp Spec, m Msg, s *Send) (cls, in string, finds []Finding, distinct []string) {
	pname, mode, _ := strings.Cut(sp.Egress, "/")
	pol, ok := redirPolicies[pname]
	if !ok {
		panic("c06 redir: chain behaviour without a policy of part h: " + sp.Egress)
	}
	on := mode == "on"
	first := m.Target
	scheme := "http"
	if strings.HasPrefix(first, "https://") {
		scheme = "https"
	}
	add := func(key, format string, a ...any) {
		finds = append(finds, Finding{Key: key, Msg: "chain " + s.Beh.Chain + ": " + fmt.Sprintf(format, a...)})
	}

	// the walk the statement allows: the configured target, then every place an ALLOWED Location points to
	path := []string{first}
	cur := first
	end, loopURL := "", ""
	endsAtRedirect := false
	var statuses []int
	decided := false
	for _, seg := range strings.Split(s.Beh.Chain, ":") {
		status, label, redirect := parseSeg(seg)
		if !redirect {
			cls, end = redirFinalClass(seg)
			decided = true
			break
		}
		statuses = append(statuses, status)
		endsAtRedirect = true
		if !on {
			cls, end, decided = "nonsuccess", "3xx", true
			break
		}
		switch {
		case redirOdd(label):
			cls, end, decided = "nonsuccess", "location-"+label, true
		case label == "loop":
			cls, end, decided = "nonsuccess", "loop", true
			loopURL = redirURL("loop", scheme)
		case pol.Refused[label] != "":
			cls, end, decided = "policy", "refused["+label+"]", true
		}
		if decided {
			break
		}
		// an allowed place: it is requested next
		nxt := ""
		if label == "relative" {
			u, _ := url.Parse(cur)
			nxt = u.Scheme + "://" + u.Host + "/again?x=1"
		} else {
			nxt = redirURL(label, scheme)
		}
		path = append(path, nxt)
		cur = nxt
		endsAtRedirect = false
	}
	if !decided {
		panic("c06 redir: chain without an end: " + s.Beh.Chain)
	}
	hops := len(path) - 1
	where := "direct"
	switch {
	case endsAtRedirect:
		where = fmt.Sprintf("hop%d", hops+1)
	case hops > 0:
		where = fmt.Sprintf("after-hop%d", hops)
	}

	var urls []string
	for _, w := range s.Wire {
		urls = append(urls, w.URL)
	}
	// (1) a place the policy refuses is never requested
	for _, label := range pol.refusedLabels() {
		u := redirURL(label, scheme)
		for _, x := range urls {
			if x == u {
				add("redir:request-to-refused-location", "%s was requested although the policy refuses it (%s: %s); requests of this attempt: %v", u, label, pol.Refused[label], urls)
				break
			}
		}
	}
	// (2) the requests of the attempt are one walk along the chain
	same := func(n int) bool {
		for i := 0; i < n; i++ {
			if i >= len(path) || urls[i] != path[i] {
				return false
			}
		}
		return true
	}
	switch {
	case len(urls) == 0:
		add("redir:nothing-requested", "the attempt requested nothing, not even the configured target")
	case !on && len(urls) > 1:
		add("redir:hop-requested-although-redirects-off", "requests of this attempt: %v", urls)
	case loopURL != "":
		okWalk := len(urls) >= len(path) && same(len(path))
		for _, x := range urls[min(len(path), len(urls)):] {
			okWalk = okWalk && x == loopURL
		}
		if !okWalk {
			add("redir:walk-differs", "requests of this attempt %v, want %v followed by %s only", urls, path, loopURL)
		}
		if len(urls) >= chainGuard {
			add("redir:loop:not-ended", "a redirect loop was followed %d times within one attempt", len(urls))
		}
	case len(urls) > len(path) || !same(len(urls)):
		add("redir:walk-differs", "requests of this attempt %v, want %v (each once, in this order)", urls, path)
	case len(urls) < len(path):
		// an allowed hop nobody followed: the 3xx is the answer of this attempt
		cls, end = "nonsuccess", "3xx-not-followed"
		where = fmt.Sprintf("hop%d", len(urls))
	}
	// the input class (it names violation keys) does not carry the kind of rule that refuses the place; the coverage
	// classes below do
	in = "redir-" + mode + ":" + where + ":" + end
	if cls == "policy" {
		in = "redir-" + mode + ":" + where + ":refused"
	}
	for _, st := range statuses {
		distinct = append(distinct, fmt.Sprintf("h:status:%d:%s:%s", st, mode, end))
	}
	got := s.Action
	if s.Action == "dead" {
		got += "/" + s.Reason
	}
	distinct = append(distinct, fmt.Sprintf("h:policy:%s:%s:%s:%s", sp.Egress, where, end, got))
	for _, w := range s.Wire[min(1, len(s.Wire)):] {
		distinct = append(distinct, fmt.Sprintf("h:hop-request:%s:body=%v", w.Method, w.Body > 0))
	}
	return cls, in, finds, distinct
}

// ---- enumeration --------------------------------------------------------------------------

var redirStatuses = []int{301, 302, 303, 307, 308}

// redirChains: the answer alphabet of one attempt under a policy.
func redirChains(pol redirPolicy, on, thorough bool) []string {
	finals := []string{"200", "503", "404", "reset"}
	odd := []string{"none", "garbage"}
	second := []int{307, 302}
	if thorough {
		finals = []string{"200", "204", "500", "503", "429", "408", "404", "400", "reset", "hang"}
		odd = []string{"none", "garbage", "escape", "ftp", "empty-host"}
		second = redirStatuses
	}
	refused := pol.refusedLabels()
	out := append([]string{}, finals...)
	for _, s := range redirStatuses {
		if !on {
			// the walk ends at the first 3xx whatever it points to; behind it sits a 200 that must never count
			out = append(out, fmt.Sprintf("%d>next:200", s), fmt.Sprintf("%d>relative:200", s), fmt.Sprintf("%d>loop", s))
			for _, r := range refused {
				out = append(out, fmt.Sprintf("%d>%s", s, r))
			}
			for _, o := range odd {
				out = append(out, fmt.Sprintf("%d>%s", s, o))
			}
			continue
		}
		for _, f := range finals {
			out = append(out, fmt.Sprintf("%d>next:%s", s, f)) // (a) an allowed place, then its answer
		}
		for _, f := range []string{"200", "503"} {
			out = append(out, fmt.Sprintf("%d>relative:%s", s, f))
		}
		for _, r := range refused {
			out = append(out, fmt.Sprintf("%d>%s", s, r)) // (b) a place each kind of rule refuses
		}
		for _, o := range odd {
			out = append(out, fmt.Sprintf("%d>%s", s, o)) // (c) no / unusable Location
		}
		for _, s2 := range second { // (d) a second hop
			for _, r := range refused {
				out = append(out, fmt.Sprintf("%d>next:%d>%s", s, s2, r))
			}
			for _, f := range []string{"200", "503"} {
				out = append(out, fmt.Sprintf("%d>next:%d>next2:%s", s, s2, f))
			}
		}
		out = append(out, fmt.Sprintf("%d>loop", s)) // (e) a loop
	}
	if on {
		// 3xx statuses that are no redirect instruction, with a Location (followed or not: both are judged)
		for _, s := range []int{300, 304, 305, 399} {
			out = append(out, fmt.Sprintf("%d>next:200", s))
		}
		if thorough && len(refused) > 0 { // a third hop
			out = append(out, "307>next:308>next2:302>"+refused[0], "301>next:302>next2:303>relative:200", "308>next:307>next2:307>relative:503")
		}
	} else {
		out = append(out, "307>next:307>next2:200")
	}
	return out
}

func chainBeh(chain string) Beh { return Beh{Kind: "chain", Chain: chain} }

func (c *checker) partH() {
	r := c.r
	names := []string{"open", "deny-host", "deny-sub", "deny-cidr", "allow-hosts", "allow-cidr", "https-only", "rebind", "defaults", "mixed"}
	modesOf := func(name string) []string {
		if name == "defaults" || name == "deny-host" {
			return []string{"on", "off", "unset"}
		}
		return []string{"on", "off"}
	}
	tgt := func(pol redirPolicy, max int, base, cp, jitter string) Tgt {
		t := Tgt{Path: "/hook", Max: strconv.Itoa(max), Base: base, Cap: cp, Jitter: jitter, Timeout: "1s"}
		if pol.Scheme != "http" {
			t.Scheme = pol.Scheme
		}
		return t
	}

	if os.Getenv("VERIF_VERBOSE") != "" {
		c.hClasses = map[string]bool{}
		defer func() {
			var l []string
			for k := range c.hClasses {
				l = append(l, k)
			}
			sort.Strings(l)
			fmt.Printf("part h classes (%d):\n  %s\n", len(l), strings.Join(l, "\n  "))
		}()
	}

	// (h1) the classification table: policy x redirects on/off/not written x retry.max x attempt 1..max+2 x chain
	n := 0
	for _, name := range names {
		pol := redirPolicies[name]
		for _, mode := range modesOf(name) {
			maxes := []int{1}
			if name == "deny-host" || name == "defaults" {
				maxes = []int{1, 2}
			}
			if r.Thorough() {
				maxes = []int{1, 2, 3}
			}
			chains := redirChains(pol, mode == "on", r.Thorough())
			r.Add("h_chains_in_the_alphabets", int64(len(chains)))
			for _, max := range maxes {
				tg := tgt(pol, max, "1m", "4m", "0")
				for attempt := 1; attempt <= max+2; attempt++ {
					for _, ch := range chains {
						if c.expired() {
							return
						}
						sp := Spec{Part: "h", Store: "memory", Egress: name + "/" + mode, Targets: []Tgt{tg}, Conc: 1, HTTP: true, U: 0.5, StopAfter: 1,
							Msgs: []Msg{{ID: "m", Target: tg.URL(), PreAttempts: attempt - 1, Script: []Beh{chainBeh(ch)}}}}
						res := c.run(sp)
						if n%397 == 11 {
							c.sample(sp, res, 2)
						}
						n++
					}
				}
			}
		}
	}

	// (h2) sequences: every script of retry.max+2 attempts (+1 with one DLQ requeue) over a chain alphabet
	type job struct {
		egress  string
		store   string
		alpha   []string
		maxes   []int
		requeue []int
	}
	hostAlpha := []string{"200", "503", "404", "307>next:200", "302>next:503", "308>next:reset", "307>deny-host", "301>next:307>deny-host", "303>none", "307>loop"}
	defAlpha := []string{"200", "503", "307>next:200", "307>next:503", "307>http", "302>next:302>private-name", "308>garbage"}
	jobs := []job{
		{"deny-host/on", "memory", hostAlpha, []int{1, 2}, []int{0}},
		{"deny-host/on", "memory", hostAlpha, []int{1}, []int{1}},
		{"defaults/on", "memory", defAlpha, []int{1}, []int{0, 1}},
		{"deny-host/on", "sqlite", defAlphaFor("deny-host"), []int{1}, []int{0}},
		{"deny-host/off", "memory", []string{"200", "503", "307>next:200", "307>deny-host"}, []int{1}, []int{0}},
	}
	if r.Thorough() {
		jobs = []job{
			{"deny-host/on", "memory", hostAlpha, []int{1, 2, 3}, []int{0}},
			{"deny-host/on", "memory", hostAlpha, []int{1, 2}, []int{1}},
			{"deny-host/on", "memory-nobatch", hostAlpha, []int{1, 2}, []int{0}},
			{"deny-host/on", "memory-batchfail", hostAlpha, []int{1}, []int{0, 1}},
			{"defaults/on", "memory", defAlpha, []int{1, 2}, []int{0, 1}},
			{"deny-host/on", "sqlite", hostAlpha, []int{1, 2}, []int{0}},
			{"deny-host/on", "sqlite-nobatch", defAlphaFor("deny-host"), []int{1}, []int{0, 1}},
			{"rebind/on", "memory", []string{"200", "503", "307>next:200", "307>next:503", "307>private-name", "302>next:302>loopback-ip", "308>garbage"}, []int{1, 2}, []int{0, 1}},
			{"deny-host/off", "memory", []string{"200", "503", "307>next:200", "307>deny-host"}, []int{1, 2}, []int{0, 1}},
		}
	}
	for _, j := range jobs {
		name, _, _ := strings.Cut(j.egress, "/")
		pol := redirPolicies[name]
		var alpha []Beh
		for _, ch := range j.alpha {
			alpha = append(alpha, chainBeh(ch))
		}
		for _, max := range j.maxes {
			for _, requeue := range j.requeue {
				tg := tgt(pol, max, "100ms", "250ms", "0.2")
				e := c.enumerate(alpha, max+2+requeue, func(script []Beh) Spec {
					return Spec{Part: "h2", Store: j.store, Egress: j.egress, Targets: []Tgt{tg}, Conc: 1, HTTP: true, U: 0, Requeue: requeue,
						Msgs: []Msg{{ID: "m", Target: tg.URL(), Script: script}}}
				})
				r.Add("h2_distinct_histories", int64(len(e)))
				if c.capped {
					return
				}
			}
		}
	}
}

// defAlphaFor: the small sequence alphabet with the one refused place of a host-rule policy.
func defAlphaFor(name string) []string {
	r := redirPolicies[name].refusedLabels()[0]
	return []string{"200", "503", "307>next:200", "307>next:503", "307>" + r, "302>next:302>" + r, "308>garbage"}
}
