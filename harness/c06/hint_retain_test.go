package c06

// Parts (i) and (j), added after two independently seeded changes that parts (a)-(h) missed (MUTANTS.md, wave 5):
//
//	(i) the ANSWER carries more than a status: a header line that reads like a scheduling hint (Retry-After in its
//	    two syntaxes, the rate-limit reset headers). The statement classifies by status / error kind only and bounds
//	    the retry schedule by the configured base, cap and jitter only, so the judge of parts (a)-(d) is applied
//	    unchanged: same class, same delay window, whatever the header says.
//	(j) the store is the one the production wiring opens from the configuration text (queue backend + the written
//	    retention blocks; nothing written = the documented defaults, which DO prune periodically), and it stays in use
//	    for several prune intervals of virtual time after the messages were settled before the attempt log and the
//	    final state are read. Total idle time stays far below every max_age, so nothing may have been removed:
//	    "every attempt is recorded with its outcome", "always ends delivered or in the DLQ with a reason".

import (
	"math"
	"strconv"
	"time"
)

// ---- (i) answers with a scheduling hint ---------------------------------------------

// hintLines: the virtual clock of a bubble starts at 2000-01-01T00:00:00Z.
var hintLines = []string{
	"",
	"Retry-After: 0",
	"Retry-After: 1",
	"Retry-After: 30",
	"Retry-After: 3600",
	"Retry-After: -5",
	"Retry-After: soon",
	"Retry-After: Fri, 31 Dec 1999 23:00:00 GMT", // a date in the past
	"Retry-After: Sat, 01 Jan 2000 01:00:00 GMT", // in one hour
	"Retry-After: Fri, 01 Jan 2100 00:00:00 GMT",
	"RateLimit-Reset: 0",
	"RateLimit-Reset: 3600",
	"X-RateLimit-Reset: 0",
	"X-RateLimit-Reset: 4102444800", // epoch seconds, 2100
	"X-RateLimit-Reset-After: 0",
	"X-RateLimit-Reset-After: 3600",
}

func (c *checker) partI() {
	r := c.r
	u1 := math.Nextafter(1, 0)
	statuses := []int{200, 302, 404, 408, 429, 500, 502, 503, 504}
	type cfg struct {
		tg Tgt
		us []float64
	}
	cfgs := []cfg{
		{Tgt{Path: "/hook", Max: "3", Base: "2s", Cap: "2m", Jitter: "0.2", Timeout: "1s"}, []float64{0, u1}},
		{Tgt{Path: "/hook", Max: "2", Base: "100ms", Cap: "250ms", Jitter: "0", Timeout: "1s"}, []float64{0}},
	}
	stores := []string{"memory"}
	if r.Thorough() {
		cfgs = append(cfgs,
			cfg{Tgt{Path: "/hook", Max: "8", Base: "", Cap: "", Jitter: "", Timeout: "1s"}, []float64{0, 0.5, u1}}, // the built-in schedule
			cfg{Tgt{Path: "/hook", Max: "2", Base: "1m", Cap: "1m", Jitter: "1", Timeout: "1s"}, []float64{0, u1}})
		stores = []string{"memory", "sqlite", "memory-nobatch"}
	}
	n := 0
	for _, store := range stores {
		for ci, cf := range cfgs {
			if store != "memory" && ci != 1 {
				// SQLite's Dequeue polls every 25ms of VIRTUAL time with a real query: only the sub-second schedule
				// is affordable there (the long schedules run on the memory store)
				continue
			}
			for _, u := range cf.us {
				for _, code := range statuses {
					for _, h := range hintLines {
						if c.expired() {
							return
						}
						b := st(code)
						b.Hdr = h
						sp := Spec{Part: "i", Store: store, Targets: []Tgt{cf.tg}, Conc: 1, HTTP: true, U: u, MaxPerLife: 12,
							Msgs: []Msg{{ID: "m", Target: cf.tg.URL(), Script: []Beh{b}}}}
						res := c.run(sp)
						if h != "" {
							r.Add("i_histories_with_a_hint", 1)
						}
						if n%97 == 41 {
							c.sample(sp, res, 2)
						}
						n++
					}
				}
			}
		}
	}
	r.Set("i_hint_lines", len(hintLines)-1)
	// hints mixed with plain answers along one message's life
	hinted := func(code int, h string) Beh { b := st(code); b.Hdr = h; return b }
	alpha := []Beh{st(200), st(503), hinted(503, "Retry-After: 0"), hinted(429, "Retry-After: 3600"), hinted(404, "Retry-After: 0"), st(408)}
	maxes := []int{2}
	if r.Thorough() {
		alpha = append(alpha, hinted(503, "Retry-After: Fri, 31 Dec 1999 23:00:00 GMT"), hinted(200, "Retry-After: 0"), Beh{Kind: "hang"})
		maxes = []int{1, 2, 3}
	}
	for _, max := range maxes {
		tg := Tgt{Path: "/hook", Max: strconv.Itoa(max), Base: "2s", Cap: "2m", Jitter: "0.2", Timeout: "1s"}
		e := c.enumerate(alpha, max+2, func(script []Beh) Spec {
			return Spec{Part: "i2", Store: "memory", Targets: []Tgt{tg}, Conc: 1, HTTP: true, U: 0.5,
				Msgs: []Msg{{ID: "m", Target: tg.URL(), Script: script}}}
		})
		r.Add("i2_distinct_histories", int64(len(e)))
	}
}

// ---- (j) the wired store, in use for a while after the settlement -----------------------

type retainBlock struct {
	text     string
	interval time.Duration // written (or documented default) prune_interval
	minAge   time.Duration // smallest written (or documented default) max_age; 0 = none
}

// docs/configuration.md: queue_retention { max_age 7d  prune_interval 5m }, dlq_retention { max_age 30d  max_depth
// 10000 }, delivered_retention off are the defaults when nothing is written.
var retainBlocks = map[string]retainBlock{
	"":          {"", 5 * time.Minute, 7 * 24 * time.Hour},
	"short":     {"queue_retention {\n  max_age 1h\n  prune_interval 1m\n}\ndlq_retention {\n  max_age 2h\n  max_depth 100\n}\n", time.Minute, time.Hour},
	"delivered": {"queue_retention {\n  max_age 7d\n  prune_interval 5m\n}\ndelivered_retention {\n  max_age 24h\n}\n", 5 * time.Minute, 24 * time.Hour},
	"off":       {"queue_retention {\n  max_age off\n  prune_interval 5m\n}\ndlq_retention {\n  max_age off\n  max_depth 0\n}\n", 5 * time.Minute, 0},
}

func (c *checker) partJ() {
	r := c.r
	type job struct {
		store   string
		retains []string
		alpha   []Beh
		maxes   []int
	}
	small := []Beh{st(200), st(503), st(404), st(302), {Kind: "policy"}}
	jobs := []job{
		{"wired-memory", []string{"", "short", "delivered", "off"}, small, []int{1}},
		{"wired-sqlite", []string{"", "delivered"}, small, []int{1}},
	}
	steps := 3
	if r.Thorough() {
		large := []Beh{st(200), st(503), st(429), st(404), st(302), {Kind: "hang"}, {Kind: "policy"}}
		jobs = []job{
			{"wired-memory", []string{"", "short", "delivered", "off"}, large, []int{1, 2}},
			{"wired-sqlite", []string{"", "short", "delivered", "off"}, small, []int{1, 2}},
		}
		steps = 5
	}
	for _, j := range jobs {
		for _, retain := range j.retains {
			rb := retainBlocks[retain]
			stepS := int(rb.interval/time.Second) + 1
			if total := time.Duration(steps*stepS) * time.Second; rb.minAge > 0 && total*2 > rb.minAge {
				r.Infra("j: the idle time %s is not far below the smallest max_age %s of retention blocks %q", total, rb.minAge, retain)
				return
			}
			for _, max := range j.maxes {
				for _, requeue := range []int{0, 1} {
					tg := Tgt{Path: "/hook", Max: strconv.Itoa(max), Base: "100ms", Cap: "250ms", Jitter: "0.2", Timeout: "1s"}
					e := c.enumerate(j.alpha, max+2+requeue, func(script []Beh) Spec {
						return Spec{Part: "j", Store: j.store, Retain: retain, IdleSteps: steps, IdleStepS: stepS,
							Targets: []Tgt{tg}, Conc: 1, HTTP: true, U: 0.5, Requeue: requeue,
							Msgs: []Msg{{ID: "m", Target: tg.URL(), Script: script}}}
					})
					r.Add("j_distinct_histories", int64(len(e)))
					r.Add("j_distinct_histories_"+j.store, int64(len(e)))
					if c.capped {
						return
					}
				}
			}
		}
	}
	// two messages on one store: one is delivered, one dead-lettered, each after a retry (the rows of the one must
	// not depend on the other still being there)
	tg := Tgt{Path: "/hook", Max: "1", Base: "100ms", Cap: "250ms", Jitter: "0", Timeout: "1s"}
	for _, store := range []string{"wired-memory", "wired-sqlite"} {
		for _, retain := range []string{"", "delivered"} {
			for _, sa := range [][]Beh{{st(503), st(200)}, {st(200)}} {
				for _, sb := range [][]Beh{{st(503), st(404)}, {st(503), st(503)}, {st(404)}} {
					if c.expired() {
						return
					}
					stepS := int(retainBlocks[retain].interval/time.Second) + 1
					sp := Spec{Part: "j2", Store: store, Retain: retain, IdleSteps: steps, IdleStepS: stepS,
						Targets: []Tgt{tg}, Conc: 2, HTTP: true, U: 0,
						Msgs: []Msg{{ID: "ma", Target: tg.URL(), Script: sa}, {ID: "mb", Target: tg.URL(), Script: sb}}}
					res := c.run(sp)
					c.sample(sp, res, 1)
				}
			}
		}
	}
	r.Set("j_idle_steps_after_settlement", steps)
}
