package c06

// C06 — Push delivery: correct outcome classification, bounded retry with
// backoff, DLQ. Exhaustive enumeration on the real PushDispatcher:
//
//	(a) the complete classification table (status 100..599 + error kinds) x attempt x retry.max,
//	(b) retry delay bounds for every compile-accepted retry config of a DSL grid x attempt x jitter draw,
//	(c) every target behaviour sequence up to retry.max+2 answers (single/multi target, concurrency, DLQ requeue),
//	(d) Drain requested while deliveries of a dequeue micro-batch are in flight.
//	(i) answers that carry a scheduling hint header, (j) the wired store in use across retention passes (hint_retain_test.go).
//
// The oracle (judge) is written from the property statement only; it never
// calls classifyDelivery/shouldRetry/isSuccess/retryDelay.

import (
	"encoding/json"
	"fmt"
	"math"
	"math/big"
	"os"
	"sort"
	"strconv"
	"strings"
	"testing"
	"time"

	"github.com/nuetzliches/hookaido/internal/queue"
	"github.com/nuetzliches/hookaido/internal/verifkit/runner"
)

// ---- reference (from the property text) --------------------------------------

// refClass: 2xx success; network errors, timeouts, 5xx, 429, 408 retryable; every other 4xx permanent;
// egress-policy denial its own class; 1xx/3xx "never treated as success".
func refClass(b Beh) string {
	switch b.Kind {
	case "policy", "policy-bare", "policy-url":
		return "policy"
	case "transport", "eof", "deadline", "deadline-bare", "hang":
		return "retryable"
	}
	c := b.Code
	switch {
	case c/100 == 2:
		return "success"
	case c == 408, c == 429, c/100 == 5:
		return "retryable"
	case c/100 == 4:
		return "permanent"
	}
	return "nonsuccess"
}

// inputClass names the input class of a behaviour in keys (no reference knowledge in it).
func inputClass(b Beh) string {
	if b.Kind != "status" {
		return b.Kind
	}
	if b.Code == 408 || b.Code == 429 {
		return strconv.Itoa(b.Code)
	}
	return fmt.Sprintf("%dxx", b.Code/100)
}

type refCfg struct {
	Max        int
	Base, Cap  time.Duration
	JNum, JDen *big.Int
	Timeout    time.Duration
}

func refConfig(t Tgt) (refCfg, error) {
	var rc refCfg
	var err error
	if rc.Max, err = strconv.Atoi(t.Max); err != nil {
		return rc, err
	}
	if rc.Base, err = time.ParseDuration(t.Base); err != nil {
		return rc, err
	}
	if rc.Cap, err = time.ParseDuration(t.Cap); err != nil {
		return rc, err
	}
	j, ok := new(big.Rat).SetString(t.Jitter)
	if !ok {
		return rc, fmt.Errorf("jitter %q", t.Jitter)
	}
	rc.JNum, rc.JDen = j.Num(), j.Denom()
	if rc.Timeout, err = time.ParseDuration(t.Timeout); err != nil {
		return rc, err
	}
	return rc, nil
}

// refWindow = [min(base*2^(attempt-1), cap)*(1-jitter), min(...)*(1+jitter)] in exact integer arithmetic
// (lower end rounded down, upper end rounded up to whole nanoseconds).
func refWindow(rc refCfg, attempt int) (lo, hi, mid time.Duration) {
	m := new(big.Int).Lsh(big.NewInt(int64(rc.Base)), uint(attempt-1))
	if c := big.NewInt(int64(rc.Cap)); m.Cmp(c) > 0 {
		m = c
	}
	l := new(big.Int).Mul(m, new(big.Int).Sub(rc.JDen, rc.JNum))
	l.Div(l, rc.JDen) // floor (all values non-negative)
	h := new(big.Int).Mul(m, new(big.Int).Add(rc.JDen, rc.JNum))
	h.Add(h, new(big.Int).Sub(rc.JDen, big.NewInt(1)))
	h.Div(h, rc.JDen) // ceil
	return time.Duration(l.Int64()), time.Duration(h.Int64()), time.Duration(m.Int64())
}

// tol absorbs float64 rounding and the truncation to whole nanoseconds of the implementation's delay.
const tol = 2 * time.Nanosecond

// scheduleCountsFromFailure: the statement bounds the retry schedule "after the failure". The delay handed to the
// store counts from the moment the lease mutation is applied; the two moments differ (in virtual time) only when
// the mutation of a micro-batch waits for the other deliveries of the batch. true = judge the upper bound
// literally, from the failure (finding schedule:later-than-upper-bound-after-failure:deferred-lease-mutation on
// the unchanged tree); false = bound the delay value only and keep the deferral as an info counter.
const scheduleCountsFromFailure = true

// ---- judge -------------------------------------------------------------------

type Finding struct {
	Key string
	Msg string
}

type judgeStats struct {
	sends                                                          int
	refAck, refRetry, refNoRetry, refMaxRetries, refPolicy, refNon int
	distinct                                                       []string
	lagged                                                         int           // retries whose nack was applied later than the failure (deferred batch mutation)
	maxLag                                                         time.Duration // largest such deferral
	assumptionBroken                                               string
	chainReqs, chainMaxReqs                                        int // part h: requests seen by the in-memory network (all sends / the longest walk of one send)
}

func judge(sp Spec, res Result) ([]Finding, judgeStats) {
	var out []Finding
	var js judgeStats
	add := func(key, format string, a ...any) {
		where := "[part " + sp.Part + "] "
		if sp.Egress != "" {
			where = "[part " + sp.Part + ", egress policy " + sp.Egress + "] "
		}
		out = append(out, Finding{Key: key, Msg: where + fmt.Sprintf(format, a...)})
	}
	if res.Stuck {
		add("terminal:not-reached", "message(s) neither delivered nor dead-lettered within the virtual-time horizon")
	}
	if res.Runaway {
		add("sends:runaway", "a message was sent more often than the runaway guard allows in one cycle")
	}
	if !res.DrainOK {
		add("drain:timeout", "dispatcher did not drain within 10 virtual minutes")
	}
	for _, id := range res.IdleLeased {
		add("terminal:handed-out-again-after-settlement", "message %s was handed to an idle worker poll after every message of the history had been delivered or dead-lettered", id)
	}
	if res.OtherOpen != 0 {
		add("terminal:not-reached:other-traffic", "%d of the %d other messages that went through the same store were neither delivered nor dead-lettered", res.OtherOpen, res.OtherSent)
	}
	for _, m := range sp.Msgs {
		for _, s := range res.Logs[m.ID] {
			if s.ActErr != "" {
				// "the attempt bound assumes lease mutations on the store succeed": nothing is claimed about this history
				js.assumptionBroken = fmt.Sprintf("message %s attempt %d: %s failed: %s", m.ID, s.Attempt, s.Action, s.ActErr)
				return nil, js
			}
		}
	}
	tcfg := map[string]refCfg{}
	for _, t := range sp.Targets {
		// the target's OWN written settings; what its block does not write comes from the written defaults.deliver
		// block, else from the documented built-in defaults (cfg_test.go)
		rc, err := refConfig(effectiveTgt(t, sp.Defaults))
		if err != nil {
			panic(err)
		}
		tcfg[t.URL()] = rc
	}
	for _, m := range sp.Msgs {
		rc := tcfg[m.Target]
		var sends []*Send
		for _, s := range res.Logs[m.ID] {
			if s.Delivered {
				sends = append(sends, s)
			}
		}
		perCycle := map[int]int{}
		for i, s := range sends {
			js.sends++
			perCycle[s.Cycle]++
			cls := refClass(s.Beh)
			in := inputClass(s.Beh)
			if s.Beh.Kind == "chain" {
				// part h (redir_test.go): reference walk of the redirect chain under the written egress policy
				var cf []Finding
				var cd []string
				cls, in, cf, cd = judgeChain(sp, m, s)
				for _, f := range cf {
					add(f.Key, "message %s send #%d (attempt %d): %s", m.ID, i+1, s.Attempt, f.Msg)
				}
				js.distinct = append(js.distinct, cd...)
				js.chainReqs += len(s.Wire)
				if len(s.Wire) > js.chainMaxReqs {
					js.chainMaxReqs = len(s.Wire)
				}
			}
			hinted := ""
			if n := s.Beh.hdrName(); n != "" {
				// part i: nothing in the statement lets the answer's headers change the class or the schedule
				in += "+" + n
				hinted = ":answer-carries-" + n
			}
			if s.Beh.Body != "" {
				// part a2: the class is that of the status code, whatever becomes of the answer's body afterwards
				in += "+body-" + s.Beh.Body
			}
			if slow := time.Duration(s.Beh.SlowMS) * time.Millisecond; slow > rc.Timeout {
				// no answer within the target's own timeout: a timeout, whatever would have arrived later
				cls, in = "retryable", in+"~later-than-timeout"
			}
			within := "att<=max"
			if s.Attempt > rc.Max {
				within = "att>max"
			}
			got := s.Action
			if s.Action == "dead" {
				got += "/" + s.Reason
			}
			ctx := fmt.Sprintf("message %s send #%d: answer %s at attempt %d (retry.max %d) settled as %q", m.ID, i+1, s.Beh, s.Attempt, rc.Max, got)
			js.distinct = append(js.distinct, fmt.Sprintf("%s:%s:%s:%s", sp.Part, in, within, got))
			if s.Action == "" {
				key := "settle:missing"
				if sp.DrainAtMS > 0 {
					key += ":stop-during-micro-batch"
				}
				add(key, "%s; the delivery returned and its attempt was recorded (%d record(s)), but no ack/nack/mark-dead followed before the dispatcher finished draining", ctx, len(s.Rows))
				continue
			}
			if s.Delivers != 1 {
				add("sends:twice-per-lease", "%s; %d deliveries under one lease", ctx, s.Delivers)
			}
			checkDelay := false
			switch cls {
			case "success":
				js.refAck++
				if s.Action != "ack" {
					add("classify:"+in+":not-acked", "%s; a 2xx answer must ack", ctx)
				}
			case "retryable":
				if s.Attempt <= rc.Max {
					js.refRetry++
					if s.Action != "nack" {
						add("classify:"+in+":"+within+":got="+got, "%s; must be retried while attempt <= retry.max", ctx)
					} else {
						checkDelay = true
					}
				} else {
					js.refMaxRetries++
					if s.Action != "dead" || s.Reason != "max_retries" {
						add("classify:"+in+":"+within+":got="+got, "%s; exhausted retries must dead-letter as max_retries", ctx)
					}
				}
			case "permanent":
				js.refNoRetry++
				if s.Action != "dead" || s.Reason != "no_retry" {
					add("classify:"+in+":got="+got, "%s; every other 4xx must dead-letter as no_retry", ctx)
				}
			case "policy":
				js.refPolicy++
				if s.Action != "dead" || s.Reason != "policy_denied" {
					add("classify:"+in+":got="+got, "%s; an egress-policy denial must dead-letter as policy_denied without retry", ctx)
				}
			case "nonsuccess":
				js.refNon++
				switch s.Action {
				case "ack":
					add("classify:"+in+":treated-as-success", "%s; 1xx/3xx answers are never treated as success", ctx)
				case "nack":
					if s.Attempt > rc.Max {
						add("classify:"+in+":retried-beyond-max", "%s; retried although attempt > retry.max", ctx)
					} else {
						checkDelay = true
					}
				case "dead":
					if strings.TrimSpace(s.Reason) == "" {
						add("classify:"+in+":dead-without-reason", "%s; dead-lettered without a reason", ctx)
					}
				default:
					add("classify:"+in+":unsettled", "%s; not settled", ctx)
				}
			}
			// attempt record: exactly one per send, with the outcome of the settlement
			if len(s.Rows) != 1 {
				add(fmt.Sprintf("attempt-record:count=%d", len(s.Rows)), "%s; %d attempt records written for this send", ctx, len(s.Rows))
			} else {
				row := s.Rows[0]
				want := map[string]queue.AttemptOutcome{"ack": queue.AttemptOutcomeAcked, "nack": queue.AttemptOutcomeRetry, "dead": queue.AttemptOutcomeDead}[s.Action]
				if row.Outcome != want {
					add("attempt-record:outcome:"+s.Action+"-recorded-as-"+string(row.Outcome), "%s; attempt record says outcome %q", ctx, row.Outcome)
				}
				if s.Action == "dead" && row.DeadReason != s.Reason {
					add("attempt-record:dead-reason", "%s; attempt record says dead_reason %q", ctx, row.DeadReason)
				}
				if row.EventID != m.ID || row.Attempt != s.Attempt {
					add("attempt-record:identity", "%s; attempt record is for event %q attempt %d", ctx, row.EventID, row.Attempt)
				}
			}
			if checkDelay {
				lo, hi, mid := refWindow(rc, s.Attempt)
				pos := "mid"
				switch {
				case s.Delay <= lo+tol:
					pos = "lo"
				case s.Delay >= hi-tol:
					pos = "hi"
				}
				capped := "exp"
				if mid == rc.Cap {
					capped = "cap"
				}
				js.distinct = append(js.distinct, fmt.Sprintf("%s:delay:j=%s:%s:%s", sp.Part, rc.JNum.String()+"/"+rc.JDen.String(), capped, pos))
				if lag := s.ActAt.Sub(s.End); lag > 0 {
					// the delay counts from the moment the lease mutation is applied, the statement counts from the failure
					js.lagged++
					if lag > js.maxLag {
						js.maxLag = lag
					}
					if scheduleCountsFromFailure && s.Delay <= hi+tol && lag+s.Delay > hi+tol {
						add("schedule:later-than-upper-bound-after-failure:deferred-lease-mutation",
							"%s; the retry delay %s is inside the window [%s,%s] but the nack was applied %s after the failure (virtual time, after the other deliveries of the dequeue micro-batch), so the retry is scheduled %s after the failure, later than the upper bound %s",
							ctx, s.Delay, lo, hi, lag, lag+s.Delay, hi)
					}
				}
				if s.Delay < lo-tol {
					add("delay:below-lower-bound"+hinted, "%s; retry delay %s < lower bound %s (window [%s,%s], u=%v)", ctx, s.Delay, lo, lo, hi, sp.U)
				}
				if s.Delay > hi+tol {
					add("delay:above-upper-bound"+hinted, "%s; retry delay %s > upper bound %s (window [%s,%s], u=%v)", ctx, s.Delay, hi, lo, hi, sp.U)
				}
				if i+1 < len(sends) {
					gap := sends[i+1].Start.Sub(s.End)
					if gap < lo-tol {
						add("retry:sent-before-lower-bound"+hinted, "%s; next send %s after the failure, lower bound %s", ctx, gap, lo)
					}
				}
			}
		}
		for c, n := range perCycle {
			if n > rc.Max+1 {
				add("sends:more-than-max+1", "message %s was sent %d times in cycle %d (retry.max %d)", m.ID, n, c, rc.Max)
			}
		}
		for _, c := range res.Restarts[m.ID] {
			if perCycle[c] == 0 {
				add("requeue-cycle:never-sent", "message %s was dead-lettered and put back by the operator (%s, cycle %d) but was never sent again; stored state %q",
					m.ID, restartName(sp.Restart), c, res.Final[m.ID].State)
			}
		}
		// stored attempt log: one row per send
		rows := res.Rows[m.ID]
		later, laterMsg := "", ""
		if res.IdleDone > 0 {
			// part j: read after the store stayed in use for a while (less than any written or documented max_age)
			later = ":after-retention-passes"
			laterMsg = fmt.Sprintf(" (read %d x %ds after the settlement; store %s, retention blocks %q: prune_interval %s, smallest max_age %s)",
				res.IdleDone, sp.IdleStepS, sp.Store, sp.Retain, retainBlocks[sp.Retain].interval, retainBlocks[sp.Retain].minAge)
			js.distinct = append(js.distinct, fmt.Sprintf("%s:%s:retain=%s:sends=%d:log-rows-after-idle=%d", sp.Part, sp.Store, sp.Retain, len(sends), len(rows)))
		}
		if len(rows) != len(sends) {
			add("attempt-log:count"+later, "message %s: %d sends but %d rows in the attempt log%s", m.ID, len(sends), len(rows), laterMsg)
		} else {
			var a, b []string
			unsettled := false
			for _, s := range sends {
				o := map[string]string{"ack": "acked", "nack": "retry", "dead": "dead"}[s.Action]
				a = append(a, fmt.Sprintf("%d:%s", s.Attempt, o))
				unsettled = unsettled || s.Action == "" // reported as settle:missing
			}
			for _, r := range rows {
				b = append(b, fmt.Sprintf("%d:%s", r.Attempt, r.Outcome))
			}
			sort.Strings(a)
			sort.Strings(b)
			if !unsettled && strings.Join(a, ",") != strings.Join(b, ",") {
				add("attempt-log:content"+later, "message %s: settlements %v but attempt log %v%s", m.ID, a, b, laterMsg)
			}
		}
		// terminal state
		if len(sends) == 0 {
			if sp.DrainAtMS == 0 {
				add("terminal:never-sent", "message %s was never sent", m.ID)
			}
			continue
		}
		f := res.Final[m.ID]
		last := sends[len(sends)-1]
		term := fmt.Sprintf("%d-sends:%s", len(sends), last.Action)
		if last.Action == "dead" {
			term += "/" + last.Reason
		}
		js.distinct = append(js.distinct, fmt.Sprintf("%s:end:%s:%s", sp.Part, sp.Store, term))
		switch last.Action {
		case "ack":
			if f.Present && f.State != queue.StateDelivered {
				add("terminal:acked-but-"+string(f.State), "message %s was acked but is stored as %q", m.ID, f.State)
			}
		case "dead":
			if !f.Present {
				add("terminal:dropped", "message %s was dead-lettered but is not in the store", m.ID)
			} else if f.State != queue.StateDead || !f.InDLQ {
				add("terminal:dead-but-"+string(f.State), "message %s was dead-lettered but is stored as %q (in DLQ listing: %v)", m.ID, f.State, f.InDLQ)
			} else if f.DeadReason != last.Reason || strings.TrimSpace(f.DeadReason) == "" {
				add("terminal:dead-reason", "message %s dead-lettered as %q but stored dead_reason is %q", m.ID, last.Reason, f.DeadReason)
			}
		default:
			if sp.StopAfter == 0 && sp.DrainAtMS == 0 && !res.Stuck && !res.Runaway {
				add("terminal:open", "message %s ended the history with last settlement %q (state %q)", m.ID, last.Action, f.State)
			}
		}
	}
	return out, js
}

// ---- driver ------------------------------------------------------------------

type checker struct {
	r        *runner.Run
	t        *testing.T
	deadline time.Time
	capped   bool
	reported map[string]bool
	samples  map[string]int
	maxLag   time.Duration
	chainMax int
	hClasses map[string]bool // VERIF_VERBOSE: the distinct classes of part h

	unanswered  bool // a jitter draw did not go through the harness-answered rand.Float64
	assumptions int  // histories in which a lease mutation failed (outside the statement's assumption)
}

// sample keeps at most n examples per part so that the six evidence samples cover all parts.
func (c *checker) sample(sp Spec, res Result, n int) {
	if c.samples == nil {
		c.samples = map[string]int{}
	}
	if c.samples[sp.Part] < n {
		c.samples[sp.Part]++
		c.r.Sample(summary(sp, res))
	}
}

func (c *checker) expired() bool {
	if time.Now().After(c.deadline) {
		if !c.capped {
			c.capped = true
			c.r.NotExhaustive("wall budget reached before the enumeration finished")
		}
		return true
	}
	return false
}

// run executes one history, judges it and reports; it returns the result for enumeration bookkeeping.
func (c *checker) run(sp Spec) Result {
	res := runHistory(c.t, sp)
	if res.Infra != "" {
		c.r.Infra("%s: %s", sp.Part, res.Infra)
		return res
	}
	finds, js := judge(sp, res)
	r := c.r
	if js.assumptionBroken != "" {
		r.Add("histories_outside_assumption_lease_mutation_failed", 1)
		if c.assumptions == 0 {
			fmt.Printf("ASSUMPTION-BROKEN property=C06 part=%s %s (history not judged)\n", sp.Part, js.assumptionBroken)
			r.NotExhaustive("a lease mutation failed on the store: histories outside the statement's assumption were not judged")
		}
		c.assumptions++
		return res
	}
	r.Add("evaluations", 1)
	r.Add(sp.Part+"_histories", 1)
	r.Add("sends_judged", int64(js.sends))
	r.Add("ref_ack", int64(js.refAck))
	r.Add("ref_retry", int64(js.refRetry))
	r.Add("ref_dead_no_retry", int64(js.refNoRetry))
	r.Add("ref_dead_max_retries", int64(js.refMaxRetries))
	r.Add("ref_dead_policy_denied", int64(js.refPolicy))
	r.Add("ref_nonsuccess_1xx_3xx", int64(js.refNon))
	if js.chainReqs > 0 {
		r.Add("h_requests_seen_by_the_network", int64(js.chainReqs))
		if js.chainMaxReqs > c.chainMax {
			c.chainMax = js.chainMaxReqs
			r.Set("h_info_most_requests_in_one_attempt", js.chainMaxReqs)
		}
	}
	for _, d := range js.distinct {
		r.Distinct(d)
		if c.hClasses != nil && strings.HasPrefix(sp.Part, "h") {
			c.hClasses[d] = true
		}
	}
	if js.lagged > 0 {
		r.Add("info_retries_scheduled_after_micro_batch_mates", int64(js.lagged))
		if js.maxLag > c.maxLag {
			c.maxLag = js.maxLag
			r.Set("info_max_deferral_of_retry_scheduling", js.maxLag.String())
		}
	}
	if c.reported == nil {
		c.reported = map[string]bool{}
	}
	for _, f := range finds {
		r.Add("violating_observations", 1)
		if c.reported[f.Key] {
			continue // one report per distinct failure class
		}
		c.reported[f.Key] = true
		key := f.Key
		r.Violation(key, f.Msg, sp, func() bool {
			again := runHistory(c.t, sp)
			fs, _ := judge(sp, again)
			for _, x := range fs {
				if x.Key == key {
					return true
				}
			}
			return false
		})
	}
	return res
}

func summary(sp Spec, res Result) map[string]any {
	out := map[string]any{"part": sp.Part, "store": sp.Store, "conc": sp.Conc, "http": sp.HTTP, "u": sp.U}
	if sp.Egress != "" {
		out["egress"] = sp.Egress
	}
	for _, m := range sp.Msgs {
		var l []string
		for _, s := range res.Logs[m.ID] {
			if !s.Delivered {
				continue
			}
			x := fmt.Sprintf("att%d:%s->%s", s.Attempt, s.Beh, s.Action)
			if s.Action == "nack" {
				x += "+" + s.Delay.String()
			}
			if s.Action == "dead" {
				x += "/" + s.Reason
			}
			if len(s.Wire) > 0 { // part h: what the in-memory network was asked during this send
				var w []string
				for _, q := range s.Wire {
					w = append(w, q.Method+" "+q.URL)
				}
				x += " {" + strings.Join(w, ", ") + "}"
			}
			l = append(l, x)
		}
		out[m.ID] = strings.Join(l, " ")
	}
	return out
}

func allAnswers() []Beh {
	var all []Beh
	for c := 100; c <= 599; c++ {
		all = append(all, st(c))
	}
	for _, k := range []string{"transport", "eof", "deadline", "deadline-bare", "hang", "policy", "policy-bare", "policy-url"} {
		all = append(all, Beh{Kind: k})
	}
	return all
}

// ---- (a) classification table ------------------------------------------------

func (c *checker) partA() {
	r := c.r
	type variant struct {
		store string
		http  bool
		maxes []int
	}
	variants := []variant{
		{"memory", false, []int{1, 2, 3}},
		{"memory", true, []int{1, 2, 3}},
		{"memory-nobatch", false, []int{1}},
	}
	if r.Thorough() {
		variants = []variant{
			{"memory", false, []int{1, 2, 3, 8}},
			{"memory", true, []int{1, 2, 3, 8}},
			{"memory-nobatch", false, []int{1, 2, 3}},
			{"memory-noret", false, []int{1, 2}},
			{"sqlite-noret", false, []int{2}},
			{"sqlite", true, []int{1}},
		}
	}
	answers := allAnswers()
	n := 0
	for _, v := range variants {
		for _, max := range v.maxes {
			tg := Tgt{Path: "/hook", Max: strconv.Itoa(max), Base: "1m", Cap: "4m", Jitter: "0", Timeout: "1s"}
			for attempt := 1; attempt <= max+2; attempt++ {
				for _, b := range answers {
					if v.http && (b.Kind == "deadline-bare" || b.Kind == "policy-bare" || b.Kind == "policy-url" || b.Kind == "deadline") {
						continue // shapes only an in-memory Deliverer can produce; hang/policy cover the real ones
					}
					if c.expired() {
						return
					}
					sp := Spec{Part: "a", Store: v.store, Targets: []Tgt{tg}, Conc: 1, HTTP: v.http, U: 0.5, StopAfter: 1,
						Msgs: []Msg{{ID: "m", Target: tg.URL(), PreAttempts: attempt - 1, Script: []Beh{b}}}}
					res := c.run(sp)
					if n%1777 == 5 {
						c.sample(sp, res, 1)
					}
					n++
				}
			}
		}
	}
}

// partA2: the classification table once more over the real HTTPDeliverer, with every fate of the answer's BODY after
// the status line and the headers have arrived (bodyShapes): every status code 100-599 x body shape x attempt number.
// Same cases in both tiers.
func (c *checker) partA2() {
	r := c.r
	n := 0
	for _, max := range []int{1, 2} {
		tg := Tgt{Path: "/hook", Max: strconv.Itoa(max), Base: "1m", Cap: "4m", Jitter: "0", Timeout: "1s"}
		for attempt := 1; attempt <= max+2; attempt++ {
			for code := 100; code <= 599; code++ {
				for _, shape := range bodyShapes {
					if c.expired() {
						return
					}
					b := st(code)
					b.Body = shape
					sp := Spec{Part: "a2", Store: "memory", Targets: []Tgt{tg}, Conc: 1, HTTP: true, U: 0.5, StopAfter: 1,
						Msgs: []Msg{{ID: "m", Target: tg.URL(), PreAttempts: attempt - 1, Script: []Beh{b}}}}
					res := c.run(sp)
					r.Add("a2_histories_with_a_body_shape", 1)
					if n%3911 == 17 {
						c.sample(sp, res, 1)
					}
					n++
				}
			}
		}
	}
	r.Set("a2_body_shapes", len(bodyShapes))
	// a whole life: the body shapes mixed with plain answers along one message's retries
	shaped := func(code int, shape string) Beh { b := st(code); b.Body = shape; return b }
	alpha := []Beh{st(200), st(503), shaped(200, "short"), shaped(200, "err0"), shaped(503, "reset"), shaped(404, "short"), shaped(429, "garbled"), shaped(302, "short")}
	tg := Tgt{Path: "/hook", Max: "2", Base: "2s", Cap: "2m", Jitter: "0.2", Timeout: "1s"}
	e := c.enumerate(alpha, 4, func(script []Beh) Spec {
		return Spec{Part: "a3", Store: "memory", Targets: []Tgt{tg}, Conc: 1, HTTP: true, U: 0.5,
			Msgs: []Msg{{ID: "m", Target: tg.URL(), Script: script}}}
	})
	r.Add("a3_distinct_histories", int64(len(e)))
}

// ---- (b) delay bounds over the compile-accepted grid -------------------------

func (c *checker) partB() {
	r := c.r
	maxes := []string{"1", "8", "100"}
	durs := []string{"1ms", "2s", "2m"}
	jits := []string{"0", "0.2", "1"}
	us := []float64{0, 0.5, math.Nextafter(1, 0)}
	attempts := 70
	stores := []string{"memory"}
	if r.Thorough() {
		maxes = []string{"0", "1", "2", "8", "100"}
		durs = []string{"0s", "1ms", "7ms", "2s", "2m", "10m"}
		jits = []string{"0", "0.2", "0.5", "1", "1.5"}
		us = []float64{0, math.SmallestNonzeroFloat64, 0.25, 0.5, 0.75, math.Nextafter(1, 0)}
	}
	mismatch := 0
	for _, mx := range maxes {
		for _, base := range durs {
			for _, cp := range durs {
				for _, j := range jits {
					tg := Tgt{Path: "/hook", Max: mx, Base: base, Cap: cp, Jitter: j, Timeout: "1s"}
					ok, _ := compileAccepts(dslText([]Tgt{tg}, 1))
					// reference of the documented compile rule (only used to make vacuity visible)
					rc, err := refConfig(tg)
					refOK := err == nil && rc.Max > 0 && rc.Base > 0 && rc.Cap > 0 && rc.Base <= rc.Cap &&
						rc.JNum.Sign() >= 0 && rc.JNum.Cmp(rc.JDen) <= 0
					if ok != refOK {
						mismatch++
					}
					if !ok {
						r.Add("ref_rejects", 1)
						r.Distinct(fmt.Sprintf("b:compile-rejects:base<=cap=%v", err == nil && rc.Base <= rc.Cap))
						continue
					}
					r.Add("ref_accepts", 1)
					if err != nil {
						r.Infra("b: compile accepted a retry config the harness cannot read: %+v", tg)
						continue
					}
					for _, u := range us {
						for _, store := range stores {
							if c.expired() {
								return
							}
							stop := attempts
							if rc.Max+1 < stop {
								stop = rc.Max + 1
							}
							sp := Spec{Part: "b", Store: store, Targets: []Tgt{tg}, Conc: 1, U: u, StopAfter: stop, MaxPerLife: 1000,
								Msgs: []Msg{{ID: "m", Target: tg.URL(), Script: []Beh{st(503)}}}}
							res := c.run(sp)
							retries := 0
							for _, s := range res.Logs["m"] {
								if s.Action == "nack" {
									retries++
								}
							}
							if j != "0" && retries > 0 && res.Draws == 0 && !c.unanswered {
								c.unanswered = true
								r.NotExhaustive("a retry with jitter > 0 was scheduled without a rand.Float64 draw: the harness could not answer the jitter source")
							}
							r.Add("b_jitter_draws_answered", int64(res.Draws))
							if mx == "8" && base == "2s" && cp == "2m" && j == "0.2" {
								c.sample(sp, res, 1)
							}
						}
					}
				}
			}
		}
	}
	r.Set("b_compile_vs_documented_rule_mismatches", mismatch)
}

// ---- (c) histories -----------------------------------------------------------

// enumerate runs every script of exactly `length` answers over the alphabet, except those that share the
// consumed prefix of an earlier run (the remaining answers were never asked for, so the history is the same).
// It returns the consumed prefixes (the distinct histories).
func (c *checker) enumerate(alpha []Beh, length int, mk func(script []Beh) Spec) [][]Beh {
	var effective [][]Beh
	done := map[string]bool{}
	keyOf := func(s []Beh) string {
		var b strings.Builder
		for _, x := range s {
			b.WriteString(x.String())
			b.WriteByte(',')
		}
		return b.String()
	}
	idx := make([]int, length)
	script := make([]Beh, length)
	for {
		for i, k := range idx {
			script[i] = alpha[k]
		}
		covered := false
		for n := 1; n <= length; n++ {
			if done[keyOf(script[:n])] {
				covered = true
				break
			}
		}
		if covered {
			c.r.Add("c_scripts_same_as_shorter_history", 1)
		} else {
			if c.expired() {
				return effective
			}
			sp := mk(append([]Beh(nil), script...))
			res := c.run(sp)
			used := 0
			for _, m := range sp.Msgs[:1] {
				for _, s := range res.Logs[m.ID] {
					if s.Delivered {
						used++
					}
				}
			}
			if used > length {
				used = length
				c.r.Add("c_histories_longer_than_script", 1)
			}
			if used < 1 {
				used = length
			}
			done[keyOf(script[:used])] = true
			effective = append(effective, append([]Beh(nil), script[:used]...))
			if len(effective)%17 == 3 {
				c.sample(sp, res, 2)
			}
		}
		// next script
		i := length - 1
		for ; i >= 0; i-- {
			idx[i]++
			if idx[i] < len(alpha) {
				break
			}
			idx[i] = 0
		}
		if i < 0 {
			return effective
		}
	}
}

func (c *checker) partC() {
	r := c.r
	small := []Beh{st(200), st(503), st(429), st(404), st(302), {Kind: "hang"}, {Kind: "policy"}}
	large := []Beh{st(200), st(204), st(500), st(503), st(429), st(408), st(404), st(400), st(302), st(100), {Kind: "hang"}, {Kind: "transport"}, {Kind: "policy"}}
	u1 := math.Nextafter(1, 0)
	type job struct {
		store string
		alpha []Beh
		maxes []int
		us    []float64
	}
	jobs := []job{
		{"memory", small, []int{1, 2}, []float64{0, u1}},
		{"memory-noret", small, []int{1, 2}, []float64{0}},
		{"sqlite", small, []int{1, 2}, []float64{0}},
		{"sqlite-noret", small, []int{1}, []float64{u1}},
		{"sqlite-nobatch", small, []int{1}, []float64{0}},
		{"memory-batchfail", small, []int{1, 2}, []float64{0}},
	}
	if r.Thorough() {
		jobs = []job{
			{"memory", large, []int{1, 2, 3}, []float64{0, u1}},
			{"memory", large, []int{1, 2}, []float64{0.5}},
			{"memory-noret", large, []int{1, 2, 3}, []float64{0}},
			{"memory-nobatch", large, []int{1, 2}, []float64{u1}},
			{"memory-nobatch", small, []int{3}, []float64{u1}},
			{"sqlite", large, []int{1, 2}, []float64{0}},
			{"sqlite", small, []int{3}, []float64{0.5}},
			{"sqlite-noret", small, []int{1, 2}, []float64{u1}},
			{"sqlite-nobatch", small, []int{1, 2}, []float64{0}},
			{"memory-batchfail", large, []int{1, 2}, []float64{0}},
		}
	}
	tgt := func(path string, max int) Tgt {
		return Tgt{Path: path, Max: strconv.Itoa(max), Base: "100ms", Cap: "250ms", Jitter: "0.2", Timeout: "1s"}
	}
	eff := map[int][][]Beh{}
	// single target, one worker, one message; without and with one DLQ requeue
	for ji, j := range jobs {
		for _, max := range j.maxes {
			for ui, u := range j.us {
				for _, requeue := range []int{0, 1} {
					tg := tgt("/hook", max)
					length := max + 2 + requeue
					e := c.enumerate(j.alpha, length, func(script []Beh) Spec {
						return Spec{Part: "c", Store: j.store, Targets: []Tgt{tg}, Conc: 1, HTTP: true, U: u, Requeue: requeue,
							Msgs: []Msg{{ID: "m", Target: tg.URL(), Script: script}}}
					})
					if ji == 0 && ui == 0 && requeue == 0 {
						eff[max] = e
					}
					r.Add("c_distinct_single_histories", int64(len(e)))
					r.Add("c_distinct_single_histories_"+j.store, int64(len(e)))
				}
			}
		}
	}
	if c.capped {
		return
	}
	// the distinct histories over the small alphabet (a subset in the thorough tier)
	inSmall := func(sc []Beh) bool {
		for _, b := range sc {
			found := false
			for _, x := range small {
				if x == b {
					found = true
				}
			}
			if !found {
				return false
			}
		}
		return true
	}
	effSmall := map[int][][]Beh{}
	for max, l := range eff {
		for _, sc := range l {
			if inSmall(sc) {
				effSmall[max] = append(effSmall[max], sc)
			}
		}
	}
	// two targets on one route (per-action lease mutations), one and two workers: every pair of distinct histories
	type pair struct {
		ma, mb  int
		concs   []int
		scripts map[int][][]Beh
	}
	pairs := []pair{{1, 1, []int{1, 2}, eff}, {1, 2, []int{1, 2}, eff}}
	if r.Thorough() {
		pairs = []pair{{1, 1, []int{1, 2}, eff}, {1, 2, []int{1, 2}, eff}, {2, 2, []int{1, 2}, effSmall}, {3, 1, []int{2}, effSmall}}
	}
	for _, pm := range pairs {
		ta, tb := tgt("/a", pm.ma), tgt("/b", pm.mb)
		tb.Base, tb.Cap = "150ms", "400ms"
		for _, conc := range pm.concs {
			for _, sa := range pm.scripts[pm.ma] {
				for _, sb := range pm.scripts[pm.mb] {
					if c.expired() {
						return
					}
					sp := Spec{Part: "c2", Store: "memory", Targets: []Tgt{ta, tb}, Conc: conc, HTTP: true, U: 0,
						Msgs: []Msg{{ID: "ma", Target: ta.URL(), Script: sa}, {ID: "mb", Target: tb.URL(), Script: sb}}}
					res := c.run(sp)
					if len(sa) > 1 && len(sb) > 1 {
						c.sample(sp, res, 1)
					}
				}
			}
		}
	}
	// one target, several workers and messages (batched dequeue and batched lease mutations): every tuple
	type multi struct {
		conc, msgs, max int
		scripts         map[int][][]Beh
	}
	multis := []multi{{2, 2, 1, eff}, {2, 2, 2, eff}, {4, 3, 1, effSmall}}
	if r.Thorough() {
		multis = []multi{{2, 2, 1, eff}, {2, 2, 2, eff}, {4, 3, 1, effSmall}, {3, 3, 1, effSmall}, {4, 2, 2, effSmall}}
	}
	for _, mu := range multis {
		tg := tgt("/hook", mu.max)
		scripts := mu.scripts[mu.max]
		if len(scripts) == 0 {
			continue
		}
		idx := make([]int, mu.msgs)
		for {
			if c.expired() {
				return
			}
			sp := Spec{Part: "c3", Store: "memory", Targets: []Tgt{tg}, Conc: mu.conc, HTTP: true, U: 0}
			for i, k := range idx {
				sp.Msgs = append(sp.Msgs, Msg{ID: fmt.Sprintf("m%d", i), Target: tg.URL(), Script: scripts[k]})
			}
			res := c.run(sp)
			if idx[0] == 1 && idx[mu.msgs-1] == 2 {
				c.sample(sp, res, 1)
			}
			i := mu.msgs - 1
			for ; i >= 0; i-- {
				idx[i]++
				if idx[i] < len(scripts) {
					break
				}
				idx[i] = 0
			}
			if i < 0 {
				break
			}
		}
	}
}

// ---- (d) stop while deliveries are in flight ---------------------------------

// partD: "Drain ... waits for in-flight deliveries to complete" — every delivery result obtained while the
// dispatcher drains must still be settled. Three messages whose answers take 300ms each; Drain is requested
// during the first, second or third delivery; route shapes with per-action, batched and micro-batched mutations.
func (c *checker) partD() {
	answers := []Beh{st(200), st(503), st(404), st(302), st(429), {Kind: "transport"}}
	if c.r.Thorough() {
		answers = append(answers, st(204), st(500), st(408), st(400), st(100), Beh{Kind: "eof"})
	}
	tg := Tgt{Path: "/hook", Max: "2", Base: "100ms", Cap: "250ms", Jitter: "0.2", Timeout: "1s"}
	tb := Tgt{Path: "/b", Max: "2", Base: "100ms", Cap: "250ms", Jitter: "0.2", Timeout: "1s"}
	for _, conc := range []int{1, 2, 3, 4} {
		for _, two := range []bool{false, true} {
			for _, drainAt := range []int{100, 400, 700} {
				for _, store := range []string{"memory", "sqlite"} {
					if store == "sqlite" && !(c.r.Thorough() || (conc == 2 && !two)) {
						continue
					}
					for _, b := range answers {
						if c.expired() {
							return
						}
						slow := b
						slow.SlowMS = 300
						sp := Spec{Part: "d", Store: store, Targets: []Tgt{tg}, Conc: conc, HTTP: true, U: 0.5, DrainAtMS: drainAt}
						if two {
							sp.Targets = []Tgt{tg, tb}
						}
						for i := 0; i < 3; i++ {
							t := tg
							if two && i == 1 {
								t = tb
							}
							sp.Msgs = append(sp.Msgs, Msg{ID: fmt.Sprintf("m%d", i), Target: t.URL(), Script: []Beh{slow}})
						}
						res := c.run(sp)
						if conc == 2 && !two && drainAt == 100 {
							c.sample(sp, res, 1)
						}
					}
				}
			}
		}
	}
}

// ---- entry -------------------------------------------------------------------

func TestCheck(t *testing.T) {
	r := runner.Start("C06", "exploration")
	c := &checker{r: r, t: t, deadline: r.Deadline(75*time.Second, 14*time.Minute)}

	if p := runner.ReplayPath(); p != "" {
		raw, err := os.ReadFile(p)
		if err != nil {
			r.Infra("replay: %v", err)
			r.Finish()
		}
		if c.replayWire(raw) { // a case of part (e), wire_test.go (finishes the run itself)
			return
		}
		var f struct {
			Replay Spec `json:"replay"`
		}
		if err := json.Unmarshal(raw, &f); err != nil {
			r.Infra("replay: %v", err)
			r.Finish()
		}
		res := c.run(f.Replay)
		b, _ := json.MarshalIndent(summary(f.Replay, res), "", " ")
		fmt.Printf("REPLAY %s\n", b)
		r.Sample(summary(f.Replay, res))
		r.NotExhaustive("replay of one case")
		r.Set("rule", "replay of one recorded history")
		r.Finish()
	}

	for _, part := range []struct {
		name string
		f    func()
	}{{"a", c.partA}, {"a2", c.partA2}, {"b", c.partB}, {"i", c.partI}, {"j", c.partJ}, {"h", c.partH}, {"g", c.partG}, {"f", c.partF}, {"c", c.partC}, {"d", c.partD}, {"e", c.partWire}} {
		if only := os.Getenv("VERIF_C06_ONLY"); only != "" && !strings.Contains(","+only+",", ","+part.name+",") {
			r.NotExhaustive("VERIF_C06_ONLY=" + only + ": part " + part.name + " skipped (development aid)")
			continue
		}
		t0 := time.Now()
		if part.name == "c" {
			c.deadline = c.deadline.Add(-15 * time.Second) // keep room for the small parts d and e
		}
		part.f()
		if part.name == "c" {
			c.deadline = c.deadline.Add(15 * time.Second)
		}
		r.Set("wall_s_part_"+part.name, math.Round(time.Since(t0).Seconds()*10)/10)
	}

	r.Set("rule", "every case is one history on the real PushDispatcher in a synctest bubble (real store behind a recorder, scripted target): "+
		"(a) every answer (status 100..599 and 8 error shapes) x attempt 1..max+2 x retry.max on one leased message; "+
		"(b) every compile-accepted retry config of the DSL grid x every attempt up to 70 (or max+1) x every harness-answered jitter draw; "+
		"(c) every answer sequence of length retry.max+2 (+1 with one DLQ requeue) over the behaviour alphabet per store variant "+
		"(scripts that only differ after the last answer asked for are the same history and run once), every pair of distinct histories on two-target routes, every tuple on multi-worker single-target routes; "+
		"(d) Drain requested during the 1st/2nd/3rd of three slow deliveries x route shape x answer; "+
		"(f) all distinct requeue-cycle histories of (c) (retry.max 1; thorough also 2) as one message each in ONE store that other traffic goes through (1500 messages per placement, every 8th dead-lettered; thorough also 1100 and 4200): "+
		"store variant x operator action that starts the new cycle {requeue-dead, requeue-messages, requeue-by-filter, cancel+resume} x placement of the other traffic {before, with, while parked in the DLQ, right after the restart; thorough: every non-empty subset} x {same target, second target of the route, other route}; "+
		"(g) every ordered pair of 8 deliver-block kinds {2 full blocks, max only, base+cap only, cap only, jitter only, timeout only, empty} (triples: 4 kinds, thorough all 8) x defaults.deliver {written, partial, none} x {one route, one route per target} x 6 answer scripts (always 503 at both jitter extremes, 429-408-200, hang, 200 after 300ms/1s/5s), one message per target, each judged against its own written settings. "+
		"(h) redirects below the real HTTPDeliverer + real http.Client (in-memory network of several hosts, table resolver, egress policy compiled from written text): 10 egress policies {no rule, deny host, deny *.domain, deny cidr, allow hosts, allow cidr, https_only, dns_rebind_protection, nothing written = documented defaults, allow+deny mixed} x redirects {on, off; not written for two} x retry.max x attempt 1..max+2 x every redirect chain of the alphabet "+
		"{direct answer; 301/302/303/307/308 to an allowed place that answers 2xx/5xx/4xx/reset (thorough: 10 answers), to the same host (relative Location), to a place each kind of rule of the policy refuses, without / with an unusable Location, a second hop allowed->refused and allowed->allowed->answer, a loop; 300/304/305/399 with a Location}, "+
		"plus every sequence of retry.max+2 attempts (+1 with a DLQ requeue) over a 7-10 chain alphabet for deny-host / defaults (thorough: + rebind, more store variants); "+
		"(i) answers that carry a scheduling hint, over the real HTTPDeliverer: status {200, 302, 404, 408, 429, 500, 502, 503, 504} x header line {none; Retry-After 0 / 1 / 30 / 3600 / negative / not a number / an HTTP date in the past / in 1h / in 2100; RateLimit-Reset, X-RateLimit-Reset, X-RateLimit-Reset-After 0 and 3600} x 2 retry configs x both jitter extremes, the same answer until the message is terminal (every attempt 1..max+1 judged), plus every answer sequence of length retry.max+2 over a 6-answer alphabet with and without hints; "+
			"(j) all distinct histories of (c) (+ one DLQ requeue cycle) on the store the production wiring opens from the text (queue backend memory / sqlite) x written retention blocks {none = documented defaults, short intervals, delivered_retention on, retention off}, the store staying in use for 3 (thorough 5) x (prune_interval + 1s) of virtual time after the settlement - less than any max_age - before the attempt log and the final state are read; "+
			"distinct_nontrivial counts (part, input class, attempt<=max?, observed settlement), (part, jitter, capped?, position in the delay window) and (part, store, sends, terminal state) classes")
	r.Assume("lease mutations on the store succeed (statement) and leases do not expire during a delivery (lease TTL >= 30s, target timeout 1s); a history with a failed lease mutation is counted and not judged; a store whose batch extension fails is covered because the per-action fallback succeeds")
	r.Assume("the delivery target is an in-memory Deliverer (part a, b) or the real HTTPDeliverer with the compiled egress policy over an in-memory RoundTripper (parts a, c, d); no sockets, DNS or TLS; policy denials in parts c/d come from the real egress check (deny rule)")
	r.Assume("retry delays are compared with a 2ns tolerance for float64 rounding and truncation to whole nanoseconds")
	r.Assume("jitter draws are answered by the harness through the math/rand -> vrand import rewrite of dispatcher/push.go; answers {0, 0.5, largest float < 1} (thorough: six values); any other source of randomness would be flagged as not exhaustive")
	r.Assume("Postgres backend not executed; with several workers the interleaving inside a bubble is the Go scheduler's (the per-message oracle is schedule independent), no controlled preemption search; SQLite long-poll shortened to 250ms in the harness-built dispatcher")
	r.Assume("retry.max, base, cap, jitter and timeout of the oracle are read from the configuration text, not from the compiled config: the real Parse/Compile/buildDispatchRoutes mapping is inside the checked path; a setting a deliver block does not write is the one of the written defaults.deliver block, else the documented built-in default (max 8, base 2s, cap 2m, jitter 0.2, timeout 10s)")
	r.Assume("part (g): an answer that arrives later than the target's own timeout counts as a timeout (retryable) whatever its status; answer delays {300ms, 1s, 5s} never coincide with a timeout of the grid")
	r.Assume("part (h): which places a policy refuses is written by hand next to the rule (redirPolicy.Refused), never computed from the policy; under redirects on a 301/302/303/307/308 whose Location the policy refuses must end dead policy_denied by that attempt (statement + docs: every hop is checked like the target) and the refused place is never requested; " +
		"a 3xx that is not followed (redirects off, no/unusable Location, a status that is no redirect instruction, a loop cut off by the client) is judged as the statement judges a 3xx: never success, retried only while attempt <= retry.max, dead only with a reason - whether an ALLOWED hop is followed at all, with which method and body, and where a loop is cut (observed: 10 requests) is not C06's business; no TLS: https places exist only as URLs of the in-memory network")
	r.Assume("part (a2): the answer's status line and headers have arrived; what the body does afterwards is one of " + strings.Join(bodyShapes, ", ") + " (in-memory transport: every status code; real sockets, part e1: a body shorter than its Content-Length and a chunked body without terminator, each ended by an orderly close - a reset right after the headers is not deterministic on a real socket and is enumerated in memory only); the class is that of the status code (statement: 2xx acks, other 4xx no_retry, ...); a body that stays silent beyond the target's timeout is not enumerated (the statement does not say whether that is a timeout or a 2xx)")
	r.Assume("part (i): one extra header line per answer (Retry-After in both syntaxes, three rate-limit reset headers), in-memory transport only; hints in the answer body or through the real-socket part (e) are not enumerated; HTTP dates are relative to the bubble's virtual clock (2000-01-01T00:00:00Z)")
	r.Assume("part (j): prune_interval and the smallest max_age of the oracle are read from the written retention blocks, else the documented defaults (7d / 5m, dlq 30d / 10000, delivered off); the idle phase (3 or 5 steps of prune_interval+1s, less than half of any max_age) starts after Drain and consists of an idle worker poll, a DLQ listing and a backlog listing per step; what may disappear once a max_age has passed is not judged here")
	r.Assume("part (f): the other traffic is not judged message by message, only that all of it ends delivered or dead-lettered; whether the store's internal thresholds were actually crossed is not observable from outside (the sizes are chosen above the memory store's 1024-entry order-list compaction threshold); with two workers the interleaving of judged and other messages is the Go scheduler's")
	r.Finish()
}
