package c06

// Parts (f) and (g), added after two independently seeded changes that parts (a)-(e) missed (MUTANTS.md, wave 3):
//
//	(f) the DLQ/operator requeue cycles of part (c) on a store that OTHER traffic went through - enough of it to cross
//	    the size thresholds of the store's bookkeeping (>= 1100 messages; the memory store compacts its dequeue-order
//	    list from 1024 entries on) - before, together with, while-parked and after the operator's restart, on the same
//	    target / a second target of the route / another route, for every operator action that starts a new cycle;
//	(g) configurations whose deliver blocks DIFFER: every ordered pair (triple) of setting kinds {full block, partial
//	    blocks, empty block} x written / partial / no defaults.deliver x one route or one route per target; each target
//	    is judged against its OWN written settings.
//
// The configuration text is generated here and the reference reads the same text (effectiveTgt): own block, else the
// written defaults.deliver block, else the documented built-in defaults. Nothing is read from the compiled config.

import (
	"fmt"
	"math"
	"os"
	"strconv"
	"strings"
	"time"
)

// documented built-in defaults (docs/delivery.md "Default Retry Settings", DESIGN.md "deliver: retry exponential ...")
var builtinDeliver = Tgt{Max: "8", Base: "2s", Cap: "2m", Jitter: "0.2", Timeout: "10s"}

// effectiveTgt resolves what a deliver block does not write: "Each deliver block can override the defaults".
func effectiveTgt(t Tgt, d *Tgt) Tgt {
	pick := func(own, def, builtin string) string {
		if own != "" {
			return own
		}
		if def != "" {
			return def
		}
		return builtin
	}
	var dd Tgt
	if d != nil {
		dd = *d
	}
	t.Max = pick(t.Max, dd.Max, builtinDeliver.Max)
	t.Base = pick(t.Base, dd.Base, builtinDeliver.Base)
	t.Cap = pick(t.Cap, dd.Cap, builtinDeliver.Cap)
	t.Jitter = pick(t.Jitter, dd.Jitter, builtinDeliver.Jitter)
	t.Timeout = pick(t.Timeout, dd.Timeout, builtinDeliver.Timeout)
	return t
}

func (t Tgt) route() string {
	if t.Route != "" {
		return t.Route
	}
	return routePath
}

// deliverBody writes the retry/timeout lines of a block; only what the Tgt has. rev: timeout first and the retry
// keywords in the opposite order (the grammar accepts any order).
func deliverBody(t Tgt, indent string) string {
	var kv []string
	for _, p := range [][2]string{{"max", t.Max}, {"base", t.Base}, {"cap", t.Cap}, {"jitter", t.Jitter}} {
		if p[1] != "" {
			kv = append(kv, p[0]+" "+p[1])
		}
	}
	if t.Rev {
		for i, j := 0, len(kv)-1; i < j; i, j = i+1, j-1 {
			kv[i], kv[j] = kv[j], kv[i]
		}
	}
	retry, timeout := "", ""
	if len(kv) > 0 {
		retry = indent + "retry exponential " + strings.Join(kv, " ") + "\n"
	}
	if t.Timeout != "" {
		timeout = indent + "timeout " + t.Timeout + "\n"
	}
	if t.Rev {
		return timeout + retry
	}
	return retry + timeout
}

var burstTgt = Tgt{Path: "/burst", Max: "1", Base: "100ms", Cap: "250ms", Jitter: "0", Timeout: "1s"}

const burstRoute = "/burst"

// specDSL is the configuration text of a history without the listener lines (bootWorld adds them: the addresses
// are placeholders of the in-memory network and must be unique per boot).
func specDSL(sp Spec) string {
	var b strings.Builder
	if sp.Egress != "" {
		b.WriteString("defaults {\n" + redirEgressBlock(sp.Egress)) // part h (redir_test.go)
	} else {
		b.WriteString("defaults {\n  egress {\n    deny \"" + deniedHost + "\"\n    https_only off\n    redirects off\n    dns_rebind_protection off\n  }\n")
	}
	if sp.Defaults != nil {
		b.WriteString("  deliver {\n" + deliverBody(*sp.Defaults, "    ") + "  }\n")
	}
	b.WriteString("}\n")
	var routes []string
	by := map[string][]Tgt{}
	for _, t := range sp.Targets {
		if _, ok := by[t.route()]; !ok {
			routes = append(routes, t.route())
		}
		by[t.route()] = append(by[t.route()], t)
	}
	if sp.Burst != nil && sp.Burst.On == "target2" {
		by[routePath] = append(by[routePath], burstTgt)
	}
	backend, wired := strings.CutPrefix(sp.Store, "wired-")
	if wired {
		b.WriteString(retainBlocks[sp.Retain].text) // part j (retain_test.go)
	}
	for _, rt := range routes {
		fmt.Fprintf(&b, "%s {\n  deliver_concurrency %d\n", rt, sp.Conc)
		if wired {
			fmt.Fprintf(&b, "  queue { backend %s }\n", backend)
		}
		for _, t := range by[rt] {
			fmt.Fprintf(&b, "  deliver \"%s\" {\n%s  }\n", t.URL(), deliverBody(t, "    "))
		}
		b.WriteString("}\n")
	}
	if sp.Burst != nil && sp.Burst.On == "route2" {
		fmt.Fprintf(&b, "%s {\n  deliver_concurrency 4\n  deliver \"%s\" {\n%s  }\n}\n", burstRoute, burstTgt.URL(), deliverBody(burstTgt, "    "))
	}
	return b.String()
}

// ---- other traffic -----------------------------------------------------------

// Burst is other traffic through the same store and dispatcher: N messages per placement, answered 204 (Mixed: every
// 8th one 404, which ends in the DLQ as no_retry and stays there).
type Burst struct {
	N     int      `json:"n"`
	At    []string `json:"at"`    // before (delivered before the judged messages exist) | with (enqueued right behind them) | parked (delivered while they sit in the DLQ / canceled) | restarted (enqueued right behind the operator's restart)
	On    string   `json:"on"`    // same (route and target of the judged messages) | target2 (second target of their route) | route2 (another route)
	Mixed bool     `json:"mixed"` // every 8th message is answered 404
}

func (b *Burst) at(tag string) bool {
	for _, a := range b.At {
		if a == tag {
			return true
		}
	}
	return false
}

func (b *Burst) answer(id string) Beh {
	if b.Mixed && len(id) >= 5 {
		if n, err := strconv.Atoi(id[len(id)-5:]); err == nil && n%8 == 7 {
			return st(404)
		}
	}
	return st(204)
}

func (b *Burst) routeTarget(sp Spec) (route, target string) {
	switch b.On {
	case "same":
		return sp.Msgs[0].route(), sp.Msgs[0].Target
	case "target2":
		return routePath, burstTgt.URL()
	}
	return burstRoute, burstTgt.URL()
}

func restartName(s string) string {
	if s == "" {
		return "requeue-dead"
	}
	return s
}

// ---- (f) requeue cycles on a store that other traffic went through -----------

func (c *checker) partF() {
	r := c.r
	small := []Beh{st(200), st(503), st(429), st(404), st(302), {Kind: "hang"}, {Kind: "policy"}}
	tgt := func(max int) Tgt {
		return Tgt{Path: "/hook", Max: strconv.Itoa(max), Base: "100ms", Cap: "250ms", Jitter: "0.2", Timeout: "1s"}
	}
	// the distinct requeue-cycle histories of part (c) (answer sequences of length retry.max+3 with one restart,
	// reduced to the answers actually asked for), found on a quiet store; all of them then live together - one
	// message each - in the store the other traffic goes through
	maxes := []int{1}
	if r.Thorough() {
		maxes = []int{1, 2}
	}
	msgsFor := map[int][]Msg{}
	for _, max := range maxes {
		tg := tgt(max)
		e := c.enumerate(small, max+3, func(script []Beh) Spec {
			return Spec{Part: "f0", Store: "memory", Targets: []Tgt{tg}, Conc: 1, HTTP: true, U: 0, Requeue: 1,
				Msgs: []Msg{{ID: "m", Target: tg.URL(), Script: script}}}
		})
		if c.capped {
			return
		}
		for i, sc := range e {
			msgsFor[max] = append(msgsFor[max], Msg{ID: fmt.Sprintf("m%04d", i), Target: tg.URL(), Script: sc})
		}
		r.Add("f_judged_messages_per_history_max"+strconv.Itoa(max), int64(len(e)))
	}

	type job struct {
		store    string
		restarts []string
		ats      [][]string
		ons      []string
		mixed    []bool
		ns       []int
		maxes    []int
		noHang   bool // only the judged messages whose script has no hanging answer (SQLite polls in virtual time: a history full of 1s timeouts is expensive there)
	}
	allRestarts := []string{"", "requeue-messages", "requeue-filter", "cancel-resume"}
	single := [][]string{{"parked"}, {"before"}, {"with"}, {"restarted"}}
	all4 := []string{"before", "with", "parked", "restarted"}
	jobs := []job{
		// the placement that matters most, on every route shape
		{"memory", allRestarts, [][]string{{"parked"}}, []string{"route2", "same", "target2"}, []bool{true}, []int{1500}, []int{1}, false},
		{"memory-noret", allRestarts, [][]string{{"parked"}}, []string{"route2", "same", "target2"}, []bool{true}, []int{1500}, []int{1}, false},
		// the other placements and all four together
		{"memory", []string{"", "cancel-resume"}, single[1:], []string{"route2"}, []bool{true}, []int{1500}, []int{1}, false},
		{"memory-noret", []string{"", "cancel-resume"}, append(single[1:], all4), []string{"route2"}, []bool{false}, []int{1500}, []int{1}, false},
		{"sqlite", []string{""}, [][]string{{"parked"}}, []string{"route2"}, []bool{true}, []int{1500}, []int{1}, true},
	}
	if r.Thorough() {
		var subsets [][]string
		for m := 1; m < 16; m++ {
			var s []string
			for i, a := range all4 {
				if m&(1<<i) != 0 {
					s = append(s, a)
				}
			}
			subsets = append(subsets, s)
		}
		parked := [][]string{{"parked"}}
		both := []string{"", "cancel-resume"}
		jobs = []job{
			{"memory-noret", allRestarts, subsets, []string{"route2", "same", "target2"}, []bool{true}, []int{1500}, []int{1}, false},
			{"memory-noret", allRestarts, parked, []string{"route2", "same", "target2"}, []bool{false}, []int{1100, 4200}, []int{1}, false},
			{"memory", allRestarts, single, []string{"route2", "same", "target2"}, []bool{true}, []int{1500}, []int{1}, false},
			{"memory", allRestarts, parked, []string{"route2", "same", "target2"}, []bool{false}, []int{1100, 2600}, []int{1}, false},
			{"memory", both, [][]string{all4}, []string{"route2"}, []bool{true}, []int{1100}, []int{1}, false},
			{"memory-noret", allRestarts, append(single, all4), []string{"route2", "same"}, []bool{true}, []int{1500}, []int{2}, false},
			{"memory", allRestarts, parked, []string{"route2", "same"}, []bool{true}, []int{1500}, []int{2}, false},
			{"memory-nobatch", allRestarts, single, []string{"same"}, []bool{true}, []int{1500}, []int{1}, false},
			{"sqlite", allRestarts, parked, []string{"route2", "same", "target2"}, []bool{true}, []int{1500}, []int{1}, true},
			{"sqlite", both, single[1:], []string{"route2"}, []bool{true}, []int{1500}, []int{1}, true},
			{"sqlite-noret", allRestarts, parked, []string{"route2"}, []bool{true}, []int{1500}, []int{1}, true},
		}
	}
	for _, j := range jobs {
		for _, max := range j.maxes {
			msgs := msgsFor[max]
			if j.noHang {
				msgs = nil
				for _, m := range msgsFor[max] {
					hang := false
					for _, b := range m.Script {
						hang = hang || b.Kind == "hang"
					}
					if !hang {
						msgs = append(msgs, m)
					}
				}
			}
			if len(msgs) == 0 {
				continue
			}
			tg := tgt(max)
			for _, restart := range j.restarts {
				for _, at := range j.ats {
					for _, on := range j.ons {
						for _, mixed := range j.mixed {
							for _, n := range j.ns {
								if restart == "requeue-filter" && on == "same" && mixed {
									// the filter action handles at most 1000 messages per call: the judged dead letters and
									// the dead other traffic on the same target must fit into one call
									before := 0
									for _, a := range at {
										if a != "restarted" {
											before++
										}
									}
									if len(msgs)+before*(n/8+1) > 1000 {
										r.Add("f_combinations_beyond_the_filter_limit_of_1000", 1)
										continue
									}
								}
								if c.expired() {
									return
								}
								sp := Spec{Part: "f", Store: j.store, Targets: []Tgt{tg}, Conc: 2, HTTP: true, U: 0, Requeue: 1, Restart: restart,
									HorizonS: 3600, Msgs: msgs, Burst: &Burst{N: n, At: at, On: on, Mixed: mixed}}
								t0 := time.Now()
								res := c.run(sp)
								if os.Getenv("C06_DEBUG") != "" {
									fmt.Printf("DEBUG f %s %s at=%v on=%s mixed=%v n=%d: %s (virtual %s)\n", j.store, restartName(restart), at, on, mixed, n, time.Since(t0).Round(time.Millisecond), time.Duration(res.VirtualNS))
								}
								if res.Infra != "" {
									return
								}
								r.Add("f_cycles_started_by_operator", int64(len(res.Restarts)))
								r.Add("f_other_messages_through_the_store", int64(res.OtherSent))
								r.Distinct(fmt.Sprintf("f:%s:%s:other-traffic@%s:on=%s:mixed=%v:n=%d:max=%d", j.store, restartName(restart), strings.Join(at, "+"), on, mixed, n, max))
								if c.samples == nil {
									c.samples = map[string]int{}
								}
								if len(at) == 1 && at[0] == "parked" && on == "route2" && restart == "" && c.samples["f"] < 1 {
									c.samples["f"]++
									c.r.Sample(map[string]any{"part": "f", "store": j.store, "restart": restartName(restart), "other_traffic": sp.Burst,
										"judged_messages": len(msgs), "cycles_started_by_operator": len(res.Restarts), "example": summary(Spec{Part: "f", Store: j.store, Msgs: msgs[len(msgs)/2 : len(msgs)/2+1]}, res)})
								}
							}
						}
					}
				}
			}
		}
	}
}

// ---- (g) deliver blocks that differ ------------------------------------------

type cfgKind struct {
	name string
	t    Tgt
}

func (c *checker) partG() {
	r := c.r
	kinds := []cfgKind{
		{"full-a", Tgt{Max: "1", Base: "40ms", Cap: "90ms", Jitter: "0", Timeout: "200ms"}},
		{"full-b", Tgt{Max: "3", Base: "70ms", Cap: "500ms", Jitter: "0.5", Timeout: "2s", Rev: true}},
		{"max-only", Tgt{Max: "4"}},
		{"delay-only", Tgt{Base: "30ms", Cap: "60ms"}},
		{"cap-only", Tgt{Cap: "80ms"}}, // base <= cap only under the written defaults below
		{"jitter-only", Tgt{Jitter: "1"}},
		{"timeout-only", Tgt{Timeout: "150ms"}},
		{"none", Tgt{}},
	}
	tripleKinds := []int{0, 2, 3, 7}
	type defs struct {
		name string
		d    *Tgt
	}
	defaults := []defs{
		{"written", &Tgt{Max: "2", Base: "50ms", Cap: "120ms", Jitter: "0.2", Timeout: "400ms"}},
		{"built-in", nil},
		{"partial", &Tgt{Max: "5", Timeout: "700ms"}},
	}
	u1 := math.Nextafter(1, 0)
	type script struct {
		name string
		s    []Beh
		us   []float64
	}
	slow := func(ms int) Beh { return Beh{Kind: "status", Code: 200, SlowMS: ms} }
	scripts := []script{
		{"fail", []Beh{st(503)}, []float64{0, u1}},
		{"recover", []Beh{st(429), st(408), st(200)}, []float64{0.5}},
		{"hang", []Beh{{Kind: "hang"}}, []float64{0.5}},
		{"slow300", []Beh{slow(300)}, []float64{0.5}},
		{"slow1000", []Beh{slow(1000)}, []float64{0.5}},
		{"slow5000", []Beh{slow(5000)}, []float64{0.5}},
	}
	layouts := map[int][]string{2: {"one-route", "own-routes"}, 3: {"one-route"}}
	concs := []int{1}
	stores := []string{"memory"}
	if r.Thorough() {
		tripleKinds = []int{0, 1, 2, 3, 4, 5, 6, 7}
		layouts = map[int][]string{2: {"one-route", "own-routes"}, 3: {"one-route", "own-routes", "2+1"}}
		concs = []int{1, 2}
		stores = []string{"memory", "sqlite"}
	}
	mismatch := 0
	for _, n := range []int{2, 3} {
		ks := make([]int, len(kinds))
		for i := range ks {
			ks[i] = i
		}
		if n == 3 {
			ks = tripleKinds
		}
		idx := make([]int, n)
		for {
			for _, df := range defaults {
				for _, layout := range layouts[n] {
					var targets []Tgt
					var names []string
					refOK := true
					for pos, k := range idx {
						t := kinds[ks[k]].t
						t.Kind = kinds[ks[k]].name
						t.Path = fmt.Sprintf("/t%d", pos)
						switch layout {
						case "own-routes":
							t.Route = fmt.Sprintf("/r%d", pos)
						case "2+1":
							if pos == 2 {
								t.Route = "/r2"
							}
						}
						targets = append(targets, t)
						names = append(names, t.Kind)
						rc, err := refConfig(effectiveTgt(t, df.d))
						refOK = refOK && err == nil && rc.Max > 0 && rc.Base > 0 && rc.Cap > 0 && rc.Base <= rc.Cap
					}
					for _, conc := range concs {
						ok, _ := compileAccepts(specDSL(Spec{Targets: targets, Conc: conc, Defaults: df.d}))
						if ok != refOK {
							mismatch++
						}
						if !ok {
							r.Add("ref_rejects", 1)
							r.Distinct(fmt.Sprintf("g:compile-rejects:reference-says-base<=cap=%v", refOK))
							continue
						}
						r.Add("ref_accepts", 1)
						for pos := 1; pos < n; pos++ {
							r.Distinct(fmt.Sprintf("g:cfg:%s-after-%s:defaults=%s:%s", names[pos], names[pos-1], df.name, layout))
						}
						for _, sc := range scripts {
							for _, u := range sc.us {
								for _, store := range stores {
									if c.expired() {
										return
									}
									if store != "memory" && !(n == 2 && df.name == "written" && sc.name == "fail" && conc == 1) {
										continue // the store is not what this part varies: SQLite only on the cheapest slice
									}
									sp := Spec{Part: "g", Store: store, Targets: targets, Conc: conc, HTTP: true, U: u, MaxPerLife: 14, Defaults: df.d}
									for pos, t := range targets {
										sp.Msgs = append(sp.Msgs, Msg{ID: fmt.Sprintf("m%d", pos), Target: t.URL(), Route: t.route(), Script: sc.s})
									}
									res := c.run(sp)
									if res.Infra != "" {
										return
									}
									if sc.name == "fail" && u == 0 && names[0] == "full-a" && names[n-1] == "none" {
										c.sample(sp, res, 1)
									}
								}
							}
						}
					}
				}
			}
			i := n - 1
			for ; i >= 0; i-- {
				idx[i]++
				if idx[i] < len(ks) {
					break
				}
				idx[i] = 0
			}
			if i < 0 {
				break
			}
		}
	}
	r.Set("g_compile_vs_reference_base<=cap_mismatches", mismatch)
}
