package c06

// The world a history runs in: real config compile + real app mapping to
// dispatcher.RouteConfig, a real queue store behind a transparent recorder, a
// scripted delivery target (in-memory Deliverer or the real HTTPDeliverer over
// an in-memory RoundTripper), the real PushDispatcher inside a synctest bubble.

import (
	"context"
	"errors"
	"fmt"
	"io"
	"log/slog"
	"net"
	"net/http"
	"net/url"
	"os"
	"path/filepath"
	"sort"
	"strings"
	"sync"
	"syscall"
	"testing"
	"testing/synctest"
	"time"

	"github.com/nuetzliches/hookaido/internal/app"
	"github.com/nuetzliches/hookaido/internal/config"
	"github.com/nuetzliches/hookaido/internal/dispatcher"
	"github.com/nuetzliches/hookaido/internal/queue"
	"github.com/nuetzliches/hookaido/internal/verifkit/runner"
	"github.com/nuetzliches/hookaido/internal/verifkit/vrand"
)

// ---- target behaviours ------------------------------------------------------

// Beh is one answer of the delivery target (or of the path to it).
type Beh struct {
	Kind   string `json:"kind"` // status | transport | eof | deadline | deadline-bare | hang | policy | policy-bare | policy-url | chain
	Code   int    `json:"code,omitempty"`
	SlowMS int    `json:"slow_ms,omitempty"` // the answer arrives after that much virtual time
	Chain  string `json:"chain,omitempty"`   // kind chain (part h, redir_test.go): what each URL of a redirect walk answers
	Hdr    string `json:"hdr,omitempty"`     // kind status over the real HTTPDeliverer (part i): one extra "Name: value" header line of the answer
	Body   string `json:"body,omitempty"`    // kind status over the real HTTPDeliverer (part a2): what reading the answer's body does after the status line and the headers arrived (bodyShapes)
}

// bodyShapes: what becomes of the BODY of an answer whose status line and headers have arrived. The statement settles a
// message by the status code of the answer; nothing in it lets the fate of the body change the class.
//
//	full      a complete 5-byte body, then EOF
//	empty-eof a reader that answers (0, EOF) at once (a body of length 0 that is not http.NoBody)
//	short     2 of the announced 5 bytes, then io.ErrUnexpectedEOF (the peer closed before Content-Length was reached)
//	reset     2 bytes, then a read error "connection reset by peer" (*net.OpError)
//	err0      a read error before the first byte (*net.OpError, reset)
//	timeout0  a read error before the first byte that says Timeout() (an i/o timeout of the connection, not of the delivery)
//	garbled   2 bytes, then a plain error (what a malformed chunked encoding yields)
var bodyShapes = []string{"full", "empty-eof", "short", "reset", "err0", "timeout0", "garbled"}

type scriptedBody struct {
	data []byte
	err  error
}

func (b *scriptedBody) Read(p []byte) (int, error) {
	if len(b.data) > 0 {
		n := copy(p, b.data)
		b.data = b.data[n:]
		return n, nil
	}
	return 0, b.err
}
func (b *scriptedBody) Close() error { return nil }

type bodyTimeoutErr struct{}

func (bodyTimeoutErr) Error() string   { return "i/o timeout" }
func (bodyTimeoutErr) Timeout() bool   { return true }
func (bodyTimeoutErr) Temporary() bool { return true }

// answerBody builds the body reader and the Content-Length of an answer for a body shape ("" = http.NoBody).
func answerBody(shape string) (io.ReadCloser, int64) {
	rst := &net.OpError{Op: "read", Net: "tcp", Err: syscall.ECONNRESET}
	switch shape {
	case "":
		return http.NoBody, 0
	case "full":
		return &scriptedBody{data: []byte("hello"), err: io.EOF}, 5
	case "empty-eof":
		return &scriptedBody{err: io.EOF}, 0
	case "short":
		return &scriptedBody{data: []byte("he"), err: io.ErrUnexpectedEOF}, 5
	case "reset":
		return &scriptedBody{data: []byte("he"), err: rst}, 5
	case "err0":
		return &scriptedBody{err: rst}, 5
	case "timeout0":
		return &scriptedBody{err: &net.OpError{Op: "read", Net: "tcp", Err: bodyTimeoutErr{}}}, 5
	case "garbled":
		return &scriptedBody{data: []byte("he"), err: errors.New("malformed chunked encoding")}, -1
	}
	panic("c06: unknown body shape " + shape)
}

func (b Beh) String() string {
	s := b.Kind
	if b.Kind == "status" {
		s = fmt.Sprintf("%d", b.Code)
	}
	if b.Kind == "chain" {
		s = "[" + b.Chain + "]"
	}
	if b.SlowMS > 0 {
		s += fmt.Sprintf("~%dms", b.SlowMS)
	}
	if b.Hdr != "" {
		s += "+{" + b.Hdr + "}"
	}
	if b.Body != "" {
		s += "+body(" + b.Body + ")"
	}
	return s
}

// hdrName is the lower-cased name of the extra header line of the answer ("" = none).
func (b Beh) hdrName() string {
	n, _, _ := strings.Cut(b.Hdr, ":")
	return strings.ToLower(strings.TrimSpace(n))
}

// wait lets the answer take its (virtual) time; false: the request context ended first.
func (b Beh) wait(ctx context.Context) bool {
	if b.SlowMS <= 0 {
		return true
	}
	t := time.NewTimer(time.Duration(b.SlowMS) * time.Millisecond)
	defer t.Stop()
	select {
	case <-t.C:
		return true
	case <-ctx.Done():
		return false
	}
}

func st(code int) Beh { return Beh{Kind: "status", Code: code} }

const (
	okHost     = "ok.example"
	deniedHost = "denied.example"
)

// directResult turns a behaviour into the dispatcher.Result an in-memory Deliverer answers with.
func directResult(ctx context.Context, b Beh, rawURL string) dispatcher.Result {
	if !b.wait(ctx) {
		return dispatcher.Result{Err: &url.Error{Op: "Post", URL: rawURL, Err: ctx.Err()}}
	}
	switch b.Kind {
	case "status":
		return dispatcher.Result{StatusCode: b.Code}
	case "transport":
		return dispatcher.Result{Err: &url.Error{Op: "Post", URL: rawURL, Err: &net.OpError{Op: "dial", Net: "tcp", Err: syscall.ECONNREFUSED}}}
	case "eof":
		return dispatcher.Result{Err: &url.Error{Op: "Post", URL: rawURL, Err: io.ErrUnexpectedEOF}}
	case "deadline":
		return dispatcher.Result{Err: &url.Error{Op: "Post", URL: rawURL, Err: context.DeadlineExceeded}}
	case "deadline-bare":
		return dispatcher.Result{Err: context.DeadlineExceeded}
	case "hang":
		<-ctx.Done()
		return dispatcher.Result{Err: &url.Error{Op: "Post", URL: rawURL, Err: ctx.Err()}}
	case "policy":
		return dispatcher.Result{Err: fmt.Errorf("%w: host %q denied by egress policy", dispatcher.ErrPolicyDenied, deniedHost)}
	case "policy-bare":
		return dispatcher.Result{Err: dispatcher.ErrPolicyDenied}
	case "policy-url":
		return dispatcher.Result{Err: &url.Error{Op: "Post", URL: rawURL, Err: fmt.Errorf("%w: host %q denied by egress policy", dispatcher.ErrPolicyDenied, deniedHost)}}
	}
	panic("c06: unknown behaviour " + b.Kind)
}

type behKey struct{}

// scriptTransport is the in-memory network below the real HTTPDeliverer.
type scriptTransport struct{}

func (scriptTransport) RoundTrip(req *http.Request) (*http.Response, error) {
	if cr, ok := req.Context().Value(chainKey{}).(*chainRun); ok {
		return cr.roundTrip(req) // part h: the several hosts a redirect chain walks over
	}
	b, _ := req.Context().Value(behKey{}).(Beh)
	if req.Body != nil {
		io.Copy(io.Discard, req.Body)
		req.Body.Close()
	}
	if req.URL.Path == "/elsewhere" {
		// the place 3xx answers point to: a redirect that is followed although `redirects off` ends in a 2xx here
		return &http.Response{StatusCode: 200, Status: "200 OK", Proto: "HTTP/1.1", ProtoMajor: 1, ProtoMinor: 1, Header: http.Header{}, Body: http.NoBody, Request: req}, nil
	}
	if !b.wait(req.Context()) {
		return nil, req.Context().Err()
	}
	switch b.Kind {
	case "status":
		h := http.Header{}
		if b.Code >= 300 && b.Code < 400 {
			h.Set("Location", "http://"+okHost+"/elsewhere")
		}
		if n, v, ok := strings.Cut(b.Hdr, ":"); ok {
			h.Set(strings.TrimSpace(n), strings.TrimSpace(v))
		}
		body, clen := answerBody(b.Body)
		return &http.Response{StatusCode: b.Code, Status: fmt.Sprintf("%d x", b.Code), Proto: "HTTP/1.1", ProtoMajor: 1, ProtoMinor: 1,
			Header: h, Body: body, ContentLength: clen, Request: req}, nil
	case "transport":
		return nil, &net.OpError{Op: "dial", Net: "tcp", Err: syscall.ECONNREFUSED}
	case "eof":
		return nil, io.ErrUnexpectedEOF
	case "hang", "deadline", "deadline-bare":
		<-req.Context().Done()
		return nil, req.Context().Err()
	}
	return nil, errors.New("c06: behaviour " + b.Kind + " must not reach the network")
}

// ---- configuration ----------------------------------------------------------

// Tgt is one deliver block as WRITTEN in the configuration text. An empty Max/Base/Cap/Jitter/Timeout means
// "not written" (the block leaves that setting to defaults.deliver / the documented built-in default).
type Tgt struct {
	Path    string `json:"path"` // URL path on okHost
	Max     string `json:"max"`
	Base    string `json:"base"`
	Cap     string `json:"cap"`
	Jitter  string `json:"jitter"`
	Timeout string `json:"timeout"`
	Route   string `json:"route,omitempty"` // route the block is written in ("" = routePath)
	Kind    string `json:"kind,omitempty"`  // label of the setting kind (parts f/g), no meaning for the run
	Scheme  string `json:"scheme,omitempty"` // "" = http
	Rev     bool   `json:"rev,omitempty"`   // written in the opposite order (timeout first, retry keywords jitter..max)
}

func (t Tgt) URL() string {
	if t.Scheme != "" {
		return t.Scheme + "://" + okHost + t.Path
	}
	return "http://" + okHost + t.Path
}

const routePath = "/r"

// dslText is the configuration text without the listener lines (bootWorld adds them: the addresses are
// placeholders of the in-memory network and must be unique per boot).
func dslText(targets []Tgt, conc int) string {
	return specDSL(Spec{Targets: targets, Conc: conc})
}

// compileAccepts runs the real Parse + Compile on the text.
func compileAccepts(text string) (bool, string) {
	cfg, err := config.Parse([]byte(listenLines(0) + text))
	if err != nil {
		return false, "parse: " + err.Error()
	}
	_, res := config.Compile(cfg)
	if !res.OK {
		return false, config.FormatValidationText(res)
	}
	return true, ""
}

// World is what the production wiring derives from one configuration text.
type World struct {
	DSL    string
	Routes []dispatcher.RouteConfig
	HTTP   dispatcher.Deliverer // real HTTPDeliverer with the compiled egress policy over scriptTransport
}

var (
	worldMu    sync.Mutex
	worldCache = map[string]*World{}
	bootSeq    int
)

func listenLines(seq int) string {
	return fmt.Sprintf("ingress   { listen \"127.0.0.1:%d\" }\nadmin_api { listen \"127.0.0.1:%d\" }\n", 20000+2*(seq%20000), 20001+2*(seq%20000))
}

func bootWorld(text string) (*World, error) {
	worldMu.Lock()
	defer worldMu.Unlock()
	if w, ok := worldCache[text]; ok {
		return w, nil
	}
	bootSeq++
	dir := filepath.Join(runner.Scratch(), fmt.Sprintf("boot-%d", bootSeq))
	// a fresh pair of in-memory listen addresses per boot: http.Server.Shutdown may return before a Serve
	// goroutine that had not started yet has released its listener
	a, err := app.VerifBoot(app.VerifBootOptions{Dir: dir, ConfigText: listenLines(bootSeq) + text, Store: queue.NewMemoryStore()})
	if err != nil {
		return nil, err
	}
	d := a.VerifDispatcher(&http.Client{Transport: scriptTransport{}})
	a.Shutdown()
	os.RemoveAll(dir)
	if hd, ok := d.Deliverer.(*dispatcher.HTTPDeliverer); ok {
		// no DNS inside a bubble: whatever the egress check wants resolved comes from a fixed table (redir_test.go).
		// Only policies with CIDR rules or dns_rebind_protection (part h) ask at all.
		hd.Resolver = redirResolver{}
	}
	w := &World{DSL: text, Routes: d.Routes, HTTP: d.Deliverer}
	worldCache[text] = w
	return w, nil
}

func (w *World) target(u string) (dispatcher.TargetConfig, bool) {
	for _, rt := range w.Routes {
		for _, t := range rt.Targets {
			if t.URL == u {
				return t, true
			}
		}
	}
	return dispatcher.TargetConfig{}, false
}

// ---- recorder ---------------------------------------------------------------

// Send is everything observed about one lease the dispatcher took on a message.
type Send struct {
	Attempt   int                     `json:"attempt"` // attempt number the store handed out with the lease
	Delivered bool                    `json:"delivered"`
	Delivers  int                     `json:"delivers"`
	Beh       Beh                     `json:"beh"`
	Start     time.Time               `json:"start"`
	End       time.Time               `json:"end"`
	Rows      []queue.DeliveryAttempt `json:"rows"`
	Action    string                  `json:"action"` // ack | nack | dead | ""
	Delay     time.Duration           `json:"delay"`
	Reason    string                  `json:"reason"`
	ActAt     time.Time               `json:"act_at"`
	ActErr    string                  `json:"act_err,omitempty"`
	Cycle     int                     `json:"cycle"`
	Wire      []WireReq               `json:"wire,omitempty"` // kind chain: every request the in-memory network saw during this send
	lease     string
}

type recorder struct {
	queue.Store
	batch queue.LeaseBatchStore

	mu       sync.Mutex
	logs     map[string][]*Send
	byLease  map[string]*Send
	idOf     map[string]string
	cycle    map[string]int
	terminal map[string]bool
	want     int // messages that must become terminal
	stopAt   int // >0: stop after that many settled sends (all messages together)
	settled  int
	maxSends int // runaway guard per message and cycle
	runaway  bool
	done     chan struct{}
	doneOnce bool

	tracked      map[string]bool // nil: every message is a judged one; else the judged ids (the rest is other traffic)
	otherLease   map[string]bool // leases handed out for other traffic
	otherSettled int             // other-traffic leases that were acked or dead-lettered
}

func newRecorder(under queue.Store, want, stopAt, maxSends int) *recorder {
	r := &recorder{Store: under, logs: map[string][]*Send{}, byLease: map[string]*Send{}, idOf: map[string]string{}, cycle: map[string]int{},
		terminal: map[string]bool{}, want: want, stopAt: stopAt, maxSends: maxSends, done: make(chan struct{})}
	r.batch, _ = under.(queue.LeaseBatchStore)
	return r
}

func (r *recorder) signalLocked() {
	if !r.doneOnce {
		r.doneOnce = true
		close(r.done)
	}
}

func (r *recorder) rearm() {
	r.mu.Lock()
	r.done = make(chan struct{})
	r.doneOnce = false
	r.mu.Unlock()
}

func (r *recorder) doneCh() chan struct{} {
	r.mu.Lock()
	defer r.mu.Unlock()
	return r.done
}

func (r *recorder) Dequeue(req queue.DequeueRequest) (queue.DequeueResponse, error) {
	resp, err := r.Store.Dequeue(req)
	if err == nil && len(resp.Items) > 0 {
		r.mu.Lock()
		for _, it := range resp.Items {
			if r.tracked != nil && !r.tracked[it.ID] {
				if r.otherLease == nil {
					r.otherLease = map[string]bool{}
				}
				r.otherLease[it.LeaseID] = true
				continue
			}
			s := &Send{Attempt: it.Attempt, lease: it.LeaseID, Cycle: r.cycle[it.ID]}
			r.logs[it.ID] = append(r.logs[it.ID], s)
			r.byLease[it.LeaseID] = s
			r.idOf[it.LeaseID] = it.ID
		}
		r.mu.Unlock()
	}
	return resp, err
}

func (r *recorder) settle(lease, action string, delay time.Duration, reason string, err error) {
	r.mu.Lock()
	defer r.mu.Unlock()
	s := r.byLease[lease]
	if s == nil {
		if r.otherLease[lease] && err == nil && (action == "ack" || action == "dead") {
			delete(r.otherLease, lease)
			r.otherSettled++
		}
		return
	}
	if s.Action != "" { // a second mutation on the same lease: keep the first, remember the fact
		s.ActErr += "|second-mutation:" + action
		return
	}
	s.Action, s.Delay, s.Reason, s.ActAt = action, delay, reason, time.Now()
	if err != nil {
		s.ActErr = err.Error()
	}
	if !s.Delivered {
		return
	}
	id := r.idOf[lease]
	r.settled++
	if err == nil && (action == "ack" || action == "dead") {
		r.terminal[id] = true
	}
	n := 0
	for _, x := range r.logs[id] {
		if x.Delivered && x.Cycle == s.Cycle {
			n++
		}
	}
	if n > r.maxSends {
		r.runaway = true
		r.signalLocked()
	}
	if r.stopAt > 0 && r.settled >= r.stopAt {
		r.signalLocked()
	}
	if len(r.terminal) >= r.want {
		r.signalLocked()
	}
}

func (r *recorder) Ack(lease string) error {
	err := r.Store.Ack(lease)
	r.settle(lease, "ack", 0, "", err)
	return err
}

func (r *recorder) Nack(lease string, delay time.Duration) error {
	err := r.Store.Nack(lease, delay)
	r.settle(lease, "nack", delay, "", err)
	return err
}

func (r *recorder) MarkDead(lease, reason string) error {
	err := r.Store.MarkDead(lease, reason)
	r.settle(lease, "dead", 0, reason, err)
	return err
}

func conflictErr(res queue.LeaseBatchResult, lease string) error {
	for _, c := range res.Conflicts {
		if c.LeaseID == lease {
			return fmt.Errorf("batch conflict (expired=%v)", c.Expired)
		}
	}
	return nil
}

func (r *recorder) AckBatch(ids []string) (queue.LeaseBatchResult, error) {
	res, err := r.batch.AckBatch(ids)
	if err != nil {
		return res, err // nothing applied: the dispatcher falls back to per-action mutations, which are recorded there
	}
	for _, l := range ids {
		r.settle(l, "ack", 0, "", conflictErr(res, l))
	}
	return res, err
}

func (r *recorder) NackBatch(ids []string, delay time.Duration) (queue.LeaseBatchResult, error) {
	res, err := r.batch.NackBatch(ids, delay)
	if err != nil {
		return res, err
	}
	for _, l := range ids {
		r.settle(l, "nack", delay, "", conflictErr(res, l))
	}
	return res, err
}

func (r *recorder) MarkDeadBatch(ids []string, reason string) (queue.LeaseBatchResult, error) {
	res, err := r.batch.MarkDeadBatch(ids, reason)
	if err != nil {
		return res, err
	}
	for _, l := range ids {
		r.settle(l, "dead", 0, reason, conflictErr(res, l))
	}
	return res, err
}

func (r *recorder) RecordAttempt(a queue.DeliveryAttempt) error {
	err := r.Store.RecordAttempt(a)
	r.mu.Lock()
	if l := r.logs[a.EventID]; len(l) > 0 && err == nil {
		s := l[len(l)-1]
		s.Rows = append(s.Rows, a)
	}
	r.mu.Unlock()
	return err
}

// noBatch hides the batch extension (store variants without it take the per-action path).
type noBatch struct{ queue.Store }

// failBatch is a store whose batch extension is out of order (every batch call fails without applying anything)
// while the per-action mutations work: the dispatcher's per-action fallback has to settle the message.
type failBatch struct{ queue.Store }

var errBatch = errors.New("c06: batch mutation unavailable")

func (failBatch) AckBatch([]string) (queue.LeaseBatchResult, error) {
	return queue.LeaseBatchResult{}, errBatch
}
func (failBatch) NackBatch([]string, time.Duration) (queue.LeaseBatchResult, error) {
	return queue.LeaseBatchResult{}, errBatch
}
func (failBatch) MarkDeadBatch([]string, string) (queue.LeaseBatchResult, error) {
	return queue.LeaseBatchResult{}, errBatch
}

// ---- scripted deliverer -----------------------------------------------------

type scripted struct {
	rec     *recorder
	inner   dispatcher.Deliverer // nil: answer directly
	scripts map[string][]Beh     // by message id
	mu      sync.Mutex
	pos     map[string]int
	over    map[string]int      // sends beyond the script
	other   func(id string) Beh // answer for messages without a script (other traffic, parts f)
}

func (s *scripted) Deliver(ctx context.Context, d dispatcher.Delivery) dispatcher.Result {
	s.mu.Lock()
	sc := s.scripts[d.ID]
	if len(sc) == 0 && s.other != nil {
		sc = []Beh{s.other(d.ID)}
	}
	i := s.pos[d.ID]
	s.pos[d.ID]++
	if i >= len(sc) {
		s.over[d.ID]++
		i = len(sc) - 1
	}
	b := sc[i]
	s.mu.Unlock()

	start := time.Now()
	var res dispatcher.Result
	var cr *chainRun
	if s.inner == nil {
		res = directResult(ctx, b, d.URL)
	} else {
		switch b.Kind {
		case "policy", "policy-bare", "policy-url":
			// the real egress check denies this host: the denial comes from the real code path
			u, _ := url.Parse(d.URL)
			u.Host = deniedHost
			d.URL = u.String()
		}
		cctx := context.WithValue(ctx, behKey{}, b)
		if b.Kind == "chain" {
			cr = newChainRun(b.Chain, d.URL)
			cctx = context.WithValue(cctx, chainKey{}, cr)
		}
		res = s.inner.Deliver(cctx, d)
	}
	end := time.Now()

	s.rec.mu.Lock()
	if l := s.rec.logs[d.ID]; len(l) > 0 {
		x := l[len(l)-1]
		x.Delivers++
		if !x.Delivered {
			x.Delivered, x.Beh, x.Start, x.End = true, b, start, end
			if cr != nil {
				x.Wire = cr.seen()
			}
		}
	}
	s.rec.mu.Unlock()
	return res
}

// ---- one history ------------------------------------------------------------

type Msg struct {
	ID          string `json:"id"`
	Target      string `json:"target"`       // target URL
	PreAttempts int    `json:"pre_attempts"` // dequeue+nack(0) cycles before the dispatcher starts
	Script      []Beh  `json:"script"`       // answers per send; the last one repeats
	Route       string `json:"route,omitempty"`
}

func (m Msg) route() string {
	if m.Route != "" {
		return m.Route
	}
	return routePath
}

type Spec struct {
	Part       string  `json:"part"`
	Store      string  `json:"store"` // memory | memory-noret | memory-nobatch | memory-batchfail | sqlite | sqlite-noret | sqlite-nobatch
	Targets    []Tgt   `json:"targets"`
	Conc       int     `json:"conc"`
	HTTP       bool    `json:"http"` // real HTTPDeliverer over the in-memory transport
	U          float64 `json:"u"`    // harness answer for rand.Float64
	Msgs       []Msg   `json:"msgs"`
	StopAfter  int     `json:"stop_after"`   // >0: stop after that many settled sends
	Requeue    int     `json:"requeue"`      // how often dead messages are requeued from the DLQ (new cycles)
	MaxPerLife int     `json:"max_per_life"` // runaway guard (sends per message and cycle)
	DrainAtMS  int     `json:"drain_at_ms"`  // >0: Drain is called at that virtual time instead of at the end of the history

	Egress   string `json:"egress,omitempty"`    // part h: "<policy>/<on|off|unset>" = egress block of redirPolicies + the redirects line ("" = the block of parts a-g)
	Defaults *Tgt   `json:"defaults,omitempty"`  // written defaults.deliver block (nil: none written; empty fields: not written)
	Burst    *Burst `json:"burst,omitempty"`     // other traffic through the same store (part f)
	Restart  string `json:"restart,omitempty"`   // operator action that starts the new cycle: "" = requeue-dead | requeue-messages | requeue-filter | cancel-resume
	HorizonS int    `json:"horizon_s,omitempty"` // >0: virtual-time horizon of one cycle in seconds (default: derived from the compiled timeouts)

	// part j (retain_test.go): Store "wired-memory" / "wired-sqlite" is the store the production wiring opens from the
	// configuration text (queue backend + the written retention blocks; nothing written = the documented defaults).
	Retain    string `json:"retain,omitempty"`      // which retention blocks the text writes (retainBlocks)
	IdleSteps int    `json:"idle_steps,omitempty"`  // after every message is settled the store stays in use for that many steps ...
	IdleStepS int    `json:"idle_step_s,omitempty"` // ... of that many virtual seconds each (an idle worker poll and the operator's listings per step)
}

type Final struct {
	Present    bool        `json:"present"`
	State      queue.State `json:"state"`
	DeadReason string      `json:"dead_reason"`
	Attempt    int         `json:"attempt"`
	InDLQ      bool        `json:"in_dlq"`
}

type Result struct {
	Logs      map[string][]*Send                 `json:"logs"`
	Final     map[string]Final                   `json:"final"`
	Rows      map[string][]queue.DeliveryAttempt `json:"rows"`
	Stuck     bool                               `json:"stuck"`
	Runaway   bool                               `json:"runaway"`
	DrainOK   bool                               `json:"drain_ok"`
	Draws     int                                `json:"draws"`
	Over      map[string]int                     `json:"over"`
	Infra     string                             `json:"infra,omitempty"`
	VirtualNS int64                              `json:"virtual_ns"`

	Restarts  map[string][]int `json:"restarts,omitempty"` // message id -> cycles the operator started for it
	OtherSent int              `json:"other_sent"`         // other-traffic messages put into the store
	OtherOpen int              `json:"other_open"`         // ... of which not delivered/dead-lettered at the end

	IdleDone   int      `json:"idle_done,omitempty"`   // idle steps that ran after the settlement (part j)
	IdleLeased []string `json:"idle_leased,omitempty"` // messages an idle worker poll was handed although every message was settled
}

var (
	discard = slog.New(slog.NewTextHandler(io.Discard, nil))
	runSeq  int
)

func openStore(kind, dir string) (queue.Store, func(), error) {
	switch kind {
	case "memory":
		return queue.NewMemoryStore(queue.WithDeliveredRetention(24 * time.Hour)), func() {}, nil
	case "memory-noret":
		return queue.NewMemoryStore(), func() {}, nil
	case "memory-batchfail":
		return failBatch{queue.NewMemoryStore(queue.WithDeliveredRetention(24 * time.Hour))}, func() {}, nil
	case "memory-nobatch":
		return noBatch{queue.NewMemoryStore(queue.WithDeliveredRetention(24 * time.Hour))}, func() {}, nil
	case "sqlite", "sqlite-noret", "sqlite-nobatch":
		os.RemoveAll(dir)
		if err := os.MkdirAll(dir, 0o755); err != nil {
			return nil, nil, err
		}
		opts := []queue.SQLiteOption{queue.WithSQLiteCheckpointInterval(0)}
		if kind != "sqlite-noret" {
			opts = append(opts, queue.WithSQLiteDeliveredRetention(24*time.Hour))
		}
		s, err := queue.NewSQLiteStore(filepath.Join(dir, "q.db"), opts...)
		if err != nil {
			return nil, nil, err
		}
		if kind == "sqlite-nobatch" {
			return noBatch{s}, func() { s.Close(); os.RemoveAll(dir) }, nil
		}
		return s, func() { s.Close(); os.RemoveAll(dir) }, nil
	}
	return nil, nil, fmt.Errorf("unknown store %q", kind)
}

// runHistory executes one history on the real dispatcher inside a bubble.
func runHistory(t *testing.T, sp Spec) Result {
	res := Result{Logs: map[string][]*Send{}, Final: map[string]Final{}, Rows: map[string][]queue.DeliveryAttempt{}, Restarts: map[string][]int{}}
	w, err := bootWorld(specDSL(sp))
	if err != nil {
		res.Infra = "boot: " + err.Error()
		return res
	}
	runSeq++
	dir := filepath.Join(runner.Scratch(), fmt.Sprintf("run-%d", runSeq))
	draws := 0
	vrand.SetFloat64(func() float64 { draws++; return sp.U })
	defer vrand.SetFloat64(nil)

	maxPer := sp.MaxPerLife
	if maxPer <= 0 {
		maxPer = 8
	}
	var horizon time.Duration
	for _, rt := range w.Routes {
		for _, tg := range rt.Targets {
			per := tg.Timeout + 2*tg.Retry.Cap + 10*time.Second
			n := maxPer + 2
			if sp.StopAfter > n {
				n = sp.StopAfter + 2
			}
			if h := time.Duration(n) * per * time.Duration(len(sp.Msgs)); h > horizon {
				horizon = h
			}
		}
	}
	if sp.HorizonS > 0 {
		horizon = time.Duration(sp.HorizonS) * time.Second
	}

	synctest.Test(t, func(t *testing.T) {
		t0 := time.Now()
		var under queue.Store
		var closeStore func()
		var err error
		if backend, ok := strings.CutPrefix(sp.Store, "wired-"); ok {
			// the store as the production wiring opens it from the configuration text (newQueueStore)
			worldMu.Lock()
			bootSeq++
			seq := bootSeq
			worldMu.Unlock()
			os.RemoveAll(dir)
			a, berr := app.VerifBoot(app.VerifBootOptions{Dir: dir, ConfigText: listenLines(seq) + specDSL(sp)})
			if berr != nil {
				res.Infra = "boot wired store: " + berr.Error()
				return
			}
			under, closeStore = a.Store, func() { a.Shutdown(); os.RemoveAll(dir) }
			if a.Backend != backend {
				closeStore()
				res.Infra = fmt.Sprintf("wired store: the wiring opened backend %q, the text says %q", a.Backend, backend)
				return
			}
		} else {
			under, closeStore, err = openStore(sp.Store, dir)
			if err != nil {
				res.Infra = "open store: " + err.Error()
				return
			}
		}
		defer closeStore()

		rec := newRecorder(under, len(sp.Msgs), sp.StopAfter, maxPer)
		del := &scripted{rec: rec, scripts: map[string][]Beh{}, pos: map[string]int{}, over: map[string]int{}}
		if sp.HTTP {
			del.inner = w.HTTP
		}
		var ids []string
		for _, m := range sp.Msgs {
			del.scripts[m.ID] = m.Script
			ids = append(ids, m.ID)
		}
		if sp.Burst != nil {
			rec.tracked = map[string]bool{}
			for _, id := range ids {
				rec.tracked[id] = true
			}
			del.other = sp.Burst.answer
		}
		var store queue.Store = rec
		if rec.batch == nil {
			store = noBatch{rec} // the underlying store has no batch extension: do not advertise one
		}
		d := &dispatcher.PushDispatcher{Store: store, Deliverer: del, Routes: w.Routes, Logger: discard}
		if strings.Contains(sp.Store, "sqlite") {
			// SQLite's Dequeue polls every 25ms of virtual time with a real query; a shorter long-poll keeps the
			// drain at the end of a history cheap (no influence on classification, delay or settlement)
			d.MaxWait = 250 * time.Millisecond
		}
		started := false
		start := func() {
			if !started {
				started = true
				d.Start()
			}
		}

		// other traffic (part f): N messages through the same store and the same dispatcher
		otherWant := 0
		var otherDead []string // other traffic that ends in the DLQ
		burst := func(tag string, wait bool) bool {
			if sp.Burst == nil || !sp.Burst.at(tag) {
				return true
			}
			route, target := sp.Burst.routeTarget(sp)
			for i := 0; i < sp.Burst.N; i++ {
				id := fmt.Sprintf("x-%s-%05d", tag, i)
				if sp.Burst.answer(id).Code == 404 {
					otherDead = append(otherDead, id)
				}
				if err := under.Enqueue(queue.Envelope{ID: id, Route: route, Target: target, Payload: []byte("p"), Headers: map[string]string{"X-M": id}}); err != nil {
					res.Infra = "enqueue other traffic: " + err.Error()
					return false
				}
			}
			otherWant += sp.Burst.N
			res.OtherSent += sp.Burst.N
			if wait {
				waitOther(rec, otherWant)
			}
			return true
		}

		if sp.Burst != nil && sp.Burst.at("before") {
			start()
			if !burst("before", true) {
				d.Drain(10 * time.Minute)
				return
			}
		}
		for _, m := range sp.Msgs {
			if err := under.Enqueue(queue.Envelope{ID: m.ID, Route: m.route(), Target: m.Target, Payload: []byte("p-" + m.ID), Headers: map[string]string{"X-M": m.ID}}); err != nil {
				res.Infra = "enqueue: " + err.Error()
				break
			}
			for i := 0; i < m.PreAttempts && !started; i++ {
				resp, err := under.Dequeue(queue.DequeueRequest{Route: m.route(), Target: m.Target, Batch: 1, LeaseTTL: 30 * time.Second})
				if err != nil || len(resp.Items) != 1 || resp.Items[0].ID != m.ID {
					res.Infra = fmt.Sprintf("pre-attempt dequeue: err=%v items=%d", err, len(resp.Items))
					break
				}
				if err := under.Nack(resp.Items[0].LeaseID, 0); err != nil {
					res.Infra = "pre-attempt nack: " + err.Error()
					break
				}
			}
		}
		if res.Infra != "" {
			if started {
				d.Drain(10 * time.Minute)
			}
			return
		}
		start()
		burst("with", false)

		for round := 0; res.Infra == ""; round++ {
			if sp.DrainAtMS > 0 {
				time.Sleep(time.Duration(sp.DrainAtMS) * time.Millisecond)
				break
			}
			select {
			case <-rec.doneCh():
			case <-time.After(horizon):
				res.Stuck = true
			}
			synctest.Wait()
			if res.Stuck || rec.runaway || sp.StopAfter > 0 || round >= sp.Requeue {
				break
			}
			// the operator starts a new cycle for every dead message
			lk, err := under.LookupMessages(queue.MessageLookupRequest{IDs: ids})
			if err != nil {
				res.Infra = "lookup: " + err.Error()
				break
			}
			var dead []string
			for _, it := range lk.Items {
				if it.State == queue.StateDead {
					dead = append(dead, it.ID)
				}
			}
			sort.Strings(dead)
			if len(dead) == 0 {
				break
			}
			if sp.Restart == "cancel-resume" {
				if r, err := under.CancelMessages(queue.MessageCancelRequest{IDs: dead}); err != nil || r.Canceled != len(dead) {
					res.Infra = fmt.Sprintf("cancel: err=%v canceled=%d of %d", err, r.Canceled, len(dead))
					break
				}
			}
			if !burst("parked", true) { // other traffic passes while the messages sit in the DLQ (or canceled)
				break
			}
			rec.mu.Lock()
			for _, id := range dead {
				rec.cycle[id]++
				res.Restarts[id] = append(res.Restarts[id], rec.cycle[id])
				delete(rec.terminal, id)
			}
			rec.mu.Unlock()
			rec.rearm()
			n, extra := 0, 0
			switch sp.Restart {
			case "":
				var r queue.DeadRequeueResponse
				r, err = under.RequeueDead(queue.DeadRequeueRequest{IDs: dead})
				n = r.Requeued
			case "requeue-messages":
				var r queue.MessageRequeueResponse
				r, err = under.RequeueMessages(queue.MessageRequeueRequest{IDs: dead})
				n = r.Requeued
			case "requeue-filter":
				// every dead message of the judged messages' route and target, other dead traffic on it included
				var r queue.MessageRequeueResponse
				r, err = under.RequeueMessagesByFilter(queue.MessageManageFilterRequest{Route: sp.Msgs[0].route(), Target: sp.Msgs[0].Target, State: queue.StateDead, Limit: 1000})
				n = r.Requeued
				if n > len(dead) {
					extra, n = n-len(dead), len(dead)
				}
			case "cancel-resume":
				var r queue.MessageResumeResponse
				r, err = under.ResumeMessages(queue.MessageResumeRequest{IDs: dead})
				n = r.Resumed
			default:
				err = fmt.Errorf("unknown restart %q", sp.Restart)
			}
			if err != nil || n != len(dead) {
				res.Infra = fmt.Sprintf("restart %q: err=%v restarted=%d of %d", sp.Restart, err, n, len(dead))
				break
			}
			otherWant += extra // dead other traffic that the filter requeued has to settle once more
			burst("restarted", false)
		}
		if sp.Burst != nil && res.Infra == "" && !res.Stuck {
			waitOther(rec, otherWant)
		}
		res.DrainOK = d.Drain(10 * time.Minute)
		synctest.Wait()

		// part j: every message is settled; the store stays in use while (virtual) time passes - an idle worker
		// poll per route and target, the operator looking at the backlog and the DLQ - so that whatever the store
		// does periodically (retention passes) has run several times before the final listings are read
		rec.mu.Lock()
		allSettled := len(rec.terminal) >= rec.want && !rec.runaway
		rec.mu.Unlock()
		if sp.IdleSteps > 0 && allSettled && res.DrainOK && !res.Stuck && res.Infra == "" {
			for i := 0; i < sp.IdleSteps && res.Infra == ""; i++ {
				time.Sleep(time.Duration(sp.IdleStepS) * time.Second)
				seen := map[string]bool{}
				for _, m := range sp.Msgs {
					k := m.route() + " " + m.Target
					if seen[k] {
						continue
					}
					seen[k] = true
					resp, err := under.Dequeue(queue.DequeueRequest{Route: m.route(), Target: m.Target, Batch: 10, LeaseTTL: 30 * time.Second, MaxWait: time.Millisecond})
					if err != nil {
						res.Infra = "idle poll: " + err.Error()
						break
					}
					for _, it := range resp.Items {
						res.IdleLeased = append(res.IdleLeased, it.ID)
					}
					if _, err := under.ListDead(queue.DeadListRequest{Route: m.route(), Limit: 10}); err != nil {
						res.Infra = "idle dlq listing: " + err.Error()
						break
					}
					if _, err := under.ListMessages(queue.MessageListRequest{Route: m.route(), Limit: 10}); err != nil {
						res.Infra = "idle backlog listing: " + err.Error()
						break
					}
				}
				res.IdleDone++
			}
		}

		rec.mu.Lock()
		res.Runaway = rec.runaway
		for id, l := range rec.logs {
			res.Logs[id] = l
		}
		if sp.Burst != nil {
			res.OtherOpen = otherWant - rec.otherSettled
		}
		rec.mu.Unlock()
		res.Over = del.over
		if res.Infra != "" {
			return
		}
		// final state as the listings show it (one listing per route; the id lookup finds a message that a
		// listing of at most 1000 rows does not reach). The history is over: the dead letters of the other traffic
		// are removed first so that the DLQ listing (at most 1000 rows, no usable cursor inside one virtual
		// instant) shows the judged messages.
		for i := 0; i < len(otherDead); i += 500 {
			j := min(i+500, len(otherDead))
			if _, err := under.DeleteDead(queue.DeadDeleteRequest{IDs: otherDead[i:j]}); err != nil {
				res.Infra = "delete dead other traffic: " + err.Error()
				return
			}
		}
		listed := map[string]queue.Envelope{}
		inDLQ := map[string]queue.Envelope{}
		seenRoute := map[string]bool{}
		for _, m := range sp.Msgs {
			if seenRoute[m.route()] {
				continue
			}
			seenRoute[m.route()] = true
			lm, err := under.ListMessages(queue.MessageListRequest{Route: m.route(), Limit: 1000})
			if err != nil {
				res.Infra = "list messages: " + err.Error()
				return
			}
			for _, it := range lm.Items {
				listed[it.ID] = it
			}
			dl, err := under.ListDead(queue.DeadListRequest{Route: m.route(), Limit: 1000})
			if err != nil {
				res.Infra = "list dead: " + err.Error()
				return
			}
			for _, it := range dl.Items {
				inDLQ[it.ID] = it
			}
		}
		lk, err := under.LookupMessages(queue.MessageLookupRequest{IDs: ids})
		if err != nil {
			res.Infra = "lookup: " + err.Error()
			return
		}
		looked := map[string]queue.State{}
		for _, it := range lk.Items {
			looked[it.ID] = it.State
		}
		for _, m := range sp.Msgs {
			f := Final{}
			if it, ok := listed[m.ID]; ok {
				f.Present, f.State, f.DeadReason, f.Attempt = true, it.State, it.DeadReason, it.Attempt
			}
			if it, ok := inDLQ[m.ID]; ok {
				f.InDLQ = true
				if !f.Present {
					f.Present, f.State, f.DeadReason, f.Attempt = true, it.State, it.DeadReason, it.Attempt
				}
			}
			if st, ok := looked[m.ID]; ok && !f.Present {
				f.Present, f.State = true, st
			}
			res.Final[m.ID] = f
			la, err := under.ListAttempts(queue.AttemptListRequest{EventID: m.ID, Limit: 1000})
			if err != nil {
				res.Infra = "list attempts: " + err.Error()
				return
			}
			res.Rows[m.ID] = la.Items
		}
		res.VirtualNS = int64(time.Since(t0))
	})
	res.Draws = draws
	return res
}

// waitOther lets virtual time pass until `want` other-traffic messages are settled (or 20 virtual minutes passed).
func waitOther(rec *recorder, want int) {
	for i := 0; i < 48000; i++ {
		synctest.Wait()
		rec.mu.Lock()
		n := rec.otherSettled
		rec.mu.Unlock()
		if n >= want {
			return
		}
		time.Sleep(25 * time.Millisecond)
	}
}
