package c10

// "Named matcher composition" family of the C10 enumeration.
//
// Configurations: named matchers @S (a list of 1, 2, 3 or 5 values of one
// list-valued kind), @X and @Y (one value each of the same kind), and 1..2
// (quick) / 1..3 (thorough) routes on the disjoint paths /r0 /r1 /r2, each in
// one of the attachment forms below, in every order (all ordered tuples of
// forms, repetitions included):
//
//	match @S @X | match @S @Y | match @X @S | match @Y @S | match @S
//	match { <kind> W } + match @S @X          (inline block, same kind)
//	match { <other kind> Z } + match @S @Y    (inline block, other kind)
//
// for each kind in {host, method, header_exists, query_exists, remote_ip}.
// Requests: every route path x every value of @S, @X, @Y, the inline value W
// and a non-member (for the *_exists kinds: the presence sets listed in
// presenceSets) x method {POST, GET} (the whole method alphabet for kind
// method) x Z present/absent when a route requires Z.
//
// Oracle: composeResolve below, written from the documentation: `match @name`
// attaches a named matcher to the route (DESIGN.md "Per-route", "Routing
// Semantics"); the criteria of a route are ANDed; the values of one
// list-valued criterion are alternatives for method / host / remote_ip ("method
// in the route's methods", "host in the host list", "inside a listed prefix")
// and are all required for header_exists / query_exists ("every required
// header and query value present"). A route's criteria are therefore those of
// its inline block plus those of every attached matcher, as if written in one
// block. (Whether the lists of two attached matchers of one alternative kind
// are unioned is not spelled out in the docs; it is measured once on a
// one-route configuration with one-value matchers and recorded as an assumption.)

import (
	"encoding/json"
	"fmt"
	"net/http"
	"runtime"
	"sort"
	"strings"
	"sync"

	"github.com/nuetzliches/hookaido/internal/config"
	"github.com/nuetzliches/hookaido/internal/verifkit/runner"
)

const (
	ckHost = iota
	ckMethod
	ckHeaderExists
	ckQueryExists
	ckRemoteIP
	nComposeKind
)

var composeKindNames = []string{"host", "method", "header_exists", "query_exists", "remote_ip"}

// value labels; the reference works on labels only
const (
	lbS1 = iota
	lbS2
	lbS3
	lbS4
	lbS5
	lbX
	lbY
	lbW // value of the inline block of the same kind
	lbN // member of no matcher
	nLabel
)

var labelNames = []string{"s1", "s2", "s3", "s4", "s5", "x", "y", "w", "non-member"}

// concrete spelling of every label per kind: in the DSL and in the request
var composeDSLValue = [nComposeKind][nLabel]string{
	ckHost:         {"s1.t", "s2.t", "s3.t", "s4.t", "s5.t", "x.t", "y.t", "w.t", "n.t"},
	ckMethod:       {"GET", "PUT", "PATCH", "DELETE", "OPTIONS", "POST", "REPORT", "LINK", "UNLINK"},
	ckHeaderExists: {"Hs1", "Hs2", "Hs3", "Hs4", "Hs5", "Hx", "Hy", "Hw", "Hn"},
	ckQueryExists:  {"ks1", "ks2", "ks3", "ks4", "ks5", "kx", "ky", "kw", "kn"},
	ckRemoteIP:     {"10.1.0.0/16", "10.2.0.0/16", "10.3.0.0/16", "10.4.0.0/16", "10.5.0.0/16", "10.8.0.0/16", "10.9.0.0/16", "10.6.0.0/16", ""},
}

var composePeer = [nLabel]string{"10.1.0.1:1", "10.2.0.1:1", "10.3.0.1:1", "10.4.0.1:1", "10.5.0.1:1", "10.8.0.1:1", "10.9.0.1:1", "10.6.0.1:1", "10.7.0.1:1"}

var composeDirective = []string{"host", "method", "header_exists", "query_exists", "remote_ip"}

const (
	cfSX = iota
	cfSY
	cfXS
	cfYS
	cfS
	cfInlineW_SX
	cfInlineZ_SY
	nComposeForm
)

var composeFormNames = []string{"@S@X", "@S@Y", "@X@S", "@Y@S", "@S", "{W}+@S@X", "{Z}+@S@Y"}

var composeSizes = []int{1, 2, 3, 5}

type composeCfg struct {
	Family string `json:"family"` // "compose"
	Kind   int    `json:"kind"`
	N      int    `json:"s_values"`
	Forms  []int  `json:"forms"` // one per route, route i has path /r<i>
}

type composeReq struct {
	Route   int   `json:"route_path"` // request path is /r<Route>
	Method  int   `json:"method"`     // label (kind method) or 0=POST 1=GET
	Val     int   `json:"value"`      // label, alternative kinds
	Present []int `json:"present"`    // labels present, *_exists kinds
	Z       bool  `json:"z"`
}

func (c composeCfg) String() string {
	var fs []string
	for i, f := range c.Forms {
		fs = append(fs, fmt.Sprintf("/r%d[%s]", i, composeFormNames[f]))
	}
	return fmt.Sprintf("kind=%s |@S|=%d routes %s", composeKindNames[c.Kind], c.N, strings.Join(fs, " ; "))
}

func sLabels(n int) []int { return seq(n) }

// sources of a route in attachment order (inline block first), as label lists — the generator's
// and the reference's common description of the route
func composeSources(form, n int) (srcs [][]int, needZ bool) {
	s := sLabels(n)
	switch form {
	case cfSX:
		return [][]int{s, {lbX}}, false
	case cfSY:
		return [][]int{s, {lbY}}, false
	case cfXS:
		return [][]int{{lbX}, s}, false
	case cfYS:
		return [][]int{{lbY}, s}, false
	case cfS:
		return [][]int{s}, false
	case cfInlineW_SX:
		return [][]int{{lbW}, s, {lbX}}, false
	default:
		return [][]int{s, {lbY}}, true
	}
}

func composeList(kind int, labels []int) string {
	var b strings.Builder
	b.WriteString(composeDirective[kind])
	for _, l := range labels {
		fmt.Fprintf(&b, " %q", composeDSLValue[kind][l])
	}
	return b.String()
}

// the inline block of another kind requires Z: a header, or (for kind header_exists) a query parameter
func zInline(kind int) string {
	if kind == ckHeaderExists {
		return `match { query_exists "z" }`
	}
	return `match { header_exists "Z" }`
}

func composeDSL(c composeCfg, slot int64) string {
	var b strings.Builder
	ip := fmt.Sprintf("127.%d.%d.%d", slot>>16&255, slot>>8&255, slot&255)
	fmt.Fprintf(&b, "ingress { listen \"%s:8080\" }\n", ip)
	fmt.Fprintf(&b, "pull_api { listen \"%s:9443\"\n auth token \"raw:g1\" }\n", ip)
	fmt.Fprintf(&b, "admin_api { listen \"%s:2019\" }\n", ip)
	fmt.Fprintf(&b, "@S { %s }\n@X { %s }\n@Y { %s }\n", composeList(c.Kind, sLabels(c.N)), composeList(c.Kind, []int{lbX}), composeList(c.Kind, []int{lbY}))
	for i, f := range c.Forms {
		fmt.Fprintf(&b, "/r%d {\n", i)
		switch f {
		case cfSX:
			b.WriteString("  match @S @X\n")
		case cfSY:
			b.WriteString("  match @S @Y\n")
		case cfXS:
			b.WriteString("  match @X @S\n")
		case cfYS:
			b.WriteString("  match @Y @S\n")
		case cfS:
			b.WriteString("  match @S\n")
		case cfInlineW_SX:
			fmt.Fprintf(&b, "  match { %s }\n  match @S @X\n", composeList(c.Kind, []int{lbW}))
		default:
			fmt.Fprintf(&b, "  %s\n  match @S @Y\n", zInline(c.Kind))
		}
		fmt.Fprintf(&b, "  pull { path /e%d }\n}\n", i)
	}
	return b.String()
}

func existsKind(kind int) bool { return kind == ckHeaderExists || kind == ckQueryExists }

// presence sets for the *_exists kinds
func presenceSets(n int) [][]int {
	base := append(sLabels(n), lbW)
	with := func(extra ...int) []int { return append(append([]int(nil), base...), extra...) }
	out := [][]int{with(lbX), with(lbY), with(lbX, lbY), with(), with(lbX, lbY, lbN), append(sLabels(n), lbX, lbY), {}}
	for i := 0; i < n; i++ { // every single value of @S missing
		var p []int
		for _, l := range with(lbX, lbY) {
			if l != i {
				p = append(p, l)
			}
		}
		out = append(out, p)
	}
	return out
}

func composeRequests(c composeCfg) []composeReq {
	zs := []bool{true}
	for _, f := range c.Forms {
		if f == cfInlineZ_SY {
			zs = []bool{true, false}
		}
	}
	methods := []int{0, 1}
	if c.Kind == ckMethod {
		methods = seq(nLabel)
	}
	var out []composeReq
	for p := range c.Forms {
		for _, me := range methods {
			for _, z := range zs {
				switch {
				case c.Kind == ckMethod:
					out = append(out, composeReq{Route: p, Method: me, Z: z})
				case existsKind(c.Kind):
					for _, ps := range presenceSets(c.N) {
						out = append(out, composeReq{Route: p, Method: me, Present: ps, Z: z})
					}
				default:
					for _, v := range append(sLabels(c.N), lbX, lbY, lbW, lbN) {
						out = append(out, composeReq{Route: p, Method: me, Val: v, Z: z})
					}
				}
			}
		}
	}
	return out
}

func (q composeReq) methodName(kind int) string {
	if kind == ckMethod {
		return composeDSLValue[ckMethod][q.Method]
	}
	return []string{"POST", "GET"}[q.Method]
}

func (q composeReq) describe(kind int) string {
	s := fmt.Sprintf("%s /r%d", q.methodName(kind), q.Route)
	switch {
	case existsKind(kind):
		var ps []string
		for _, l := range q.Present {
			ps = append(ps, labelNames[l])
		}
		s += " present={" + strings.Join(ps, ",") + "}"
	case kind != ckMethod:
		s += " value=" + labelNames[q.Val]
	}
	if !q.Z {
		s += " without-Z"
	}
	return s
}

func (q composeReq) raw(kind int) (raw, remote string) {
	host, remote := "h", composePeer[lbN]
	var hdr, query []string
	switch kind {
	case ckHost:
		host = composeDSLValue[ckHost][q.Val]
	case ckRemoteIP:
		remote = composePeer[q.Val]
	case ckHeaderExists:
		for _, l := range q.Present {
			hdr = append(hdr, composeDSLValue[kind][l]+": 1\r\n")
		}
	case ckQueryExists:
		for _, l := range q.Present {
			query = append(query, composeDSLValue[kind][l]+"=1")
		}
	}
	if q.Z {
		if kind == ckHeaderExists {
			query = append(query, "z=1")
		} else {
			hdr = append(hdr, "Z: 1\r\n")
		}
	}
	target := fmt.Sprintf("/r%d", q.Route)
	if len(query) > 0 {
		target += "?" + strings.Join(query, "&")
	}
	return fmt.Sprintf("%s %s HTTP/1.1\r\nHost: %s\r\n%sContent-Length: 1\r\n\r\nx", q.methodName(kind), target, host, strings.Join(hdr, "")), remote
}

// ---- reference ------------------------------------------------------------

func inList(l int, list []int) bool {
	for _, x := range list {
		if x == l {
			return true
		}
	}
	return false
}

// alternative kinds: the value is in the route's list (the lists of all sources as one list; if the
// calibration found the other reading: in the list of every source)
func composeMember(srcs [][]int, l int, union bool) bool {
	if union {
		for _, s := range srcs {
			if inList(l, s) {
				return true
			}
		}
		return false
	}
	for _, s := range srcs {
		if !inList(l, s) {
			return false
		}
	}
	return true
}

// composeRouteHolds: (criteria other than the method hold, method holds)
func composeRouteHolds(c composeCfg, form int, q composeReq, union bool) (others, method bool) {
	srcs, needZ := composeSources(form, c.N)
	others = !needZ || q.Z
	method = q.methodName(c.Kind) == "POST"
	switch {
	case c.Kind == ckMethod:
		method = composeMember(srcs, q.Method, union)
	case existsKind(c.Kind):
		for _, s := range srcs {
			for _, l := range s {
				others = others && inList(l, q.Present)
			}
		}
	default:
		others = others && composeMember(srcs, q.Val, union)
	}
	return
}

func composeResolve(c composeCfg, q composeReq, union bool) expectation {
	allow := map[string]bool{}
	for i, f := range c.Forms {
		if i != q.Route { // disjoint one-segment paths: only /r<i> itself holds
			continue
		}
		others, method := composeRouteHolds(c, f, q, union)
		if !others {
			continue
		}
		if method {
			return expectation{Status: http.StatusAccepted, Winner: i, Route: fmt.Sprintf("/r%d", i), Target: "pull"}
		}
		if c.Kind != ckMethod {
			allow["POST"] = true
			continue
		}
		srcs, _ := composeSources(f, c.N)
		for l := 0; l < nLabel; l++ {
			if composeMember(srcs, l, union) {
				allow[composeDSLValue[ckMethod][l]] = true
			}
		}
	}
	if len(allow) == 0 {
		return expectation{Status: http.StatusNotFound, Winner: -1}
	}
	e := expectation{Status: http.StatusMethodNotAllowed, Winner: -1}
	for m := range allow {
		e.Allow = append(e.Allow, m)
	}
	sort.Strings(e.Allow)
	return e
}

// ---- execution ------------------------------------------------------------

type composeFinding struct {
	Rank   int64       `json:"-"`
	Cfg    composeCfg  `json:"config"`
	Config string      `json:"config_dsl"`
	Req    composeReq  `json:"request"`
	ReqRaw string      `json:"request_raw"`
	Remote string      `json:"remote_addr"`
	Expect expectation `json:"expected"`
	Got    observation `json:"observed"`
}

func (f composeFinding) message() string {
	return fmt.Sprintf("%s\nrequest: %s\nexpected: status %d allow %v route %q\nobserved: status %d allow %v stored %d route %q target %q residue %d",
		f.Cfg, f.Req.describe(f.Cfg.Kind), f.Expect.Status, f.Expect.Allow, f.Expect.Route,
		f.Got.Status, f.Got.Allow, f.Got.Stored, f.Got.Route, f.Got.Target, f.Got.Residue)
}

func composeKey(c composeCfg, q composeReq, e expectation, o observation, union bool) string {
	k := "named-compose:" + composeKindNames[c.Kind] + ":"
	switch {
	case o.Residue != 0:
		return k + "store-residue"
	case o.Status != http.StatusAccepted && o.Status != http.StatusNotFound && o.Status != http.StatusMethodNotAllowed:
		return fmt.Sprintf("%sunexpected-status-%d", k, o.Status)
	case o.Status != http.StatusAccepted && o.Stored != 0:
		return k + "enqueue-without-202"
	case o.Status == http.StatusAccepted && e.Status != http.StatusAccepted:
		return k + "foreign-value-admitted"
	case o.Status != http.StatusAccepted && e.Status == http.StatusAccepted:
		return k + "own-value-rejected"
	case o.Status == http.StatusAccepted:
		return k + "stored-message-differs"
	}
	return k + "status-or-allow-differs"
}

func composeServe(b *booted, c composeCfg, q composeReq) (observation, string, string, error) {
	raw, remote := q.raw(c.Kind)
	// serve() takes the peer from the request alphabet of the main family; set it through a one-off spec
	o, err := b.serveRaw(raw, remote)
	return o, raw, remote, err
}

func composeRunOne(c composeCfg, q composeReq, union bool, slot int) (bool, expectation, observation, error) {
	b, err := boot(composeDSL(c, bootSeq.Add(1)), slot)
	if err != nil {
		return false, expectation{}, observation{}, err
	}
	defer b.a.Shutdown()
	o, _, _, err := composeServe(b, c, q)
	if err != nil {
		return false, expectation{}, o, err
	}
	e := composeResolve(c, q, union)
	return !sameOutcome(e, o), e, o, nil
}

func composeConfigs(maxRoutes int) []composeCfg {
	var out []composeCfg
	for kind := 0; kind < nComposeKind; kind++ {
		for _, n := range composeSizes {
			var rec func(forms []int)
			rec = func(forms []int) {
				if len(forms) > 0 {
					out = append(out, composeCfg{Family: "compose", Kind: kind, N: n, Forms: append([]int(nil), forms...)})
				}
				if len(forms) == maxRoutes {
					return
				}
				for f := 0; f < nComposeForm; f++ {
					rec(append(forms, f))
				}
			}
			rec(nil)
		}
	}
	sort.SliceStable(out, func(i, j int) bool { return len(out[i].Forms) < len(out[j].Forms) })
	return out
}

// calibrateCompose measures whether the one-value lists of two attached matchers are unioned.
func calibrateCompose(r *runner.Run) (bool, bool) {
	c := composeCfg{Family: "compose", Kind: ckHost, N: 1, Forms: []int{cfXS}} // @X {x} then @S {s1}
	b, err := boot(composeDSL(c, bootSeq.Add(1)), 904)
	if err != nil {
		r.Infra("calibration named-matcher composition: boot: %v", err)
		return false, false
	}
	defer b.a.Shutdown()
	o, _, _, err := composeServe(b, c, composeReq{Val: lbS1, Z: true})
	if err != nil {
		r.Infra("calibration named-matcher composition: %v", err)
		return false, false
	}
	switch o.Status {
	case http.StatusAccepted:
		r.Assume("docs: `match @name` attaches a named matcher, criteria of a route are ANDed, values of one method/host/remote_ip criterion are alternatives; " +
			"that the lists of several attached matchers (and the inline block) form ONE list per kind is not spelled out; observed on a one-route, one-value probe: unioned; used for all composition cases")
		return true, true
	case http.StatusNotFound, http.StatusMethodNotAllowed:
		r.Assume("lists of several attached matchers of one alternative kind: observed on a one-route, one-value probe: a value must be in every attached list")
		return false, true
	}
	r.Infra("calibration named-matcher composition: unexpected status %d", o.Status)
	return false, false
}

// runCompose enumerates the family and reports its violations; it returns false on an infrastructure error.
func runCompose(r *runner.Run) bool {
	union, ok := calibrateCompose(r)
	if !ok {
		return false
	}
	cfgs := composeConfigs(runner.Pick(r, 2, 3))
	workers := runtime.NumCPU()
	if workers > 16 {
		workers = 16
	}
	type result struct {
		evals, match, n404, n405, compiled int64
		classes                            map[string]struct{}
		finds                              map[string]composeFinding
		infra                              []string
	}
	results := make([]*result, workers)
	var wg sync.WaitGroup
	for w := 0; w < workers; w++ {
		res := &result{classes: map[string]struct{}{}, finds: map[string]composeFinding{}}
		results[w] = res
		wg.Add(1)
		go func(w int) {
			defer wg.Done()
			for ci := w; ci < len(cfgs); ci += workers {
				if len(res.infra) > 0 {
					return
				}
				c := cfgs[ci]
				dsl := composeDSL(c, bootSeq.Add(1))
				parsed, err := config.Parse([]byte(dsl))
				if err != nil {
					res.infra = append(res.infra, fmt.Sprintf("composition DSL does not parse: %v\n%s", err, dsl))
					return
				}
				if _, cr := config.Compile(parsed); !cr.OK {
					res.infra = append(res.infra, fmt.Sprintf("compiler rejected a composition configuration: %v\n%s", cr.Errors, dsl))
					return
				}
				b, err := boot(dsl, 1000+w)
				if err != nil {
					res.infra = append(res.infra, fmt.Sprintf("boot: %v\n%s", err, dsl))
					return
				}
				res.compiled++
				for qi, q := range composeRequests(c) {
					o, raw, remote, err := composeServe(b, c, q)
					if err != nil {
						res.infra = append(res.infra, fmt.Sprintf("serve %s: %v", q.describe(c.Kind), err))
						break
					}
					e := composeResolve(c, q, union)
					res.evals++
					switch e.Status {
					case http.StatusAccepted:
						res.match++
					case http.StatusNotFound:
						res.n404++
					default:
						res.n405++
					}
					oth, me := composeRouteHolds(c, c.Forms[q.Route], q, union)
					class := labelNames[q.Val]
					if existsKind(c.Kind) {
						class = fmt.Sprintf("set%d", qi%len(presenceSets(c.N)))
					} else if c.Kind == ckMethod {
						class = labelNames[q.Method]
					}
					res.classes[fmt.Sprintf("compose|%s|n=%d|%s|%s|z=%v|%s", composeKindNames[c.Kind], c.N, composeFormNames[c.Forms[q.Route]], class, q.Z, verdict(oth && me))] = struct{}{}
					if sameOutcome(e, o) {
						continue
					}
					key := composeKey(c, q, e, o, union)
					rank := int64(ci)<<20 | int64(qi)
					if old, ok := res.finds[key]; ok && old.Rank <= rank {
						continue
					}
					res.finds[key] = composeFinding{Rank: rank, Cfg: c, Config: dsl, Req: q, ReqRaw: raw, Remote: remote, Expect: e, Got: o}
				}
				b.a.Shutdown()
			}
		}(w)
	}
	wg.Wait()
	finds := map[string]composeFinding{}
	good := true
	for _, res := range results {
		for _, m := range res.infra {
			r.Infra("%s", m)
			good = false
		}
		r.Add("evaluations", res.evals)
		r.Add("compose_evaluations", res.evals)
		r.Add("compose_configs", res.compiled)
		r.Add("configs_compiled", res.compiled)
		r.Add("ref_match", res.match)
		r.Add("ref_nomatch", res.n404+res.n405)
		r.Add("ref_nomatch_404", res.n404)
		r.Add("ref_nomatch_405", res.n405)
		for k := range res.classes {
			r.Distinct(k)
		}
		for k, f := range res.finds {
			if old, ok := finds[k]; !ok || f.Rank < old.Rank {
				finds[k] = f
			}
		}
	}
	keys := make([]string, 0, len(finds))
	for k := range finds {
		keys = append(keys, k)
	}
	sort.Strings(keys)
	for _, k := range keys {
		f := finds[k]
		r.Violation(k, f.message(), f, func() bool {
			bad, _, _, err := composeRunOne(f.Cfg, f.Req, union, 905)
			return err == nil && bad
		})
	}
	return good
}

// replayCompose re-runs one recorded case of this family; ok is false when the file is not of this family.
func replayCompose(r *runner.Run, data []byte) (ok bool) {
	var doc struct {
		Key    string `json:"key"`
		Replay struct {
			Cfg composeCfg `json:"config"`
			Req composeReq `json:"request"`
		} `json:"replay"`
	}
	if json.Unmarshal(data, &doc) != nil || doc.Replay.Cfg.Family != "compose" || len(doc.Replay.Cfg.Forms) == 0 {
		return false
	}
	union, cok := calibrateCompose(r)
	if !cok {
		return true
	}
	c, q := doc.Replay.Cfg, doc.Replay.Req
	bad, e, o, err := composeRunOne(c, q, union, 906)
	if err != nil {
		r.Infra("replay: %v", err)
		return true
	}
	r.Add("evaluations", 1)
	r.Distinct("replay|" + doc.Key)
	r.Distinct(fmt.Sprintf("replay-status|%d", o.Status))
	r.Sample(map[string]any{"config": c.String(), "request": q.describe(c.Kind), "expected": e, "observed": o})
	r.NotExhaustive("replay of one case")
	r.Set("rule", "replay of one recorded case")
	if bad {
		raw, remote := q.raw(c.Kind)
		f := composeFinding{Cfg: c, Config: composeDSL(c, 0), Req: q, ReqRaw: raw, Remote: remote, Expect: e, Got: o}
		r.Violation(composeKey(c, q, e, o, union), f.message(), f, nil)
	}
	return true
}
