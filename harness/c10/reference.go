package c10

// Reference resolver for C10, written from the property statement and the
// repository documentation (DESIGN.md "Routing Semantics (Hard Rules)" and
// "Channel Types", docs/configuration.md "Routing Semantics"). It works on the
// harness's own description of the configuration (routeSpec) and of the
// request (reqSpec index tables) — it never sees config.Compiled, an
// *http.Request or any function of the code under test.
//
//   - evaluation is top-down, first match wins; criteria within a route are ANDed
//   - only inbound routes (bare or inside inbound{}) take ingress traffic
//   - "/path" matches /path and /path/... (segment boundary), not /path-foo
//   - method: the route's methods, POST when none
//   - host: case-insensitive, port ignored; exact, "*", or "*.dom" (sub-domains only, apex excluded)
//   - header / query: the required value is present; *_exists: the name is present
//   - remote_ip: the peer address is inside a listed prefix
//   - no route: 404, or 405 + Allow when only the method differs; nothing is enqueued

import (
	"net/http"
	"sort"
	"strings"
)

// interp holds the readings of details the documentation leaves open; the
// harness measures them once on one-route configurations (calibrate) and the
// reference then applies the same reading to every case.
type interp struct {
	CollapseSlashes bool `json:"collapse_slashes"`  // "//a" is treated as "/a"
	HostDotStripped bool `json:"host_dot_stripped"` // "h1." is host h1
	EmptyHostIsAny  bool `json:"empty_host_is_any"` // host "*" accepts a request without Host
	HeaderCommaList bool `json:"header_comma_list"` // "X: 2, 1" carries the value 1
	UnmapV4InV6     bool `json:"unmap_v4_in_v6"`    // ::ffff:10.1.2.3 is 10.1.2.3
}

// criteria of a match shape, written by hand next to matchDSL
type criteria struct {
	methods   []string // empty: POST
	hosts     []string // patterns, empty: any
	hdrValue  string   // header X must carry this value
	hdrExists bool     // header X must be present
	qValue    string   // query q must carry this value
	qExists   bool     // query q must be present
	v4ten     bool     // peer inside 10.0.0.0/8
	v6doc     bool     // peer inside 2001:db8::/32
}

var shapeCriteria = [nMatch]criteria{
	mkNone:          {},
	mkMethodGet:     {methods: []string{"GET"}},
	mkMethodsGetPut: {methods: []string{"GET", "PUT"}},
	mkHostH1:        {hosts: []string{"h1"}},
	mkHostWildD:     {hosts: []string{"*.d"}},
	mkHostStar:      {hosts: []string{"*"}},
	mkHeaderX1:      {hdrValue: "1"},
	mkHeaderExistsX: {hdrExists: true},
	mkQueryQ1:       {qValue: "1"},
	mkQueryExistsQ:  {qExists: true},
	mkIP10:          {v4ten: true},
	mkIP2001:        {v6doc: true},
	mkNamed:         {methods: []string{"PUT"}, hosts: []string{"h1"}, qValue: "1"},
}

// semantic value of every request alphabet entry, written by hand

type hostValue struct {
	absent bool
	name   string // lower case, without port (DESIGN.md: case-insensitive, port ignored)
	dot    bool   // the request spelled it with a trailing dot
}

var hostValues = [nHost]hostValue{
	hostH1:          {name: "h1"},
	hostH1UpperPort: {name: "h1"},
	hostH1Dot:       {name: "h1", dot: true},
	hostXD:          {name: "x.d"},
	hostD:           {name: "d"},
	hostXYD:         {name: "x.y.d"},
	hostAbsent:      {absent: true},
	hostV6Port:      {name: "::1"},
}

// header X: the field values, one per header line
var hdrValues = [nHdr][]string{hdrAbsent: nil, hdr1: {"1"}, hdr2: {"2"}, hdrComma21: {"2, 1"}, hdrTwoLines21: {"2", "1"}, hdrLowerName1: {"1"}}

// query q: the values in order
var queryValues = [nQuery][]string{qAbsent: nil, q1: {"1"}, q2: {"2"}, q21: {"2", "1"}}

type peer struct {
	valid  bool
	v6     bool
	mapped bool // IPv4-mapped IPv6
	octets []byte
}

var peers = [nRemote]peer{
	ra10:       {valid: true, octets: []byte{10, 1, 2, 3}},
	raMapped10: {valid: true, v6: true, mapped: true, octets: []byte{0, 0, 0, 0, 0, 0, 0, 0, 0, 0, 0xff, 0xff, 10, 1, 2, 3}},
	ra192:      {valid: true, octets: []byte{192, 168, 0, 1}},
	ra2001:     {valid: true, v6: true, octets: []byte{0x20, 0x01, 0x0d, 0xb8, 0, 0, 0, 0, 0, 0, 0, 0, 0, 0, 0, 1}},
	raGarbage:  {},
}

// segments of a request path under the calibrated reading
func requestSegments(p string, ip interp) []string {
	parts := strings.Split(strings.TrimPrefix(p, "/"), "/")
	var out []string
	for i, s := range parts {
		switch {
		case s == "..":
			if len(out) > 0 {
				out = out[:len(out)-1]
			}
		case s == ".":
		case s == "":
			// trailing slash: "/a/" is "/a" followed by an empty tail, inside "/a/..." either way
			if i == len(parts)-1 || ip.CollapseSlashes {
				continue
			}
			out = append(out, s)
		default:
			out = append(out, s)
		}
	}
	return out
}

func refPathHolds(routePath, reqPath string, ip interp) bool {
	var rs []string
	for _, s := range strings.Split(routePath, "/") {
		if s != "" {
			rs = append(rs, s)
		}
	}
	qs := requestSegments(reqPath, ip)
	if len(qs) < len(rs) {
		return false
	}
	for i := range rs {
		if rs[i] != qs[i] { // byte-wise: /A is not /a
			return false
		}
	}
	return true
}

func refHostHolds(patterns []string, h hostValue, ip interp) bool {
	if len(patterns) == 0 {
		return true
	}
	for _, p := range patterns {
		if h.absent {
			if p == "*" && ip.EmptyHostIsAny {
				return true
			}
			continue
		}
		name := h.name
		if h.dot && !ip.HostDotStripped {
			name += "."
		}
		switch {
		case p == "*":
			return true
		case strings.HasPrefix(p, "*."):
			dom := strings.Split(p[2:], ".")
			labels := strings.Split(name, ".")
			if len(labels) <= len(dom) { // the apex itself is excluded
				continue
			}
			tail := labels[len(labels)-len(dom):]
			same := true
			for i := range dom {
				if dom[i] != tail[i] {
					same = false
				}
			}
			if same {
				return true
			}
		case p == name:
			return true
		}
	}
	return false
}

func carries(values []string, want string, commaList bool) bool {
	for _, v := range values {
		if v == want {
			return true
		}
		if commaList {
			for _, e := range strings.Split(v, ",") {
				if strings.TrimSpace(e) == want {
					return true
				}
			}
		}
	}
	return false
}

func refPeerHolds(c criteria, p peer, ip interp) bool {
	if !c.v4ten && !c.v6doc {
		return true
	}
	if !p.valid {
		return false
	}
	o, v6 := p.octets, p.v6
	if p.mapped && ip.UnmapV4InV6 {
		o, v6 = o[12:], false
	}
	if c.v4ten && !v6 && o[0] == 10 {
		return true
	}
	if c.v6doc && v6 && o[0] == 0x20 && o[1] == 0x01 && o[2] == 0x0d && o[3] == 0xb8 {
		return true
	}
	return false
}

func routeMethods(c criteria) []string {
	if len(c.methods) == 0 {
		return []string{http.MethodPost}
	}
	return c.methods
}

// refRouteHolds: all criteria of the route other than the path (and, unless withMethod, other than the method) hold.
func refRouteHolds(s routeSpec, q reqSpec, ip interp, withMethod bool) bool {
	c := shapeCriteria[s.Match]
	if !refHostHolds(c.hosts, hostValues[q.Host], ip) {
		return false
	}
	if c.hdrExists && len(hdrValues[q.Hdr]) == 0 {
		return false
	}
	if c.hdrValue != "" && !carries(hdrValues[q.Hdr], c.hdrValue, ip.HeaderCommaList) {
		return false
	}
	if c.qExists && len(queryValues[q.Query]) == 0 {
		return false
	}
	if c.qValue != "" && !carries(queryValues[q.Query], c.qValue, false) {
		return false
	}
	if !refPeerHolds(c, peers[q.Remote], ip) {
		return false
	}
	if withMethod {
		ok := false
		for _, m := range routeMethods(c) {
			if m == reqMethods[q.Method] {
				ok = true
			}
		}
		return ok
	}
	return true
}

// memo caches the pure criterion functions above over the finite alphabets
// (they are evaluated tens of millions of times).
type memo struct {
	ip   interp
	path [4][10]bool
	hold [nMatch][nHost][nHdr][nQuery][nRemote]bool // criteria other than path and method
	meth [nMatch][3]bool
}

func newMemo(ip interp) *memo {
	m := &memo{ip: ip}
	for rp := range routePaths {
		for qp := range reqPaths {
			m.path[rp][qp] = refPathHolds(routePaths[rp], reqPaths[qp], ip)
		}
	}
	for k := 0; k < nMatch; k++ {
		for me := range reqMethods {
			for _, x := range routeMethods(shapeCriteria[k]) {
				if x == reqMethods[me] {
					m.meth[k][me] = true
				}
			}
		}
		for h := 0; h < nHost; h++ {
			for x := 0; x < nHdr; x++ {
				for q := 0; q < nQuery; q++ {
					for ra := 0; ra < nRemote; ra++ {
						m.hold[k][h][x][q][ra] = refRouteHolds(routeSpec{Match: k}, reqSpec{Host: h, Hdr: x, Query: q, Remote: ra}, ip, false)
					}
				}
			}
		}
	}
	return m
}

func (m *memo) pathHolds(s routeSpec, q reqSpec) bool { return m.path[s.Path][q.Path] }
func (m *memo) othersHold(s routeSpec, q reqSpec) bool {
	return m.hold[s.Match][q.Host][q.Hdr][q.Query][q.Remote]
}
func (m *memo) methodHolds(s routeSpec, q reqSpec) bool { return m.meth[s.Match][q.Method] }

// Channel handling of the resolver. Only chanStrict is the oracle; the other
// two are hypotheses used to *name* a mismatch that a non-inbound route causes.
const (
	chanStrict    = iota // outbound and internal routes do not exist for ingress (the property)
	chanBlind            // channel type ignored altogether
	chanAllowOnly        // non-inbound routes never win but still feed the 405/Allow computation
)

// resolve returns the documented outcome: 202 and the winning route position,
// or 405 and the Allow set, or 404.
func (m *memo) resolve(routes []routeSpec, q reqSpec) (int, int, []string) {
	return m.resolveHyp(routes, q, chanStrict, 0, 0)
}

const (
	critPath = iota
	critOthers
	critMethod
	nCrit
)

// resolveHyp is resolve under a hypothesis: a channel mode other than
// chanStrict, and/or the verdict of one criterion negated on the routes in the
// bit mask flip (0: none). Hypotheses only name the class of a mismatch.
func (m *memo) resolveHyp(routes []routeSpec, q reqSpec, mode int, flip uint, flipCrit int) (int, int, []string) {
	var allow []string
	for i, s := range routes {
		if !s.inbound() && mode == chanStrict {
			continue // outbound and internal routes are never reachable from ingress
		}
		v := [nCrit]bool{m.pathHolds(s, q), m.othersHold(s, q), m.methodHolds(s, q)}
		if flip>>uint(i)&1 == 1 {
			v[flipCrit] = !v[flipCrit]
		}
		if !v[critPath] || !v[critOthers] {
			continue
		}
		if v[critMethod] && (s.inbound() || mode == chanBlind) {
			return http.StatusAccepted, i, nil
		}
		for _, x := range routeMethods(shapeCriteria[s.Match]) {
			dup := false
			for _, y := range allow {
				dup = dup || x == y
			}
			if !dup {
				allow = append(allow, x)
			}
		}
	}
	if len(allow) == 0 {
		return http.StatusNotFound, -1, nil
	}
	sort.Strings(allow)
	return http.StatusMethodNotAllowed, -1, allow
}
