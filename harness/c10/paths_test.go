package c10

// "Request path spelling" family of the C10 enumeration.
//
// The main family sends ten hand-picked request paths. This family makes the
// request path alphabet a FUNCTION of the configured route paths and gives it a
// spelling dimension: for every route path p of the configuration (and its
// parent, a child p/x, a sibling, "/" and a path below no route) the alphabet
// contains p itself and p with
//
//	one inserted token at EVERY position (in front of the first segment, between any two segments, behind the last one):
//	  "" (//), runs of 3, 10 and 65 slashes, ".", "..", "../..", "../../../.." (climbs above the root), "x/..", "x/y/../..",
//	  "../n" for every segment name n of the configuration (re-enters the segment just left, or crosses into a sibling route),
//	  percent-encoded dots "%2e%2e", "%2E%2E", ".%2E", "%2e", "x/%2e%2e", an encoded slash "%2f", "x%2f..",
//	  twice-encoded "%252e%252e", "x%252f.." (an ordinary segment however often the server decodes ONCE),
//	  look-alikes that are ordinary segments: "..;", "...", "..%20", "..\..", and an ordinary segment "x" (control);
//	one re-spelled segment at every position: first byte percent-encoded, upper case, n+".", n+"..", "."+n, ".."+n, n+";x", n+"%2f";
//	each followed by nothing, "/.", "/.." (thorough, 1..2 routes: also "/../..", "/%2e%2e", "/x/..", "/..;") and by 0 or 1 (plain path: 2) trailing slashes,
//	sent as POST and GET in origin-form, and as POST in absolute-form ("POST http://h1/p HTTP/1.1", also with an
//	empty path) and with a query that itself contains dot-segments;
//	thorough: two inserted tokens at every pair of positions (two-route configurations).
//
// Every request is raw HTTP/1.1 text parsed by http.ReadRequest, which does not
// normalise the request target, and served by the ingress handler exactly as
// startServers wired it.
//
// Configurations: ordered lists of 1..2 (thorough 1..3) routes over the paths
// {/, /hooks, /hooks/github, /hooks/github/push, /health, /hooks/.well-known}
// (nested pairs in both orders, a sibling pair) x kinds {open (POST), method
// GET, outbound, internal}: the stored message's route tells which route took
// a request, a GET-only route tells 405 from 404, and a spelling must never
// reach an outbound or internal route.
//
// Oracle (pfEffective + pfResolve below): it never parses the wire spelling. A
// request is the harness's own list of elements; each element contributes
// operations on a segment stack (ordinary segment: push; empty segment and ".":
// nothing; "..": pop, nothing at the root) — the effective path in the sense of
// RFC 3986 5.2.4 / path.Clean for rooted paths, which is what the property
// statement's "path incl. dot-segments and trailing slashes" is read against.
// The effective segment list is resolved against the inbound routes in
// configuration order with the segment-prefix rule; 405 + Allow when a route's
// path holds and only the method differs; else 404. Percent-encoded bytes are
// not defined by the repository documentation: whether %2e%2e is a dot-segment,
// %2f a separator and %67 the letter g is measured once, each on a one-route
// configuration with the token in the MIDDLE of the path, and that reading is
// then demanded at every position, in every combination and configuration.

import (
	"encoding/json"
	"fmt"
	"net/http"
	"runtime"
	"sort"
	"strings"
	"sync"
	"time"

	"github.com/nuetzliches/hookaido/internal/config"
	"github.com/nuetzliches/hookaido/internal/verifkit/runner"
)

// ---- configuration alphabet ----------------------------------------------------

var pfPaths = [][]string{
	{},
	{"hooks"},
	{"hooks", "github"},
	{"hooks", "github", "push"},
	{"health"},
	{"hooks", ".well-known"},
}

func pfPathText(segs []string) string { return "/" + strings.Join(segs, "/") }

const (
	pkOpen = iota
	pkGet
	pkOutbound
	pkInternal
	nPfKind
)

var pfKindNames = []string{"open", "method-GET", "outbound", "internal"}

type pfRoute struct {
	Path int `json:"path"`
	Kind int `json:"kind"`
}

func (rt pfRoute) inbound() bool { return rt.Kind == pkOpen || rt.Kind == pkGet }
func (rt pfRoute) methods() []string {
	if rt.Kind == pkGet {
		return []string{"GET"}
	}
	return []string{"POST"} // no method criterion: POST
}

type pfCfg struct {
	Family string    `json:"family"` // "pathfam"
	Routes []pfRoute `json:"routes"`
	Double bool      `json:"rich_alphabet,omitempty"` // thorough tier, 1..2 routes: more tail tokens, and two inserted tokens at every pair of positions
}

func (c pfCfg) valid() bool {
	if c.Family != "pathfam" || len(c.Routes) == 0 || len(c.Routes) > 4 {
		return false
	}
	for _, rt := range c.Routes {
		if rt.Path < 0 || rt.Path >= len(pfPaths) || rt.Kind < 0 || rt.Kind >= nPfKind {
			return false
		}
	}
	return true
}

func (c pfCfg) String() string {
	var rs []string
	for _, rt := range c.Routes {
		rs = append(rs, fmt.Sprintf("%s[%s]", pfPathText(pfPaths[rt.Path]), pfKindNames[rt.Kind]))
	}
	return strings.Join(rs, " ; ")
}

func (c pfCfg) pathSetKey() string {
	idx := make([]int, 0, len(c.Routes))
	for _, rt := range c.Routes {
		idx = append(idx, rt.Path)
	}
	sort.Ints(idx)
	return fmt.Sprint(idx, c.Double)
}

func pfDSL(c pfCfg, slot int64) string {
	var b strings.Builder
	ip := fmt.Sprintf("127.%d.%d.%d", slot>>16&255, slot>>8&255, slot&255)
	fmt.Fprintf(&b, "ingress { listen \"%s:8080\" }\n", ip)
	fmt.Fprintf(&b, "pull_api { listen \"%s:9443\"\n auth token \"raw:g1\" }\n", ip)
	fmt.Fprintf(&b, "admin_api { listen \"%s:2019\" }\n", ip)
	for i, rt := range c.Routes {
		p := pfPathText(pfPaths[rt.Path])
		switch rt.Kind {
		case pkOpen:
			fmt.Fprintf(&b, "%q {\n  pull { path /e%d }\n}\n", p, i)
		case pkGet:
			fmt.Fprintf(&b, "%q {\n  match { method GET }\n  pull { path /e%d }\n}\n", p, i)
		case pkOutbound:
			fmt.Fprintf(&b, "outbound %q {\n  deliver \"https://t.example/h%d\" { timeout 1s }\n}\n", p, i)
		default:
			fmt.Fprintf(&b, "internal {\n  %q {\n    pull { path /e%d }\n  }\n}\n", p, i)
		}
	}
	return b.String()
}

func pfConfigs(thorough bool) []pfCfg {
	var out []pfCfg
	add := func(double bool, rts ...pfRoute) {
		out = append(out, pfCfg{Family: "pathfam", Routes: append([]pfRoute(nil), rts...), Double: double})
	}
	// one route
	for p := range pfPaths {
		for k := 0; k < nPfKind; k++ {
			if !thorough && k >= pkOutbound && p != 2 {
				continue
			}
			add(thorough, pfRoute{p, k})
		}
	}
	// two routes, both orders
	type pair struct{ a, b int }
	pairs := []pair{{0, 1}, {1, 2}, {2, 3}, {1, 3}, {1, 5}, {1, 4}}
	kinds := [][2]int{{pkOpen, pkOpen}, {pkOpen, pkGet}, {pkGet, pkOpen}, {pkGet, pkGet},
		{pkOpen, pkInternal}, {pkInternal, pkOpen}, {pkOpen, pkOutbound}, {pkOutbound, pkOpen}}
	if thorough {
		pairs = nil
		for a := range pfPaths {
			for b := a + 1; b < len(pfPaths); b++ {
				pairs = append(pairs, pair{a, b})
			}
		}
		kinds = nil
		for x := 0; x < nPfKind; x++ {
			for y := 0; y < nPfKind; y++ {
				kinds = append(kinds, [2]int{x, y})
			}
		}
	}
	for _, pr := range pairs {
		for _, k := range kinds {
			add(thorough, pfRoute{pr.a, k[0]}, pfRoute{pr.b, k[1]})
			add(thorough, pfRoute{pr.b, k[1]}, pfRoute{pr.a, k[0]})
		}
	}
	if !thorough {
		return out
	}
	// three routes, every order, kinds {open, method GET, internal}
	triples := [][3]int{{0, 1, 2}, {1, 2, 3}, {1, 2, 4}, {1, 2, 5}, {0, 1, 4}}
	perms := [][3]int{{0, 1, 2}, {0, 2, 1}, {1, 0, 2}, {1, 2, 0}, {2, 0, 1}, {2, 1, 0}}
	k3 := []int{pkOpen, pkGet, pkInternal}
	for _, t := range triples {
		for _, pm := range perms {
			for _, x := range k3 {
				for _, y := range k3 {
					for _, z := range k3 {
						ks := [3]int{x, y, z}
						add(false, pfRoute{t[pm[0]], ks[pm[0]]}, pfRoute{t[pm[1]], ks[pm[1]]}, pfRoute{t[pm[2]], ks[pm[2]]})
					}
				}
			}
		}
	}
	return out
}

// ---- request alphabet ----------------------------------------------------------

// pfInterp: readings of percent-encoded path bytes (not defined by the repository documentation),
// measured once with the token in the middle of the path of a one-route configuration.
type pfInterp struct {
	EncDot    bool `json:"encoded_dot_is_dot"`         // %2e%2e is the dot-segment ".."
	EncSlash  bool `json:"encoded_slash_is_separator"` // %2f separates segments
	EncLetter bool `json:"encoded_letter_is_letter"`   // %67ithub is the segment github
}

// operations of the reference on its segment stack
type pfOp struct {
	up   bool
	name string // push when !up
}

func opLit(n string) pfOp { return pfOp{name: n} }

var opUp = pfOp{up: true}

// a segment that is equal to no route segment: the wire text under a reading that does not decode it
func opForeign(wire string) pfOp { return pfOp{name: "\x00" + wire} }

type pfTokDef struct {
	name      string // class name (class counting, messages)
	group     string // coarser class (violation keys)
	insert    bool   // an inserted token (else: a spelling of a base segment)
	needsName bool   // inserted token that carries a segment name
	wire      func(n string) string
	ops       func(n string, ip pfInterp) []pfOp
}

func fixed(w string, ops ...pfOp) (func(string) string, func(string, pfInterp) []pfOp) {
	return func(string) string { return w }, func(string, pfInterp) []pfOp { return ops }
}

func pfUpper(s string) string { return asciiUpper(s) }

var pfToks []pfTokDef
var pfTokIndex = map[string]int{}

const tkSeg = 0 // the plain base segment

func init() {
	def := func(name string, insert, needsName bool, wire func(string) string, ops func(string, pfInterp) []pfOp) {
		pfTokIndex[name] = len(pfToks)
		pfToks = append(pfToks, pfTokDef{name, pfGroup(name), insert, needsName, wire, ops})
	}
	ins := func(name, w string, ops ...pfOp) {
		wf, of := fixed(w, ops...)
		def(name, true, false, wf, of)
	}
	// spellings of a base segment n
	def("segment", false, false, func(n string) string { return n }, func(n string, _ pfInterp) []pfOp { return []pfOp{opLit(n)} })
	def("segment-first-byte-encoded", false, false,
		func(n string) string { return fmt.Sprintf("%%%02x%s", n[0], n[1:]) },
		func(n string, ip pfInterp) []pfOp {
			if ip.EncLetter {
				return []pfOp{opLit(n)}
			}
			return []pfOp{opForeign(n)}
		})
	def("segment-upper-case", false, false, pfUpper, func(n string, _ pfInterp) []pfOp { return []pfOp{opLit(pfUpper(n))} })
	def("segment+dot", false, false, func(n string) string { return n + "." }, func(n string, _ pfInterp) []pfOp { return []pfOp{opLit(n + ".")} })
	def("segment+dotdot", false, false, func(n string) string { return n + ".." }, func(n string, _ pfInterp) []pfOp { return []pfOp{opLit(n + "..")} })
	def("dot+segment", false, false, func(n string) string { return "." + n }, func(n string, _ pfInterp) []pfOp { return []pfOp{opLit("." + n)} })
	def("dotdot+segment", false, false, func(n string) string { return ".." + n }, func(n string, _ pfInterp) []pfOp { return []pfOp{opLit(".." + n)} })
	def("segment+semicolon", false, false, func(n string) string { return n + ";x" }, func(n string, _ pfInterp) []pfOp { return []pfOp{opLit(n + ";x")} })
	def("segment+encoded-slash", false, false, func(n string) string { return n + "%2f" },
		func(n string, ip pfInterp) []pfOp {
			if ip.EncSlash {
				return []pfOp{opLit(n)} // n followed by an empty segment
			}
			return []pfOp{opForeign(n + "%2f")}
		})
	// inserted tokens
	ins("literal", "x", opLit("x"))
	ins("empty", "")
	ins("empty-x2", "/")
	ins("empty-x9", strings.Repeat("/", 8))
	ins("empty-x64", strings.Repeat("/", 63))
	ins("dot", ".")
	ins("dotdot", "..", opUp)
	ins("dotdot-x2", "../..", opUp, opUp)
	ins("dotdot-x4", "../../../..", opUp, opUp, opUp, opUp)
	ins("literal-dotdot", "x/..", opLit("x"), opUp)
	ins("literal-x2-dotdot-x2", "x/y/../..", opLit("x"), opLit("y"), opUp, opUp)
	def("dotdot-reenter", true, true, func(n string) string { return "../" + n }, func(n string, _ pfInterp) []pfOp { return []pfOp{opUp, opLit(n)} })
	encDot := func(name, w string, asDot ...pfOp) {
		def(name, true, false, func(string) string { return w }, func(_ string, ip pfInterp) []pfOp {
			if ip.EncDot {
				return asDot
			}
			return []pfOp{opForeign(w)}
		})
	}
	encDot("encoded-dotdot", "%2e%2e", opUp)
	encDot("encoded-dotdot-upper-hex", "%2E%2E", opUp)
	encDot("half-encoded-dotdot", ".%2E", opUp)
	encDot("encoded-dot", "%2e")
	def("literal-encoded-dotdot", true, false, func(string) string { return "x/%2e%2e" }, func(_ string, ip pfInterp) []pfOp {
		if ip.EncDot {
			return []pfOp{opLit("x"), opUp}
		}
		return []pfOp{opLit("x"), opForeign("%2e%2e")}
	})
	def("encoded-slash", true, false, func(string) string { return "%2f" }, func(_ string, ip pfInterp) []pfOp {
		if ip.EncSlash {
			return nil // two empty segments
		}
		return []pfOp{opForeign("%2f")}
	})
	def("literal-encoded-slash-dotdot", true, false, func(string) string { return "x%2f.." }, func(_ string, ip pfInterp) []pfOp {
		if ip.EncSlash {
			return []pfOp{opLit("x"), opUp}
		}
		return []pfOp{opForeign("x%2f..")}
	})
	// encoded twice: one decoding leaves the text %2e%2e / %2f, none leaves %252e%252e — an ordinary segment under every reading
	ins("double-encoded-dotdot", "%252e%252e", opForeign("%252e%252e"))
	ins("double-encoded-slash-dotdot", "x%252f..", opForeign("x%252f.."))
	ins("dotdot-semicolon", "..;", opLit("..;"))
	ins("dot-x3", "...", opLit("..."))
	ins("dotdot-space", "..%20", opLit(".. "))
	ins("dotdot-backslash", `..\..`, opLit(`..\..`))
}

// pfGroup: the class of a token in violation keys (the message and the replay file name the exact token).
func pfGroup(name string) string {
	switch name {
	case "segment-first-byte-encoded":
		return "encoded-letter"
	case "segment-upper-case":
		return "segment-case"
	case "segment+dot", "segment+dotdot", "dot+segment", "dotdot+segment", "segment+semicolon":
		return "segment-respelled"
	case "segment+encoded-slash", "encoded-slash", "literal-encoded-slash-dotdot":
		return "encoded-slash"
	case "empty", "empty-x2", "empty-x9", "empty-x64":
		return "empty"
	case "dotdot", "dotdot-x2", "dotdot-x4", "literal-dotdot", "literal-x2-dotdot-x2", "dotdot-reenter":
		return "dotdot"
	case "encoded-dotdot", "encoded-dotdot-upper-hex", "half-encoded-dotdot", "literal-encoded-dotdot":
		return "encoded-dotdot"
	case "double-encoded-dotdot", "double-encoded-slash-dotdot":
		return "double-encoded"
	case "dotdot-semicolon", "dot-x3", "dotdot-space", "dotdot-backslash":
		return "look-alike"
	}
	return name // segment, literal, dot, encoded-dot
}

func tok(name string) int {
	i, ok := pfTokIndex[name]
	if !ok {
		panic("unknown token " + name)
	}
	return i
}

type pfElem struct {
	Tok  int    `json:"token"`
	Name string `json:"name,omitempty"`
	At   string `json:"at,omitempty"`   // start | middle | end (class naming only)
	Tail bool   `json:"tail,omitempty"` // appended behind the element list that was derived first
}

const (
	pfOrigin = iota
	pfAbsolute
	pfAbsoluteEmptyPath
	pfQuery
)

var pfFormNames = []string{"origin-form", "absolute-form", "absolute-form-empty-path", "query-with-dot-segments"}

var pfMethods = []string{"POST", "GET"}

type pfReq struct {
	Elems  []pfElem `json:"elements"`
	Trail  int      `json:"trailing_slashes"`
	Method int      `json:"method"`
	Form   int      `json:"form"`
}

func (q pfReq) valid() bool {
	if q.Method < 0 || q.Method >= len(pfMethods) || q.Form < 0 || q.Form > pfQuery || q.Trail < 0 || q.Trail > 4 || len(q.Elems) > 16 {
		return false
	}
	for _, e := range q.Elems {
		if e.Tok < 0 || e.Tok >= len(pfToks) {
			return false
		}
		if d := pfToks[e.Tok]; (!d.insert || d.needsName) && e.Name == "" {
			return false
		}
	}
	return true
}

// wirePath is the path as written on the request line.
func (q pfReq) wirePath() string {
	ws := make([]string, len(q.Elems))
	for i, e := range q.Elems {
		ws[i] = pfToks[e.Tok].wire(e.Name)
	}
	return "/" + strings.Join(ws, "/") + strings.Repeat("/", q.Trail)
}

func (q pfReq) raw() string {
	p := q.wirePath()
	target := p
	switch q.Form {
	case pfAbsolute:
		target = "http://h1" + p
	case pfAbsoluteEmptyPath:
		target = "http://h1"
	case pfQuery:
		target = p + "?next=/../x/..&p=%2e%2e//./"
	}
	return fmt.Sprintf("%s %s HTTP/1.1\r\nHost: h1\r\nContent-Length: 1\r\n\r\nx", pfMethods[q.Method], target)
}

// insertions: number of elements other than plain segments in front of the tail
func (q pfReq) insertions() int {
	n := 0
	for _, e := range q.Elems {
		if e.Tok != tkSeg && !e.Tail {
			n++
		}
	}
	return n
}

// features: what is not plain about the request (violation keys, class counting).
func (q pfReq) features(withTrail bool) []string { return q.feat(withTrail, false) }

func (q pfReq) feat(withTrail, grouped bool) []string {
	var fs []string
	for _, e := range q.Elems {
		if e.Tok != tkSeg {
			n := pfToks[e.Tok].name
			if grouped {
				n = pfToks[e.Tok].group
			}
			fs = append(fs, n+"@"+e.At)
		}
	}
	if withTrail && q.Trail > 0 {
		fs = append(fs, fmt.Sprintf("trailing-slash-x%d", q.Trail))
	}
	if q.Form != pfOrigin {
		fs = append(fs, pfFormNames[q.Form])
	}
	sort.Strings(fs)
	return fs
}

// ---- reference -------------------------------------------------------------------

// pfEffective: the effective segment list of the request.
func pfEffective(q pfReq, ip pfInterp) []string {
	var stack []string
	for _, e := range q.Elems {
		for _, o := range pfToks[e.Tok].ops(e.Name, ip) {
			if !o.up {
				stack = append(stack, o.name)
			} else if len(stack) > 0 {
				stack = stack[:len(stack)-1]
			}
		}
	}
	// trailing slashes: empty segments
	return stack
}

func pfResolve(c pfCfg, eff []string, method string) expectation {
	var allow []string
	for i, rt := range c.Routes {
		if !rt.inbound() {
			continue // never reachable from ingress
		}
		segs := pfPaths[rt.Path]
		if len(eff) < len(segs) || !sameLabels(eff[:len(segs)], segs) {
			continue
		}
		for _, m := range rt.methods() {
			if m == method {
				return expectation{Status: http.StatusAccepted, Winner: i, Route: pfPathText(segs), Target: "pull"}
			}
		}
		for _, m := range rt.methods() {
			dup := false
			for _, a := range allow {
				dup = dup || a == m
			}
			if !dup {
				allow = append(allow, m)
			}
		}
	}
	if len(allow) == 0 {
		return expectation{Status: http.StatusNotFound, Winner: -1}
	}
	sort.Strings(allow)
	return expectation{Status: http.StatusMethodNotAllowed, Winner: -1, Allow: allow}
}

// ---- alphabet derivation ---------------------------------------------------------

type pfCase struct {
	q   pfReq
	raw string
	eff []string
}

func pfPosClass(pos, n int) string {
	switch {
	case pos >= n:
		return "end"
	case pos == 0:
		return "start"
	}
	return "middle"
}

// pfAlphabet derives the request list from the route paths of the configuration.
func pfAlphabet(c pfCfg, ip pfInterp) []pfCase {
	// segment names and base paths
	var names []string
	seenName := map[string]bool{}
	var bases [][]string
	seenBase := map[string]bool{}
	addBase := func(b []string) {
		k := strings.Join(b, "/")
		if !seenBase[k] {
			seenBase[k] = true
			bases = append(bases, append([]string(nil), b...))
		}
	}
	var paths []int
	for _, rt := range c.Routes {
		paths = append(paths, rt.Path)
	}
	sort.Ints(paths)
	for _, pi := range paths {
		p := pfPaths[pi]
		for _, s := range p {
			if !seenName[s] {
				seenName[s] = true
				names = append(names, s)
			}
		}
		addBase(p)
		addBase(cat(p, "x"))
		if len(p) > 0 {
			addBase(p[:len(p)-1])
			addBase(cat(p[:len(p)-1], "other"))
		}
	}
	addBase(nil)
	addBase([]string{"nothing"})
	names = append(names, "other")

	var insertToks, spellToks []int
	for i, d := range pfToks {
		switch {
		case i == tkSeg:
		case d.insert:
			insertToks = append(insertToks, i)
		default:
			spellToks = append(spellToks, i)
		}
	}
	tails := []int{-1, tok("dot"), tok("dotdot")}
	if c.Double {
		tails = append(tails, tok("dotdot-x2"), tok("encoded-dotdot"), tok("literal-dotdot"), tok("dotdot-semicolon"))
	}
	doubleToks := []int{tok("empty"), tok("dot"), tok("dotdot"), tok("dotdot-x2"), tok("literal-dotdot"), tok("encoded-dotdot"),
		tok("encoded-dot"), tok("encoded-slash"), tok("dotdot-semicolon"), tok("literal"), tok("empty-x9")}

	var out []pfCase
	seen := map[string]bool{}
	emit := func(q pfReq) {
		q.Elems = append([]pfElem(nil), q.Elems...)
		raw := q.raw()
		if seen[raw] {
			return
		}
		seen[raw] = true
		out = append(out, pfCase{q: q, raw: raw, eff: pfEffective(q, ip)})
	}
	// variants of one element list: tails x trailing slashes x methods, other request forms
	variants := func(elems []pfElem, plain, withTails bool) {
		for ti, t := range tails {
			if ti > 0 && !withTails {
				break
			}
			es := elems
			if t >= 0 {
				es = append(append([]pfElem(nil), elems...), pfElem{Tok: t, At: "end", Tail: true})
			}
			maxTrail := 1
			if plain && t < 0 {
				maxTrail = 2
			}
			for trail := 0; trail <= maxTrail; trail++ {
				for m := range pfMethods {
					emit(pfReq{Elems: es, Trail: trail, Method: m})
				}
				if t < 0 && trail <= 1 {
					emit(pfReq{Elems: es, Trail: trail, Form: pfAbsolute})
					emit(pfReq{Elems: es, Trail: trail, Form: pfQuery})
				}
			}
		}
	}
	elemsOf := func(b []string) []pfElem {
		es := make([]pfElem, len(b))
		for i, s := range b {
			es[i] = pfElem{Tok: tkSeg, Name: s}
		}
		return es
	}
	insertAt := func(es []pfElem, pos int, e pfElem) []pfElem {
		o := make([]pfElem, 0, len(es)+1)
		o = append(o, es[:pos]...)
		o = append(o, e)
		return append(o, es[pos:]...)
	}
	withNames := func(t int, f func(e pfElem)) {
		if !pfToks[t].needsName {
			f(pfElem{Tok: t})
			return
		}
		for _, n := range names {
			f(pfElem{Tok: t, Name: n})
		}
	}
	for _, b := range bases {
		n := len(b)
		base := elemsOf(b)
		variants(base, true, true)
		if n == 0 {
			emit(pfReq{Form: pfAbsoluteEmptyPath})
		}
		for pos := 0; pos <= n; pos++ {
			for _, t := range insertToks {
				withNames(t, func(e pfElem) {
					e.At = pfPosClass(pos, n)
					variants(insertAt(base, pos, e), false, true)
				})
			}
		}
		for i := 0; i < n; i++ {
			for _, t := range spellToks {
				es := append([]pfElem(nil), base...)
				es[i] = pfElem{Tok: t, Name: b[i], At: pfPosClass(i+1, n)}
				if i == 0 && n > 1 {
					es[i].At = "start"
				}
				variants(es, false, true)
			}
		}
		if !c.Double {
			continue
		}
		// two inserted tokens at every pair of positions (POST, origin-form, 0..1 trailing slashes)
		for p1 := 0; p1 <= n; p1++ {
			for p2 := p1; p2 <= n; p2++ {
				for _, t1 := range doubleToks {
					for _, t2 := range doubleToks {
						e1 := pfElem{Tok: t1, At: pfPosClass(p1, n)}
						e2 := pfElem{Tok: t2, At: pfPosClass(p2, n)}
						es := insertAt(insertAt(base, p2, e2), p1, e1) // e1 in front of e2
						for trail := 0; trail <= 1; trail++ {
							emit(pfReq{Elems: es, Trail: trail})
						}
					}
				}
			}
		}
	}
	return out
}

// ---- execution ---------------------------------------------------------------------

func pfMismatch(c pfCfg, e expectation, o observation) string {
	switch {
	case o.Residue != 0 || (o.Status != http.StatusAccepted && o.Stored != 0):
		return "store-effect"
	case o.Status == http.StatusAccepted:
		for _, rt := range c.Routes {
			if pfPathText(pfPaths[rt.Path]) == o.Route && !rt.inbound() {
				return pfKindNames[rt.Kind] + "-route-reached"
			}
		}
		if e.Status == http.StatusAccepted {
			if e.Route != o.Route {
				return "handed-to-another-route"
			}
			return "stored-message-differs"
		}
		return "accepted-where-no-route-matches"
	case e.Status != o.Status:
		return fmt.Sprintf("status-%d-for-%d", o.Status, e.Status)
	}
	return "allow-differs"
}

type pfFinding struct {
	Rank     int64       `json:"-"`
	Cfg      pfCfg       `json:"config"`
	Config   string      `json:"config_dsl"`
	Req      pfReq       `json:"request"`
	ReqIdx   int         `json:"request_index"`
	History  int         `json:"requests_served_before"` // 0: reproduces as the only request after boot
	ReqRaw   string      `json:"request_raw"`
	Features []string    `json:"spelling"`
	Eff      string      `json:"effective_path"`
	Expect   expectation `json:"expected"`
	Got      observation `json:"observed"`
	Interp   pfInterp    `json:"interpretation"`
}

func (f pfFinding) message() string {
	return fmt.Sprintf("routes (in order): %s\nrequest: %s %q (%s) spelled with %v; effective path %s\nexpected: status %d allow %v route %q\nobserved: status %d allow %v stored %d route %q target %q residue %d",
		f.Cfg, pfMethods[f.Req.Method], f.Req.wirePath(), pfFormNames[f.Req.Form], f.Features, f.Eff,
		f.Expect.Status, f.Expect.Allow, f.Expect.Route, f.Got.Status, f.Got.Allow, f.Got.Stored, f.Got.Route, f.Got.Target, f.Got.Residue)
}

func pfEffText(eff []string) string {
	return "/" + strings.ReplaceAll(strings.Join(eff, "/"), "\x00", "<undecoded>")
}

// pfRunOne boots the configuration and serves q; history > 0: the first history requests of the configuration's
// alphabet are served before it, as the enumeration did on that boot.
func pfRunOne(c pfCfg, q pfReq, history int, ip pfInterp, slot int) (bool, expectation, observation, error) {
	b, err := boot(pfDSL(c, bootSeq.Add(1)), slot)
	if err != nil {
		return false, expectation{}, observation{}, err
	}
	defer b.a.Shutdown()
	if history > 0 {
		alpha := pfAlphabet(c, ip)
		if history > len(alpha) {
			history = len(alpha)
		}
		for _, pc := range alpha[:history] {
			if _, err := b.serveRaw(pc.raw, "10.1.2.3:1"); err != nil {
				return false, expectation{}, observation{}, err
			}
		}
	}
	o, err := b.serveRaw(q.raw(), "10.1.2.3:1")
	if err != nil {
		return false, expectation{}, o, err
	}
	e := pfResolve(c, pfEffective(q, ip), pfMethods[q.Method])
	return !sameOutcome(e, o), e, o, nil
}

func calibratePaths(r *runner.Run) (pfInterp, bool) {
	c := pfCfg{Family: "pathfam", Routes: []pfRoute{{2, pkOpen}}} // "/hooks/github"
	probe := func(name, path string) (bool, bool) {
		b, err := boot(pfDSL(c, bootSeq.Add(1)), 915)
		if err != nil {
			r.Infra("path calibration %s: boot: %v", name, err)
			return false, false
		}
		defer b.a.Shutdown()
		o, err := b.serveRaw("POST "+path+" HTTP/1.1\r\nHost: h1\r\nContent-Length: 1\r\n\r\nx", "10.1.2.3:1")
		if err != nil {
			r.Infra("path calibration %s: %v", name, err)
			return false, false
		}
		switch o.Status {
		case http.StatusAccepted:
			return true, true
		case http.StatusNotFound, http.StatusMethodNotAllowed:
			return false, true
		}
		r.Infra("path calibration %s: unexpected status %d", name, o.Status)
		return false, false
	}
	var ip pfInterp
	var ok [3]bool
	ip.EncDot, ok[0] = probe("encoded-dotdot", "/hooks/%2e%2e/hooks/github")
	ip.EncSlash, ok[1] = probe("encoded-slash", "/hooks%2fgithub")
	ip.EncLetter, ok[2] = probe("encoded-letter", "/hooks/%67ithub")
	for _, k := range ok {
		if !k {
			return ip, false
		}
	}
	yn := func(b bool, y, n string) string {
		if b {
			return y
		}
		return n
	}
	r.Assume("path family: plain dot-segments, empty segments and trailing slashes are demanded to resolve like the effective (cleaned) path, without calibration. " +
		"Percent-encoded path bytes are not defined by the repository documentation; measured once in the middle of a path on the single route /hooks/github and then demanded " +
		"at every position, in every combination and configuration: %2e%2e " + yn(ip.EncDot, "is the dot-segment ..", "is an ordinary segment") +
		" (POST /hooks/%2e%2e/hooks/github), %2f " + yn(ip.EncSlash, "separates segments", "is part of a segment") +
		" (POST /hooks%2fgithub), %67 " + yn(ip.EncLetter, "is the letter g", "is not decoded") + " (POST /hooks/%67ithub)")
	return ip, true
}

// runPathFamily enumerates the family and reports its violations; it returns false on an infrastructure error.
func runPathFamily(r *runner.Run, deadline time.Time) bool {
	ip, ok := calibratePaths(r)
	if !ok {
		return false
	}
	thorough := r.Thorough()
	started := time.Now()
	defer func() { r.Set("path_family_wall_s", time.Since(started).Seconds()) }()
	cfgs := pfConfigs(thorough)
	workers := runtime.NumCPU()
	if workers > 16 {
		workers = 16
	}
	// request alphabets depend on the set of route paths only
	var alphaMu sync.Mutex
	alphas := map[string][]pfCase{}
	alphabetOf := func(c pfCfg) []pfCase {
		k := c.pathSetKey()
		alphaMu.Lock()
		a, ok := alphas[k]
		alphaMu.Unlock()
		if ok {
			return a
		}
		a = pfAlphabet(c, ip) // read-only after construction
		alphaMu.Lock()
		if old, ok := alphas[k]; ok {
			a = old
		} else {
			alphas[k] = a
		}
		alphaMu.Unlock()
		return a
	}
	type failure struct {
		ci, qi int
		e      expectation
		o      observation
	}
	type result struct {
		evals, compiled, n202, n404, n405 int64
		maxReqs                           int
		classes                           map[string]struct{}
		failures                          []failure
		infra                             []string
		cut                               bool
	}
	results := make([]*result, workers)
	var wg sync.WaitGroup
	for w := 0; w < workers; w++ {
		res := &result{classes: map[string]struct{}{}}
		results[w] = res
		wg.Add(1)
		go func(w int) {
			defer wg.Done()
			for ci := w; ci < len(cfgs); ci += workers {
				if time.Now().After(deadline) {
					res.cut = true
					return
				}
				c := cfgs[ci]
				dsl := pfDSL(c, bootSeq.Add(1))
				parsed, err := config.Parse([]byte(dsl))
				if err != nil {
					res.infra = append(res.infra, fmt.Sprintf("path family DSL does not parse: %v\n%s", err, dsl))
					return
				}
				if _, cr := config.Compile(parsed); !cr.OK {
					res.infra = append(res.infra, fmt.Sprintf("compiler rejected a path family configuration: %v\n%s", cr.Errors, dsl))
					return
				}
				b, err := boot(dsl, 1400+w)
				if err != nil {
					res.infra = append(res.infra, fmt.Sprintf("boot: %v\n%s", err, dsl))
					return
				}
				res.compiled++
				alpha := alphabetOf(c)
				if len(alpha) > res.maxReqs {
					res.maxReqs = len(alpha)
				}
				for qi := range alpha {
					pc := &alpha[qi]
					o, err := b.serveRaw(pc.raw, "10.1.2.3:1")
					if err != nil {
						res.infra = append(res.infra, fmt.Sprintf("path family: serve %q: %v", pc.raw, err))
						break
					}
					e := pfResolve(c, pc.eff, pfMethods[pc.q.Method])
					res.evals++
					switch e.Status {
					case http.StatusAccepted:
						res.n202++
					case http.StatusNotFound:
						res.n404++
					default:
						res.n405++
					}
					if pc.q.insertions() <= 1 { // class counting: (spelling, reference status, depth of the winning route); double insertions are counted by status only
						depth := -1
						if e.Winner >= 0 {
							depth = len(pfPaths[c.Routes[e.Winner].Path])
						}
						res.classes[fmt.Sprintf("pathfam|%s|%d|depth%d", strings.Join(pc.q.features(false), "+"), e.Status, depth)] = struct{}{}
					}
					if !sameOutcome(e, o) {
						res.failures = append(res.failures, failure{ci, qi, e, o})
					}
				}
				b.a.Shutdown()
				if len(res.infra) > 0 {
					return
				}
			}
		}(w)
	}
	wg.Wait()

	good, cut := true, false
	var fails []failure
	maxReqs := 0
	for _, res := range results {
		for _, m := range res.infra {
			r.Infra("%s", m)
			good = false
		}
		cut = cut || res.cut
		r.Add("evaluations", res.evals)
		r.Add("path_family_evaluations", res.evals)
		r.Add("path_family_configs", res.compiled)
		r.Add("configs_compiled", res.compiled)
		r.Add("path_family_ref_202", res.n202)
		r.Add("path_family_ref_404", res.n404)
		r.Add("path_family_ref_405", res.n405)
		r.Add("ref_match", res.n202)
		r.Add("ref_nomatch", res.n404+res.n405)
		r.Add("ref_nomatch_404", res.n404)
		r.Add("ref_nomatch_405", res.n405)
		for k := range res.classes {
			r.Distinct(k)
		}
		if res.maxReqs > maxReqs {
			maxReqs = res.maxReqs
		}
		fails = append(fails, res.failures...)
	}
	if cut {
		r.NotExhaustive("wall budget reached inside the request path spelling family")
	}
	r.Set("path_family_max_requests_per_config", maxReqs)
	r.Set("path_family_spelling_tokens", len(pfToks)-1)
	sort.Slice(fails, func(i, j int) bool {
		if fails[i].ci != fails[j].ci {
			return fails[i].ci < fails[j].ci
		}
		return fails[i].qi < fails[j].qi
	})

	// Naming: a mismatch is named after the spelling features of its request and the kind of mismatch; a request whose
	// features strictly include the features of another failing request is only a further witness of that one.
	caseOf := func(f failure) *pfCase { return &alphabetOf(cfgs[f.ci])[f.qi] }
	failingSets := map[string]bool{}
	for _, f := range fails {
		failingSets[strings.Join(caseOf(f).q.feat(true, true), "+")] = true
	}
	finds := map[string]pfFinding{}
	for _, f := range fails {
		pc := caseOf(f)
		fs := pc.q.feat(true, true)
		explained := false
		if n := len(fs); n > 0 && n <= 8 {
			for mask := 0; mask < 1<<uint(n)-1 && !explained; mask++ { // every strict subset, the empty one included
				var sub []string
				for i := 0; i < n; i++ {
					if mask>>uint(i)&1 == 1 {
						sub = append(sub, fs[i])
					}
				}
				explained = failingSets[strings.Join(sub, "+")]
			}
		}
		if explained {
			continue
		}
		name := strings.Join(fs, "+")
		if name == "" {
			name = "plain"
		}
		key := "pathfam:" + name + ":" + pfMismatch(cfgs[f.ci], f.e, f.o)
		rank := int64(f.ci)<<24 | int64(f.qi)
		if old, ok := finds[key]; ok && old.Rank <= rank {
			continue
		}
		finds[key] = pfFinding{Rank: rank, Cfg: cfgs[f.ci], Config: pfDSL(cfgs[f.ci], 0), Req: pc.q, ReqIdx: f.qi,
			ReqRaw: pc.raw, Features: pc.q.features(true), Eff: pfEffText(pc.eff), Expect: f.e, Got: f.o, Interp: ip}
	}
	keys := make([]string, 0, len(finds))
	for k := range finds {
		keys = append(keys, k)
	}
	sort.Strings(keys)
	for _, k := range keys {
		f := finds[k]
		if bad, _, _, err := pfRunOne(f.Cfg, f.Req, 0, ip, 916); err != nil || !bad {
			f.History = f.ReqIdx
			k = strings.Replace(k, "pathfam:", "pathfam-after-history:", 1)
		}
		r.Violation(k, f.message(), f, func() bool {
			bad, _, _, err := pfRunOne(f.Cfg, f.Req, f.History, ip, 916)
			return err == nil && bad
		})
	}

	// deterministic samples
	for _, s := range []struct {
		c pfCfg
		q pfReq
	}{
		{pfCfg{Family: "pathfam", Routes: []pfRoute{{2, pkOpen}, {1, pkGet}}},
			pfReq{Elems: []pfElem{{Tok: tkSeg, Name: "hooks"}, {Tok: tkSeg, Name: "github"}, {Tok: tok("dotdot"), At: "end"}}}},
		{pfCfg{Family: "pathfam", Routes: []pfRoute{{1, pkInternal}, {2, pkOpen}}},
			pfReq{Elems: []pfElem{{Tok: tkSeg, Name: "hooks"}, {Tok: tok("encoded-dotdot"), At: "middle"}, {Tok: tkSeg, Name: "hooks"}, {Tok: tkSeg, Name: "github"}}, Trail: 1}},
	} {
		_, e, o, err := pfRunOne(s.c, s.q, 0, ip, 917)
		if err != nil {
			r.Infra("path family sample: %v", err)
			good = false
			continue
		}
		r.Sample(map[string]any{"routes": s.c.String(), "request": pfMethods[s.q.Method] + " " + s.q.wirePath(), "effective_path": pfEffText(pfEffective(s.q, ip)),
			"expected_status": e.Status, "expected_route": e.Route, "expected_allow": e.Allow, "observed_status": o.Status, "observed_route": o.Route, "observed_allow": o.Allow})
	}
	return good
}

// replayPaths re-runs one recorded case of this family; ok is false when the file is not of this family.
func replayPaths(r *runner.Run, data []byte) (ok bool) {
	var doc struct {
		Key    string `json:"key"`
		Replay struct {
			Cfg     pfCfg `json:"config"`
			Req     pfReq `json:"request"`
			History int   `json:"requests_served_before"`
		} `json:"replay"`
	}
	if json.Unmarshal(data, &doc) != nil || doc.Replay.Cfg.Family != "pathfam" {
		return false
	}
	c, q := doc.Replay.Cfg, doc.Replay.Req
	if !c.valid() || !q.valid() || doc.Replay.History < 0 {
		r.Infra("replay: path family case out of range")
		return true
	}
	ip, cok := calibratePaths(r)
	if !cok {
		return true
	}
	bad, e, o, err := pfRunOne(c, q, doc.Replay.History, ip, 918)
	if err != nil {
		r.Infra("replay: %v", err)
		return true
	}
	r.Add("evaluations", 1)
	r.Distinct("replay|" + doc.Key)
	r.Distinct(fmt.Sprintf("replay-status|%d", o.Status))
	r.Sample(map[string]any{"config": c.String(), "request": pfMethods[q.Method] + " " + q.wirePath(), "expected": e, "observed": o})
	r.NotExhaustive("replay of one case")
	r.Set("rule", "replay of one recorded case")
	if bad {
		f := pfFinding{Cfg: c, Config: pfDSL(c, 0), Req: q, History: doc.Replay.History, ReqRaw: q.raw(),
			Features: q.features(true), Eff: pfEffText(pfEffective(q, ip)), Expect: e, Got: o, Interp: ip}
		key := doc.Key
		if key == "" {
			key = "pathfam:replay"
		}
		r.Violation(key, f.message(), f, nil)
	}
	return true
}
