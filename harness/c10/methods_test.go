package c10

// "Method list / request sequence" family of the C10 enumeration.
//
// The property is stated per request: the outcome of a request is a function
// of the configuration and of that request alone. The other families serve
// every request once, in one fixed order. This family decides that the outcome
// does not depend on what was served BEFORE: on one booted configuration it
// serves a walk through the request alphabet in which every ordered pair of
// requests (q, q') occurs as two consecutive requests (an Euler circuit of the
// complete digraph with loops: n*n+1 requests for n requests), and compares
// every response with the stateless reference. A 405 whose Allow list changes
// after other 405s, a route whose method list is altered by serving a request,
// a per-path cache that ignores the other criteria — all are visible here.
//
// Configurations (nested and overlapping paths, method lists of every length):
//
//	P  /api           method = the first K of {GET PUT PATCH DELETE OPTIONS REPORT LINK}, K = 0..7 (0: no matcher, POST),
//	                  written inline, through a named matcher, or half inline + half named
//	A  /api/orders    method variants {none, HEAD, GET, HEAD TRACE PUT}
//	G  /api/orders/x  method PROPFIND
//	B  /api/users     method variants {UNLINK, UNLINK HEAD GET MKACTIVITY PUT, none}, optionally host "h1"
//
// in the orders P A G B (general first), G A B P (specific first), A P G B.
// Requests: path {/api, /api/orders/1, /api/orders/x/1, /api/users/1,
// /api/other, /apix} x method {POST, GET, last method of P, HEAD, UNLINK,
// PROPFIND, MKCOL} x Host {h1, h2} (Host only when B requires one).
//
// The same configurations and request alphabets are the thread bodies of the
// free-running -race side pass (race_test.go).

import (
	"encoding/json"
	"fmt"
	"net/http"
	"os"
	"runtime"
	"sort"
	"strings"
	"sync"
	"sync/atomic"
	"time"

	"github.com/nuetzliches/hookaido/internal/config"
	"github.com/nuetzliches/hookaido/internal/verifkit/runner"
)

var mfPool = []string{"GET", "PUT", "PATCH", "DELETE", "OPTIONS", "REPORT", "LINK"}

var mfVariantsA = [][]string{nil, {"HEAD"}, {"GET"}, {"HEAD", "TRACE", "PUT"}}
var mfVariantsB = [][]string{{"UNLINK"}, {"UNLINK", "HEAD", "GET", "MKACTIVITY", "PUT"}, nil}

const (
	mfInline = iota
	mfNamed
	mfSplit
	nMfVia
)

var mfViaNames = []string{"inline", "named", "inline+named"}

const nMfOrder = 3

var mfOrderNames = []string{"P,A,G,B", "G,A,B,P", "A,P,G,B"}

type mfCfg struct {
	Family string `json:"family"` // "methfam"
	K      int    `json:"parent_methods"`
	Via    int    `json:"parent_written"`
	A      int    `json:"orders_variant"`
	B      int    `json:"users_variant"`
	HostB  bool   `json:"users_host"`
	Order  int    `json:"order"`
}

func (c mfCfg) valid() bool {
	return c.K >= 0 && c.K <= len(mfPool) && c.Via >= 0 && c.Via < nMfVia && c.A >= 0 && c.A < len(mfVariantsA) && c.B >= 0 && c.B < len(mfVariantsB) && c.Order >= 0 && c.Order < nMfOrder
}

func (c mfCfg) String() string {
	return fmt.Sprintf("K=%d(%s) A=%v B=%v hostB=%v order=%s", c.K, mfViaNames[c.Via], mfVariantsA[c.A], mfVariantsB[c.B], c.HostB, mfOrderNames[c.Order])
}

// mfRoute is the generator's and the reference's common description of one route.
type mfRoute struct {
	Path    string
	Methods []string // empty: POST
	Host    string   // empty: any
	inline  []string // how Methods is written in the DSL: inline part, named part
	named   []string
	endp    int
}

func mfRoutes(c mfCfg) []mfRoute {
	pm := mfPool[:c.K]
	p := mfRoute{Path: "/api", Methods: pm, inline: pm, endp: 0}
	switch c.Via {
	case mfNamed:
		p.inline, p.named = nil, pm
	case mfSplit:
		h := (c.K + 1) / 2
		p.inline, p.named = pm[:h], pm[h:]
	}
	a := mfRoute{Path: "/api/orders", Methods: mfVariantsA[c.A], inline: mfVariantsA[c.A], endp: 1}
	g := mfRoute{Path: "/api/orders/x", Methods: []string{"PROPFIND"}, inline: []string{"PROPFIND"}, endp: 2}
	b := mfRoute{Path: "/api/users", Methods: mfVariantsB[c.B], inline: mfVariantsB[c.B], endp: 3}
	if c.HostB {
		b.Host = "h1"
	}
	switch c.Order {
	case 0:
		return []mfRoute{p, a, g, b}
	case 1:
		return []mfRoute{g, a, b, p}
	}
	return []mfRoute{a, p, g, b}
}

func mfDSL(c mfCfg, slot int64) string {
	var b strings.Builder
	ip := fmt.Sprintf("127.%d.%d.%d", slot>>16&255, slot>>8&255, slot&255)
	fmt.Fprintf(&b, "ingress { listen \"%s:8080\" }\n", ip)
	fmt.Fprintf(&b, "pull_api { listen \"%s:9443\"\n auth token \"raw:g1\" }\n", ip)
	fmt.Fprintf(&b, "admin_api { listen \"%s:2019\" }\n", ip)
	routes := mfRoutes(c)
	for _, rt := range routes {
		if len(rt.named) > 0 {
			fmt.Fprintf(&b, "@pm { method %s }\n", strings.Join(rt.named, " "))
		}
	}
	for _, rt := range routes {
		fmt.Fprintf(&b, "%s {\n", rt.Path)
		var crit []string
		if len(rt.inline) > 0 {
			crit = append(crit, "method "+strings.Join(rt.inline, " "))
		}
		if rt.Host != "" {
			crit = append(crit, fmt.Sprintf("host %q", rt.Host))
		}
		if len(crit) > 0 {
			fmt.Fprintf(&b, "  match { %s }\n", strings.Join(crit, " "))
		}
		if len(rt.named) > 0 {
			b.WriteString("  match @pm\n")
		}
		fmt.Fprintf(&b, "  pull { path /e%d }\n}\n", rt.endp)
	}
	return b.String()
}

// mfConfigs: the thorough tier is the complete product; the quick tier keeps every K, every way of writing
// the parent's list and every order, and restricts the children to two variants each.
func mfConfigs(complete bool) []mfCfg {
	var out []mfCfg
	for k := 0; k <= len(mfPool); k++ {
		for via := 0; via < nMfVia; via++ {
			if (via == mfNamed && k < 1) || (via == mfSplit && k < 2) {
				continue // nothing to put into the named matcher
			}
			for a := range mfVariantsA {
				for b := range mfVariantsB {
					for _, hb := range []bool{false, true} {
						if !complete && !((a == 1 || a == 3) && ((b == 0 && !hb) || (b == 1 && hb))) {
							continue
						}
						for o := 0; o < nMfOrder; o++ {
							out = append(out, mfCfg{Family: "methfam", K: k, Via: via, A: a, B: b, HostB: hb, Order: o})
						}
					}
				}
			}
		}
	}
	return out
}

type mfReq struct {
	Path   string `json:"path"`
	Method string `json:"method"`
	Host   string `json:"host"`
}

func (q mfReq) String() string { return fmt.Sprintf("%s %s host=%s", q.Method, q.Path, q.Host) }

func (q mfReq) raw() string {
	return fmt.Sprintf("%s %s HTTP/1.1\r\nHost: %s\r\nContent-Length: 1\r\n\r\nx", q.Method, q.Path, q.Host)
}

var mfPaths = []string{"/api", "/api/orders/1", "/api/orders/x/1", "/api/users/1", "/api/other", "/apix"}

func mfRequests(c mfCfg) []mfReq {
	methods := []string{"POST", "GET"}
	if c.K >= 2 {
		methods = append(methods, mfPool[c.K-1])
	}
	methods = append(methods, "HEAD", "UNLINK", "PROPFIND", "MKCOL")
	hosts := []string{"h1"}
	if c.HostB {
		hosts = append(hosts, "h2")
	}
	var out []mfReq
	for _, p := range mfPaths {
		for _, m := range methods {
			for _, h := range hosts {
				out = append(out, mfReq{p, m, h})
			}
		}
	}
	return out
}

// mfResolve: the documented outcome, from the route descriptions alone.
func mfResolve(routes []mfRoute, q mfReq, ip interp) expectation {
	allow := map[string]bool{}
	for i, rt := range routes {
		if !refPathHolds(rt.Path, q.Path, ip) {
			continue
		}
		if rt.Host != "" && rt.Host != q.Host {
			continue
		}
		methods := rt.Methods
		if len(methods) == 0 {
			methods = []string{http.MethodPost}
		}
		for _, m := range methods {
			if m == q.Method {
				return expectation{Status: http.StatusAccepted, Winner: i, Route: rt.Path, Target: "pull"}
			}
		}
		for _, m := range methods {
			allow[m] = true
		}
	}
	if len(allow) == 0 {
		return expectation{Status: http.StatusNotFound, Winner: -1}
	}
	e := expectation{Status: http.StatusMethodNotAllowed, Winner: -1}
	for m := range allow {
		e.Allow = append(e.Allow, m)
	}
	sort.Strings(e.Allow)
	return e
}

// pairWalk returns a sequence over 0..n-1 of length n*n+1 in which every ordered pair (i, j), i == j included,
// occurs exactly once as two consecutive elements: block i is i, (i, j) for j = i+1..n-1; every block ends in
// n-1 (which supplies the pair (n-1, i+1) at the block border), and a closing 0 supplies (n-1, 0).
func pairWalk(n int) []int {
	out := make([]int, 0, n*n+1)
	for i := 0; i < n; i++ {
		out = append(out, i)
		for j := i + 1; j < n; j++ {
			out = append(out, i, j)
		}
	}
	return append(out, 0)
}

type mfFinding struct {
	Rank   int64       `json:"-"`
	Cfg    mfCfg       `json:"config"`
	Config string      `json:"config_dsl"`
	Pos    int         `json:"walk_position"`
	Req    mfReq       `json:"request"`
	Prev   *mfReq      `json:"previous_request,omitempty"`
	Class  string      `json:"reproduces"`
	Expect expectation `json:"expected"`
	Got    observation `json:"observed"`
}

func (f mfFinding) message() string {
	prev := "(first request after boot)"
	if f.Prev != nil {
		prev = f.Prev.String()
	}
	return fmt.Sprintf("%s\nrequest: %s   (position %d of the pair walk, previous request: %s; %s)\nexpected: status %d allow %v route %q\nobserved: status %d allow %v stored %d route %q residue %d",
		f.Cfg, f.Req, f.Pos, prev, f.Class, f.Expect.Status, f.Expect.Allow, f.Expect.Route, f.Got.Status, f.Got.Allow, f.Got.Stored, f.Got.Route, f.Got.Residue)
}

func mfMismatchKind(e expectation, o observation) string {
	switch {
	case o.Residue != 0 || (o.Status != http.StatusAccepted && o.Stored != 0):
		return "store-effect"
	case e.Status != o.Status:
		return fmt.Sprintf("status-%d-for-%d", o.Status, e.Status)
	case e.Status == http.StatusMethodNotAllowed:
		return "allow-differs"
	}
	return "stored-route-differs"
}

// mfServeSeq boots the configuration and serves the requests with the given alphabet indices in order;
// it reports whether the LAST response differs from the reference.
func mfServeSeq(c mfCfg, idx []int, ip interp, slot int) (bool, expectation, observation, error) {
	b, err := boot(mfDSL(c, bootSeq.Add(1)), slot)
	if err != nil {
		return false, expectation{}, observation{}, err
	}
	defer b.a.Shutdown()
	reqs := mfRequests(c)
	var o observation
	for _, i := range idx {
		if o, err = b.serveRaw(reqs[i].raw(), "10.1.2.3:1"); err != nil {
			return false, expectation{}, o, err
		}
	}
	e := mfResolve(mfRoutes(c), reqs[idx[len(idx)-1]], ip)
	return !sameOutcome(e, o), e, o, nil
}

// runMethodFamily enumerates the family and reports its violations; it returns false on an infrastructure error.
func runMethodFamily(r *runner.Run, ip interp, deadline time.Time) bool {
	cfgs := mfConfigs(r.Thorough())
	workers := runtime.NumCPU()
	if workers > 16 {
		workers = 16
	}
	type result struct {
		evals, n202, n404, n405, compiled, pairs int64
		classes                                  map[string]struct{}
		finds                                    map[string]mfFinding
		infra                                    []string
		cut                                      bool
		ov                                       overlapStats
	}
	results := make([]*result, workers)
	var wg sync.WaitGroup
	// watchdog (not an oracle): the overlap part serves a request from inside another request's ResponseWriter call;
	// a handler that held a lock across such a call would block there for ever
	var progress atomic.Int64
	finished := make(chan struct{})
	go func() {
		last, since := int64(-1), time.Now()
		for {
			select {
			case <-finished:
				return
			case <-time.After(5 * time.Second):
			}
			if p := progress.Load(); p != last {
				last, since = p, time.Now()
			} else if time.Since(since) > 5*time.Minute {
				fmt.Printf("INFRA-ERROR property=C10 method list family: no configuration finished for 5 minutes (a nested request blocked inside a ResponseWriter call?)\n")
				os.Exit(2)
			}
		}
	}()
	defer close(finished)
	for w := 0; w < workers; w++ {
		res := &result{classes: map[string]struct{}{}, finds: map[string]mfFinding{}}
		res.ov.finds = map[string]overlapFinding{}
		res.ov.byStatus = map[int]int64{}
		results[w] = res
		wg.Add(1)
		go func(w int) {
			defer wg.Done()
			for ci := w; ci < len(cfgs); ci += workers {
				if time.Now().After(deadline) {
					res.cut = true
					return
				}
				c := cfgs[ci]
				dsl := mfDSL(c, bootSeq.Add(1))
				parsed, err := config.Parse([]byte(dsl))
				if err != nil {
					res.infra = append(res.infra, fmt.Sprintf("method family DSL does not parse: %v\n%s", err, dsl))
					return
				}
				if _, cr := config.Compile(parsed); !cr.OK {
					res.infra = append(res.infra, fmt.Sprintf("compiler rejected a method family configuration: %v\n%s", cr.Errors, dsl))
					return
				}
				b, err := boot(dsl, 1200+w)
				if err != nil {
					res.infra = append(res.infra, fmt.Sprintf("boot: %v\n%s", err, dsl))
					return
				}
				res.compiled++
				routes := mfRoutes(c)
				reqs := mfRequests(c)
				raws := make([]string, len(reqs))
				exps := make([]expectation, len(reqs))
				for i, q := range reqs {
					raws[i] = q.raw()
					exps[i] = mfResolve(routes, q, ip)
				}
				walk := pairWalk(len(reqs))
				res.pairs += int64(len(walk) - 1)
				for pos, qi := range walk {
					o, err := b.serveRaw(raws[qi], "10.1.2.3:1")
					if err != nil {
						res.infra = append(res.infra, fmt.Sprintf("method family: serve %s: %v", reqs[qi], err))
						break
					}
					e := exps[qi]
					res.evals++
					switch e.Status {
					case http.StatusAccepted:
						res.n202++
					case http.StatusNotFound:
						res.n404++
					default:
						res.n405++
					}
					if pos > 0 {
						res.classes[fmt.Sprintf("methseq|%d-after-%d|K=%d|%s", e.Status, exps[walk[pos-1]].Status, c.K, mfOrderNames[c.Order])] = struct{}{}
					}
					if e.Status == http.StatusMethodNotAllowed {
						res.classes[fmt.Sprintf("methfam|allow-size=%d|K=%d|%s|%s", len(e.Allow), c.K, mfViaNames[c.Via], mfOrderNames[c.Order])] = struct{}{}
					}
					if sameOutcome(e, o) {
						continue
					}
					kind := mfMismatchKind(e, o)
					rank := int64(ci)<<24 | int64(pos)
					if old, ok := res.finds[kind]; ok && old.Rank <= rank {
						continue
					}
					f := mfFinding{Rank: rank, Cfg: c, Config: dsl, Pos: pos, Req: reqs[qi], Expect: e, Got: o}
					if pos > 0 {
						p := reqs[walk[pos-1]]
						f.Prev = &p
					}
					res.finds[kind] = f
				}
				// every ordered pair once more, the second request served inside the first one's writer calls (overlap_test.go)
				if len(res.infra) == 0 {
					if err := overlapConfig(b, c, ci, dsl, reqs, raws, exps, &res.ov, res.classes); err != nil {
						res.infra = append(res.infra, "method family: "+err.Error())
					}
				}
				b.a.Shutdown()
				progress.Add(1)
				if len(res.infra) > 0 {
					return
				}
			}
		}(w)
	}
	wg.Wait()

	good, cut := true, false
	finds := map[string]mfFinding{}
	ovFinds := map[string]overlapFinding{}
	for _, res := range results {
		for _, m := range res.infra {
			r.Infra("%s", m)
			good = false
		}
		cut = cut || res.cut
		r.Add("evaluations", res.evals)
		r.Add("method_family_evaluations", res.evals)
		r.Add("method_family_consecutive_pairs", res.pairs)
		r.Add("method_family_configs", res.compiled)
		r.Add("configs_compiled", res.compiled)
		r.Add("ref_match", res.n202)
		r.Add("ref_nomatch", res.n404+res.n405)
		r.Add("ref_nomatch_404", res.n404)
		r.Add("ref_nomatch_405", res.n405)
		for k := range res.classes {
			r.Distinct(k)
		}
		for k, f := range res.finds {
			if old, ok := finds[k]; !ok || f.Rank < old.Rank {
				finds[k] = f
			}
		}
		r.Add("evaluations", res.ov.pairs+res.ov.nested)
		r.Add("overlap_pairs", res.ov.pairs)
		r.Add("ref_match", res.ov.byStatus[http.StatusAccepted])
		r.Add("ref_nomatch", res.ov.byStatus[http.StatusNotFound]+res.ov.byStatus[http.StatusMethodNotAllowed])
		r.Add("ref_nomatch_404", res.ov.byStatus[http.StatusNotFound])
		r.Add("ref_nomatch_405", res.ov.byStatus[http.StatusMethodNotAllowed])
		r.Add("overlap_nested_requests", res.ov.nested)
		for p := range pointNames {
			r.Add("overlap_nested_at_"+pointNames[p], res.ov.byPoint[p])
		}
		for k, f := range res.ov.finds {
			if old, ok := ovFinds[k]; !ok || f.Rank < old.Rank {
				ovFinds[k] = f
			}
		}
	}
	reportOverlap(r, ovFinds, ip)
	if cut {
		r.NotExhaustive("wall budget reached inside the method list family")
	}
	kinds := make([]string, 0, len(finds))
	for k := range finds {
		kinds = append(kinds, k)
	}
	sort.Strings(kinds)
	for _, kind := range kinds {
		f := finds[kind]
		walk := pairWalk(len(mfRequests(f.Cfg)))
		// smallest history that reproduces the mismatch: the request alone on a fresh boot, the request after its
		// predecessor, or the walk up to the request
		seq, class := walk[:f.Pos+1], "history"
		if bad, _, _, err := mfServeSeq(f.Cfg, walk[f.Pos:f.Pos+1], ip, 910); err == nil && bad {
			seq, class = walk[f.Pos:f.Pos+1], "fresh"
		} else if f.Pos > 0 {
			if bad, _, _, err := mfServeSeq(f.Cfg, walk[f.Pos-1:f.Pos+1], ip, 910); err == nil && bad {
				prev := mfResolve(mfRoutes(f.Cfg), *f.Prev, ip)
				seq, class = walk[f.Pos-1:f.Pos+1], fmt.Sprintf("after-%d", prev.Status)
			}
		}
		switch class {
		case "fresh":
			f.Class = "reproduces as the only request after boot"
		case "history":
			f.Class = "reproduces only after the preceding requests of the walk"
		default:
			f.Class = "reproduces after the previous request alone"
		}
		seq = append([]int(nil), seq...)
		r.Violation("methfam:"+class+":"+kind, f.message(), f, func() bool {
			bad, _, _, err := mfServeSeq(f.Cfg, seq, ip, 911)
			return err == nil && bad
		})
	}
	return good
}

// replayMethods re-runs one recorded case of this family (the walk up to the recorded position);
// ok is false when the file is not of this family.
func replayMethods(r *runner.Run, data []byte, ip interp) (ok bool) {
	var doc struct {
		Key    string `json:"key"`
		Replay struct {
			Cfg mfCfg `json:"config"`
			Pos int   `json:"walk_position"`
		} `json:"replay"`
	}
	if json.Unmarshal(data, &doc) != nil || doc.Replay.Cfg.Family != "methfam" {
		return false
	}
	c := doc.Replay.Cfg
	if !c.valid() {
		r.Infra("replay: configuration out of range: %+v", c)
		return true
	}
	reqs := mfRequests(c)
	walk := pairWalk(len(reqs))
	if doc.Replay.Pos < 0 || doc.Replay.Pos >= len(walk) {
		r.Infra("replay: walk position %d out of range", doc.Replay.Pos)
		return true
	}
	bad, e, o, err := mfServeSeq(c, walk[:doc.Replay.Pos+1], ip, 912)
	if err != nil {
		r.Infra("replay: %v", err)
		return true
	}
	q := reqs[walk[doc.Replay.Pos]]
	r.Add("evaluations", int64(doc.Replay.Pos+1))
	r.Distinct("replay|" + doc.Key)
	r.Distinct(fmt.Sprintf("replay-status|%d", o.Status))
	r.Sample(map[string]any{"config": c.String(), "request": q.String(), "walk_position": doc.Replay.Pos, "expected": e, "observed": o})
	r.NotExhaustive("replay of one case")
	r.Set("rule", "replay of one recorded case")
	if bad {
		f := mfFinding{Cfg: c, Config: mfDSL(c, 0), Pos: doc.Replay.Pos, Req: q, Class: "replay of the walk up to the request", Expect: e, Got: o}
		if doc.Replay.Pos > 0 {
			p := reqs[walk[doc.Replay.Pos-1]]
			f.Prev = &p
		}
		key := doc.Key
		if key == "" {
			key = "methfam:replay:" + mfMismatchKind(e, o)
		}
		r.Violation(key, f.message(), f, nil)
	}
	return true
}
