package c10

// "Overlap at the response writer" part of the method list family.
//
// A request that is in flight calls into its http.ResponseWriter (Header, WriteHeader, Write). Each first call
// of the three is a point at which another request can be served completely while the first one is suspended
// — what a second connection does while the first one's goroutine is descheduled inside a write. The overlap
// is produced deterministically and without any hook in the code under test: the writer handed to request A
// serves request B (on a goroutine of its own, A waits for it) before it lets the call through.
//
// For every configuration of the method list family and every ordered pair (A, B) of its request alphabet,
// A is served with such a writer; the status and Allow list of A and of every nested B, and the routes of
// the messages in the store afterwards, are compared with the stateless reference: the outcome of a request
// must not depend on a request served in between. State that one request leaves where the other one reads it
// (a result slice aliasing a compiled route's method list, a scratch buffer kept in the shared state, ...)
// shows up as a wrong Allow list / status / stored route here. What this does not reach is an overlap
// strictly between two instructions that have no writer call in between: that is the -race side pass.

import (
	"bufio"
	"encoding/json"
	"fmt"
	"net/http"
	"net/http/httptest"
	"sort"
	"strings"

	"github.com/nuetzliches/hookaido/internal/queue"
	"github.com/nuetzliches/hookaido/internal/verifkit/runner"
)

const (
	ptHeader = iota
	ptWriteHeader
	ptWrite
	nPoint
)

var pointNames = []string{"Header", "WriteHeader", "Write"}

type nestingWriter struct {
	rec    *httptest.ResponseRecorder
	done   [nPoint]bool
	inject func(point int)
}

func (w *nestingWriter) at(p int) {
	if !w.done[p] {
		w.done[p] = true
		w.inject(p)
	}
}
func (w *nestingWriter) Header() http.Header         { w.at(ptHeader); return w.rec.Header() }
func (w *nestingWriter) WriteHeader(code int)        { w.at(ptWriteHeader); w.rec.WriteHeader(code) }
func (w *nestingWriter) Write(b []byte) (int, error) { w.at(ptWrite); return w.rec.Write(b) }

type respObs struct {
	Point  string   `json:"nested_at,omitempty"`
	Status int      `json:"status"`
	Allow  []string `json:"allow,omitempty"`
}

func allowOf(rec *httptest.ResponseRecorder) []string {
	if rec.Code != http.StatusMethodNotAllowed {
		return nil
	}
	set := map[string]bool{}
	for _, line := range rec.Header().Values("Allow") {
		for _, m := range strings.Split(line, ",") {
			if m = strings.TrimSpace(m); m != "" {
				set[m] = true
			}
		}
	}
	var out []string
	for m := range set {
		out = append(out, m)
	}
	sort.Strings(out)
	return out
}

type overlapObs struct {
	A      respObs   `json:"outer"`
	Nested []respObs `json:"nested"`
	Stored []string  `json:"stored_routes"` // routes of everything in the store afterwards, sorted
}

// serveOverlap serves rawA with rawB nested at every first writer call and empties the store. The nested
// request runs on the calling goroutine, inside the writer call (a handler that holds a lock across a writer
// call would block here for ever; runMethodFamily has a watchdog for that).
func serveOverlap(b *booted, rawA, rawB string, rd *[2]*bufio.Reader) (overlapObs, error) {
	var o overlapObs
	for i := range rd {
		if rd[i] == nil {
			rd[i] = bufio.NewReaderSize(nil, 512)
		}
	}
	rd[0].Reset(strings.NewReader(rawA))
	reqA, err := http.ReadRequest(rd[0])
	if err != nil {
		return o, fmt.Errorf("ReadRequest: %v", err)
	}
	reqA.RemoteAddr = "10.1.2.3:1"
	w := &nestingWriter{rec: httptest.NewRecorder()}
	w.inject = func(p int) {
		rd[1].Reset(strings.NewReader(rawB))
		reqB, err := http.ReadRequest(rd[1])
		if err != nil {
			o.Nested = append(o.Nested, respObs{Point: pointNames[p], Status: -1})
			return
		}
		reqB.RemoteAddr = "10.1.2.3:2"
		rec := httptest.NewRecorder()
		b.a.Ingress.ServeHTTP(rec, reqB)
		o.Nested = append(o.Nested, respObs{Point: pointNames[p], Status: rec.Code, Allow: allowOf(rec)})
	}
	b.a.Ingress.ServeHTTP(w, reqA)
	o.A = respObs{Status: w.rec.Code, Allow: allowOf(w.rec)}
	for {
		resp, err := b.st.Dequeue(queue.DequeueRequest{Batch: 100})
		if err != nil {
			return o, fmt.Errorf("dequeue: %v", err)
		}
		if len(resp.Items) == 0 {
			break
		}
		for _, it := range resp.Items {
			o.Stored = append(o.Stored, it.Route)
			if err := b.st.Ack(it.LeaseID); err != nil {
				return o, fmt.Errorf("ack: %v", err)
			}
		}
	}
	sort.Strings(o.Stored)
	stt, err := b.st.Stats()
	if err != nil {
		return o, fmt.Errorf("stats: %v", err)
	}
	if stt.Total != 0 {
		o.Stored = append(o.Stored, fmt.Sprintf("(%d rows not dequeueable)", stt.Total))
	}
	return o, nil
}

// overlapVerdict compares with the reference; it returns "" when everything is as documented, else the
// name of the first difference.
func overlapVerdict(eA, eB expectation, o overlapObs) string {
	same := func(e expectation, r respObs) bool {
		return e.Status == r.Status && strings.Join(e.Allow, ",") == strings.Join(r.Allow, ",")
	}
	kind := func(e expectation, r respObs) string {
		if e.Status != r.Status {
			return fmt.Sprintf("status-%d-for-%d", r.Status, e.Status)
		}
		return "allow-differs"
	}
	at := "none"
	if len(o.Nested) > 0 {
		at = o.Nested[0].Point
	}
	if !same(eA, o.A) {
		return "outer:first-nested-at-" + at + ":" + kind(eA, o.A)
	}
	var want []string
	if eA.Status == http.StatusAccepted {
		want = append(want, eA.Route)
	}
	for _, n := range o.Nested {
		if !same(eB, n) {
			return "nested-at-" + n.Point + ":" + kind(eB, n)
		}
		if eB.Status == http.StatusAccepted {
			want = append(want, eB.Route)
		}
	}
	sort.Strings(want)
	if strings.Join(want, " ") != strings.Join(o.Stored, " ") {
		return "stored-routes-differ"
	}
	return ""
}

type overlapFinding struct {
	Rank    int64       `json:"-"`
	Cfg     mfCfg       `json:"config"`
	Overlap bool        `json:"overlap"` // marks the replay file
	History bool        `json:"after_history"`
	Config  string      `json:"config_dsl"`
	IA      int         `json:"outer_index"`
	IB      int         `json:"nested_index"`
	A       mfReq       `json:"outer_request"`
	B       mfReq       `json:"nested_request"`
	ExpectA expectation `json:"expected_outer"`
	ExpectB expectation `json:"expected_nested"`
	Got     overlapObs  `json:"observed"`
}

func (f overlapFinding) message() string {
	return fmt.Sprintf("%s\nouter request: %s, nested request (served completely inside the outer one's first Header/WriteHeader/Write call): %s\nexpected: outer status %d allow %v route %q; nested status %d allow %v route %q\nobserved: outer %+v nested %+v stored routes %v",
		f.Cfg, f.A, f.B, f.ExpectA.Status, f.ExpectA.Allow, f.ExpectA.Route, f.ExpectB.Status, f.ExpectB.Allow, f.ExpectB.Route, f.Got.A, f.Got.Nested, f.Got.Stored)
}

// overlapRunOne boots the configuration and serves the pair (ia, ib); with history set, everything the
// enumeration served on that boot before the pair (the pair walk, then the pairs in order) is served first.
func overlapRunOne(c mfCfg, ia, ib int, history bool, ip interp, slot int) (string, expectation, expectation, overlapObs, error) {
	b, err := boot(mfDSL(c, bootSeq.Add(1)), slot)
	if err != nil {
		return "", expectation{}, expectation{}, overlapObs{}, err
	}
	defer b.a.Shutdown()
	reqs := mfRequests(c)
	routes := mfRoutes(c)
	rd := new([2]*bufio.Reader)
	if history {
		for _, qi := range pairWalk(len(reqs)) {
			if _, err := b.serveRaw(reqs[qi].raw(), "10.1.2.3:1"); err != nil {
				return "", expectation{}, expectation{}, overlapObs{}, err
			}
		}
		for a := 0; a <= ia; a++ {
			for bb := 0; bb < len(reqs); bb++ {
				if a == ia && bb >= ib {
					break
				}
				if _, err := serveOverlap(b, reqs[a].raw(), reqs[bb].raw(), rd); err != nil {
					return "", expectation{}, expectation{}, overlapObs{}, err
				}
			}
		}
	}
	o, err := serveOverlap(b, reqs[ia].raw(), reqs[ib].raw(), rd)
	if err != nil {
		return "", expectation{}, expectation{}, o, err
	}
	eA, eB := mfResolve(routes, reqs[ia], ip), mfResolve(routes, reqs[ib], ip)
	return overlapVerdict(eA, eB, o), eA, eB, o, nil
}

type overlapStats struct {
	pairs, nested int64
	byStatus      map[int]int64
	byPoint       [nPoint]int64
	finds         map[string]overlapFinding
	rd            [2]*bufio.Reader
}

// overlapConfig runs every ordered pair of the configuration's request alphabet on the booted configuration.
func overlapConfig(b *booted, c mfCfg, ci int, dsl string, reqs []mfReq, raws []string, exps []expectation, st *overlapStats, classes map[string]struct{}) error {
	n := len(reqs)
	for ia := 0; ia < n; ia++ {
		for ib := 0; ib < n; ib++ {
			o, err := serveOverlap(b, raws[ia], raws[ib], &st.rd)
			if err != nil {
				return fmt.Errorf("overlap %s / %s: %v", reqs[ia], reqs[ib], err)
			}
			st.pairs++
			st.nested += int64(len(o.Nested))
			st.byStatus[exps[ia].Status]++
			st.byStatus[exps[ib].Status] += int64(len(o.Nested))
			for _, nb := range o.Nested {
				for p := range pointNames {
					if pointNames[p] == nb.Point {
						st.byPoint[p]++
					}
				}
				classes[fmt.Sprintf("overlap|outer=%d|nested=%d|at-%s", exps[ia].Status, exps[ib].Status, nb.Point)] = struct{}{}
			}
			v := overlapVerdict(exps[ia], exps[ib], o)
			if v == "" {
				continue
			}
			rank := int64(ci)<<24 | int64(ia*n+ib)
			if old, ok := st.finds[v]; ok && old.Rank <= rank {
				continue
			}
			st.finds[v] = overlapFinding{Rank: rank, Cfg: c, Overlap: true, Config: dsl, IA: ia, IB: ib, A: reqs[ia], B: reqs[ib], ExpectA: exps[ia], ExpectB: exps[ib], Got: o}
		}
	}
	return nil
}

func reportOverlap(r *runner.Run, finds map[string]overlapFinding, ip interp) {
	keys := make([]string, 0, len(finds))
	for k := range finds {
		keys = append(keys, k)
	}
	sort.Strings(keys)
	for _, k := range keys {
		f := finds[k]
		// the pair alone on a fresh boot, else together with everything served before it on that boot
		key := "methfam:overlap:" + k
		if v, _, _, _, err := overlapRunOne(f.Cfg, f.IA, f.IB, false, ip, 913); err != nil || v == "" {
			f.History = true
			key = "methfam:overlap-after-history:" + k
		}
		r.Violation(key, f.message(), f, func() bool {
			v, _, _, _, err := overlapRunOne(f.Cfg, f.IA, f.IB, f.History, ip, 913)
			return err == nil && v != ""
		})
	}
}

// replayOverlap re-runs one recorded pair; ok is false when the file is not of this part.
func replayOverlap(r *runner.Run, data []byte, ip interp) (ok bool) {
	var doc struct {
		Key    string `json:"key"`
		Replay struct {
			Cfg     mfCfg `json:"config"`
			Overlap bool  `json:"overlap"`
			History bool  `json:"after_history"`
			IA      int   `json:"outer_index"`
			IB      int   `json:"nested_index"`
		} `json:"replay"`
	}
	if json.Unmarshal(data, &doc) != nil || doc.Replay.Cfg.Family != "methfam" || !doc.Replay.Overlap {
		return false
	}
	c := doc.Replay.Cfg
	if !c.valid() {
		r.Infra("replay: configuration out of range: %+v", c)
		return true
	}
	reqs := mfRequests(c)
	ia, ib := doc.Replay.IA, doc.Replay.IB
	if ia < 0 || ia >= len(reqs) || ib < 0 || ib >= len(reqs) {
		r.Infra("replay: request index out of range")
		return true
	}
	v, eA, eB, o, err := overlapRunOne(c, ia, ib, doc.Replay.History, ip, 914)
	if err != nil {
		r.Infra("replay: %v", err)
		return true
	}
	r.Add("evaluations", int64(1+len(o.Nested)))
	r.Distinct("replay|" + doc.Key)
	r.Distinct(fmt.Sprintf("replay-status|%d", o.A.Status))
	r.Sample(map[string]any{"config": c.String(), "outer": reqs[ia].String(), "nested": reqs[ib].String(), "expected_outer": eA, "expected_nested": eB, "observed": o})
	r.NotExhaustive("replay of one case")
	r.Set("rule", "replay of one recorded case")
	if v != "" {
		f := overlapFinding{Cfg: c, Overlap: true, History: doc.Replay.History, Config: mfDSL(c, 0), IA: ia, IB: ib, A: reqs[ia], B: reqs[ib], ExpectA: eA, ExpectB: eB, Got: o}
		key := "methfam:overlap:" + v
		if doc.Replay.History {
			key = "methfam:overlap-after-history:" + v
		}
		r.Violation(key, f.message(), f, nil)
	}
	return true
}
