package c10

// Process history family: "what happened to the running gateway since boot" as a dimension of the enumeration.
//
// Every other family of this harness boots a configuration freshly and sends its request table. Here the same kind
// of ordered route list (all channel spellings, overlapping paths, pull and deliver targets, match shapes) is booted
// once and then taken through a sequence of PRODUCTION operations that are documented not to change which route a
// request resolves to:
//
//   - a reload of the unchanged file (run()'s reloadNow = SIGHUP / --watch),
//   - a reload after an unrelated edit (a comment appended; a route appended LAST),
//   - a reload after the file was rewritten with the routes in the opposite order (documented live-reloadable; the
//     reference then resolves on the new order, iff the gateway reports the reload as applied),
//   - a reload the documentation calls restart-required (a deliver route appended: "the previous config stays active"),
//   - a management mutation through the Admin API handler wired by startServers that labels / unlabels ONE route
//     (PUT / DELETE /applications/{application}/endpoints/{endpoint_name}: parse -> label -> Format -> write -> reload).
//
// After every operation of a sequence the configuration's complete request table is served by the ingress handler and
// compared with the reference resolver (reference.go) applied to the route list IN THE ORDER THE HARNESS WROTE IT
// (appended routes behind it, once the gateway has reported the reload as applied). The oracle never reads the file the
// gateway rewrote and never looks at the runtime state; the rewritten file is only recorded in the replay file.
// Whether a reload / mutation is applied or refused is not this property's business: the harness takes the gateway's
// own answer (Reload's result = the config_reloaded_ok log, the Admin API's "applied") and demands the documented
// table for that answer - the appended route is served iff the reload was reported applied, and nothing else changes.

import (
	"encoding/json"
	"fmt"
	"net/http"
	"net/http/httptest"
	"os"
	"runtime"
	"runtime/debug"
	"sort"
	"strings"
	"sync"
	"time"

	"github.com/nuetzliches/hookaido/internal/config"
	"github.com/nuetzliches/hookaido/internal/verifkit/runner"
)

// ---------------------------------------------------------------------------
// configuration alphabet

const (
	hsBare = iota
	hsInWrap
	hsOutShort
	hsIntWrap
	hsInShort
	hsOutWrap
	hsIntShort
	nHfSpell
)

var hfSpellNames = []string{"bare", "inbound{}", "outbound-shorthand", "internal{}", "inbound-shorthand", "outbound{}", "internal-shorthand"}

// channel of a spelling in the reference's terms (only inbound-ness and the name are used there)
var hfSpellChan = []int{chBare, chWrap, chOutbound, chInternal, chWrap, chOutbound, chInternal}
var hfSpellWord = []string{"", "inbound", "outbound", "internal", "inbound", "outbound", "internal"}
var hfSpellWrapped = []bool{false, true, false, true, false, true, false}

type hfRoute struct {
	Path    int  `json:"path"`     // index into routePaths
	Spell   int  `json:"spelling"` // hs*
	Deliver bool `json:"deliver"`  // deliver target instead of a pull endpoint
	Match   int  `json:"match"`    // index into matchDSL (inbound routes only)
	Label   bool `json:"labelled,omitempty"`
	ID      int  `json:"id"` // number in the pull endpoint path / deliver URL
}

func (rt hfRoute) spec() routeSpec {
	return routeSpec{Path: rt.Path, Chan: hfSpellChan[rt.Spell], Match: rt.Match}
}
func (rt hfRoute) inbound() bool { return rt.spec().inbound() }
func (rt hfRoute) target() string {
	if rt.Deliver {
		return fmt.Sprintf("https://t.example/h%d", rt.ID)
	}
	return "pull"
}

func (rt hfRoute) valid() bool {
	if rt.Path < 0 || rt.Path >= len(routePaths) || rt.Spell < 0 || rt.Spell >= nHfSpell || rt.Match < 0 || rt.Match >= nMatch || rt.ID < 0 || rt.ID > 99 {
		return false
	}
	switch hfSpellChan[rt.Spell] {
	case chOutbound: // documented: pull forbidden, deliver required, match forbidden
		return rt.Deliver && rt.Match == mkNone
	case chInternal: // documented: deliver forbidden, pull required, match forbidden
		return !rt.Deliver && rt.Match == mkNone
	}
	return true
}

func (rt hfRoute) String() string {
	kind := "pull"
	if rt.Deliver {
		kind = "deliver"
	}
	s := fmt.Sprintf("%s[%s,%s,%s", routePaths[rt.Path], hfSpellNames[rt.Spell], kind, matchNames[rt.Match])
	if rt.Label {
		s += ",labelled"
	}
	return s + "]"
}

const (
	hfApp      = "app1"
	hfEndpoint = "ep1"
)

func hfRouteBlock(rt hfRoute, indent string) string {
	var b strings.Builder
	fmt.Fprintf(&b, "%s%s {\n", indent, routePaths[rt.Path])
	if rt.Match != mkNone {
		fmt.Fprintf(&b, "%s  %s\n", indent, matchDSL[rt.Match])
	}
	if rt.Label {
		fmt.Fprintf(&b, "%s  application %s\n%s  endpoint_name %s\n", indent, hfApp, indent, hfEndpoint)
	}
	if rt.Deliver {
		fmt.Fprintf(&b, "%s  deliver \"https://t.example/h%d\" { timeout 1s }\n", indent, rt.ID)
	} else {
		fmt.Fprintf(&b, "%s  pull { path /e%d }\n", indent, rt.ID)
	}
	fmt.Fprintf(&b, "%s}\n", indent)
	return b.String()
}

// hfRoutesDSL writes the routes in order; adjacent routes with the same wrapper spelling share one wrapper block.
func hfRoutesDSL(routes []hfRoute) string {
	var b strings.Builder
	for i := 0; i < len(routes); {
		rt := routes[i]
		switch {
		case rt.Spell == hsBare:
			b.WriteString(hfRouteBlock(rt, ""))
			i++
		case !hfSpellWrapped[rt.Spell]:
			b.WriteString(hfSpellWord[rt.Spell] + " " + hfRouteBlock(rt, ""))
			i++
		default:
			b.WriteString(hfSpellWord[rt.Spell] + " {\n")
			for ; i < len(routes) && routes[i].Spell == rt.Spell; i++ {
				b.WriteString(hfRouteBlock(routes[i], "  "))
			}
			b.WriteString("}\n")
		}
	}
	return b.String()
}

func hfDSL(routes []hfRoute, slot int64) string {
	var b strings.Builder
	ip := fmt.Sprintf("127.%d.%d.%d", slot>>16&255, slot>>8&255, slot&255)
	fmt.Fprintf(&b, "ingress { listen \"%s:8080\" }\n", ip)
	fmt.Fprintf(&b, "pull_api { listen \"%s:9443\"\n auth token \"raw:g1\" }\n", ip)
	fmt.Fprintf(&b, "admin_api { listen \"%s:2019\" }\n", ip)
	b.WriteString(namedMatcherDSL)
	b.WriteString(hfRoutesDSL(routes))
	return b.String()
}

func hfRoutesText(routes []hfRoute) string {
	var rs []string
	for _, rt := range routes {
		rs = append(rs, rt.String())
	}
	return strings.Join(rs, " ; ")
}

// ---------------------------------------------------------------------------
// operation alphabet

const (
	hoReload = iota
	hoComment
	hoAppendPull
	hoAppendDeliver
	hoLabel
	hoUnlabel
	hoReverse
	nHfOp
)

var hfOpNames = []string{"reload", "comment-edit-reload", "append-pull-route-reload", "append-deliver-route-reload", "label", "unlabel", "reverse-route-order-reload"}

type hfOp struct {
	Kind  int `json:"kind"`
	Route int `json:"route"` // hoLabel: position of the labelled route in the configuration as written
}

func (o hfOp) valid(n int) bool {
	return o.Kind >= 0 && o.Kind < nHfOp && o.Route >= 0 && (o.Kind != hoLabel || o.Route < n) && (o.Kind == hoLabel || o.Route == 0)
}

func hfOpsKey(ops []hfOp) string {
	if len(ops) == 0 {
		return "boot"
	}
	var s []string
	for _, o := range ops {
		s = append(s, hfOpNames[o.Kind])
	}
	return strings.Join(s, ">")
}

// hfLastOp names a failing history in violation keys: the operation after which the table first differs.
func hfLastOp(ops []hfOp) string {
	if len(ops) == 0 {
		return "boot"
	}
	return hfOpNames[ops[len(ops)-1].Kind]
}

func hfOpsText(ops []hfOp) string {
	if len(ops) == 0 {
		return "boot"
	}
	var s []string
	for _, o := range ops {
		if o.Kind == hoLabel {
			s = append(s, fmt.Sprintf("label(route #%d)", o.Route))
		} else {
			s = append(s, hfOpNames[o.Kind])
		}
	}
	return strings.Join(s, " > ")
}

type hfStats struct {
	reloadsApplied, reloadsRefused, mutationsApplied, mutationsRefused, mutationsNoop int64
}

// hfLive: one booted gateway plus the harness's own record of what it wrote and what the gateway reported as applied.
type hfLive struct {
	b       *booted
	slot    int64     // names the listen addresses of this boot
	orig    []hfRoute // the configuration as written at boot (label(i) names its i-th route)
	file    []hfRoute // routes of the file in the order the harness wrote / appended them
	running []hfRoute // routes of the last configuration the gateway reported as applied
	edits   int
	answers []string // the gateway's answer to every operation (recorded in the replay file)
}

func hfBoot(routes []hfRoute, slot int) (*hfLive, string, error) {
	addr := bootSeq.Add(1)
	dsl := hfDSL(routes, addr)
	b, err := boot(dsl, slot)
	if err != nil {
		return nil, dsl, err
	}
	if b.a.Admin == nil {
		b.a.Shutdown()
		return nil, dsl, fmt.Errorf("no admin handler")
	}
	l := &hfLive{b: b, slot: addr, orig: append([]hfRoute(nil), routes...), file: append([]hfRoute(nil), routes...), running: append([]hfRoute(nil), routes...)}
	return l, dsl, nil
}

// freePath: the first route path of the alphabet the file does not use (-1: none).
func (l *hfLive) freePath() int {
	for p := range routePaths {
		used := false
		for _, rt := range l.file {
			used = used || rt.Path == p
		}
		if !used {
			return p
		}
	}
	return -1
}

func (l *hfLive) appendText(text string) error {
	f, err := os.OpenFile(l.b.a.ConfigPath, os.O_WRONLY|os.O_APPEND, 0o644)
	if err != nil {
		return err
	}
	if _, err := f.WriteString(text); err != nil {
		f.Close()
		return err
	}
	return f.Close()
}

func (l *hfLive) reload(st *hfStats) {
	if l.b.a.Reload("verif-history") {
		l.running = append([]hfRoute(nil), l.file...)
		st.reloadsApplied++
		l.answers = append(l.answers, "reload applied")
		return
	}
	st.reloadsRefused++
	l.answers = append(l.answers, "reload refused")
}

// apply performs one operation on the real gateway; applicable is false when the operation has no meaning in the
// current file (no free route path left to append).
func (l *hfLive) apply(op hfOp, st *hfStats) (applicable bool, err error) {
	switch op.Kind {
	case hoReload:
		l.reload(st)
	case hoComment:
		l.edits++
		if err := l.appendText(fmt.Sprintf("\n# verif: unrelated edit %d\n\n", l.edits)); err != nil {
			return true, err
		}
		l.reload(st)
	case hoAppendPull, hoAppendDeliver:
		p := l.freePath()
		if p < 0 {
			return false, nil
		}
		l.edits++
		rt := hfRoute{Path: p, Spell: hsBare, Deliver: op.Kind == hoAppendDeliver, ID: 50 + l.edits}
		if err := l.appendText("\n" + hfRouteBlock(rt, "")); err != nil {
			return true, err
		}
		l.file = append(l.file, rt)
		l.reload(st)
	case hoReverse:
		// the operator rewrites the file with the routes in the opposite order (documented live-reloadable: "reorder routes")
		rev := make([]hfRoute, len(l.file))
		for i, rt := range l.file {
			rev[len(rev)-1-i] = rt
		}
		if err := os.WriteFile(l.b.a.ConfigPath, []byte(hfDSL(rev, l.slot)), 0o644); err != nil {
			return true, err
		}
		l.file = rev
		l.reload(st)
	case hoLabel, hoUnlabel:
		method, body := http.MethodPut, ""
		if op.Kind == hoLabel {
			if op.Route >= len(l.orig) {
				return false, nil
			}
			body = fmt.Sprintf(`{"route":%q}`, routePaths[l.orig[op.Route].Path])
		} else {
			method = http.MethodDelete
		}
		rq := httptest.NewRequest(method, "/applications/"+hfApp+"/endpoints/"+hfEndpoint, strings.NewReader(body))
		rq.Header.Set("X-Hookaido-Audit-Reason", "verif")
		if body != "" {
			rq.Header.Set("Content-Type", "application/json")
		}
		w := httptest.NewRecorder()
		l.b.a.Admin.ServeHTTP(w, rq)
		var resp struct {
			Applied bool   `json:"applied"`
			Action  string `json:"action"`
		}
		switch {
		case w.Code == http.StatusOK && json.Unmarshal(w.Body.Bytes(), &resp) == nil && resp.Applied:
			// an applied mutation has rewritten and reloaded the whole file
			l.running = append([]hfRoute(nil), l.file...)
			st.mutationsApplied++
			l.answers = append(l.answers, fmt.Sprintf("%s %d applied (%s)", method, w.Code, resp.Action))
		case w.Code == http.StatusOK:
			st.mutationsNoop++
			l.answers = append(l.answers, fmt.Sprintf("%s %d not applied (%s)", method, w.Code, resp.Action))
		default:
			st.mutationsRefused++
			l.answers = append(l.answers, fmt.Sprintf("%s %d", method, w.Code))
		}
	default:
		return false, fmt.Errorf("unknown operation %d", op.Kind)
	}
	return true, nil
}

// ---------------------------------------------------------------------------
// oracle

func hfSpecs(routes []hfRoute) []routeSpec {
	out := make([]routeSpec, len(routes))
	for i, rt := range routes {
		out[i] = rt.spec()
	}
	return out
}

func hfExpect(running []hfRoute, specs []routeSpec, q reqSpec, m *memo) expectation {
	st, w, allow := m.resolve(specs, q)
	e := expectation{Status: st, Winner: w, Allow: allow}
	if w >= 0 {
		e.Route, e.Target = routePaths[running[w].Path], running[w].target()
	}
	return e
}

// hfRequests: the main family's request table for the configuration. PUT is left out when no route of the
// configuration carries a method criterion (it is then answered exactly like GET: 405 or 404).
func hfRequests(routes []hfRoute) []reqSpec {
	methods := false
	for _, rt := range routes {
		methods = methods || len(shapeCriteria[rt.Match].methods) > 0
	}
	all := requestsFor(hfDims(routes))
	if methods {
		return all
	}
	out := all[:0:0]
	for _, q := range all {
		if reqMethods[q.Method] != "PUT" {
			out = append(out, q)
		}
	}
	return out
}

func hfDims(routes []hfRoute) int {
	d := 0
	for _, rt := range routes {
		d |= dimsOfMatch(rt.Match)
	}
	return d
}

// hfMismatch names the kind of a mismatch from the failing case alone.
func hfMismatch(file []hfRoute, e expectation, o observation) string {
	if o.Residue != 0 || (o.Status != http.StatusAccepted && o.Stored != 0) || (o.Status == http.StatusAccepted && o.Stored != 1) {
		return "store-effect"
	}
	if o.Status == http.StatusAccepted {
		for _, rt := range file {
			if routePaths[rt.Path] != o.Route {
				continue
			}
			if !rt.inbound() {
				return chanNames[hfSpellChan[rt.Spell]] + "-route-reached"
			}
			break
		}
		switch {
		case e.Status != http.StatusAccepted:
			return fmt.Sprintf("accepted-where-the-answer-is-%d", e.Status)
		case o.Route != e.Route:
			return "handed-to-another-route"
		default:
			return "target-differs"
		}
	}
	if o.Status != e.Status {
		return fmt.Sprintf("status-%d-for-%d", o.Status, e.Status)
	}
	return "allow-differs"
}

// ---------------------------------------------------------------------------
// families

type hfCfg struct {
	Family string    `json:"family"` // "history"
	Part   string    `json:"part"`
	Routes []hfRoute `json:"routes"`
	seqs   [][]hfOp
}

// shapes: (spelling, target kind) pairs the compiler documents as valid, for the given spellings
func hfShapes(spells []int) []hfRoute {
	var out []hfRoute
	for _, s := range spells {
		for _, d := range []bool{false, true} {
			rt := hfRoute{Spell: s, Deliver: d}
			if rt.valid() {
				out = append(out, rt)
			}
		}
	}
	return out
}

// hfLists: every ordered list of 1..maxN routes with distinct paths from paths x shapes.
func hfLists(paths []int, shapes []hfRoute, minN, maxN int, emit func([]hfRoute)) {
	var cur []hfRoute
	var rec func()
	rec = func() {
		if n := len(cur); n >= minN && n > 0 {
			emit(append([]hfRoute(nil), cur...))
		}
		if len(cur) == maxN {
			return
		}
		for _, p := range paths {
			used := false
			for _, rt := range cur {
				used = used || rt.Path == p
			}
			if used {
				continue
			}
			for _, sh := range shapes {
				rt := sh
				rt.Path, rt.ID = p, len(cur)
				cur = append(cur, rt)
				rec()
				cur = cur[:len(cur)-1]
			}
		}
	}
	rec()
}

func op(kind int) hfOp       { return hfOp{Kind: kind} }
func opLabel(i int) hfOp     { return hfOp{Kind: hoLabel, Route: i} }
func opsOf(o ...hfOp) []hfOp { return o }

// hfBaseSeqs: the operation sequences every configuration of the family is taken through (the request table is
// served after boot and after EVERY operation of every sequence).
func hfBaseSeqs(n int) [][]hfOp { return hfSeqs(n, true) }

// hfSeqs: full = false leaves out the refused-reload and reversed-order sequences (quick tier, 3-route lists).
func hfSeqs(n int, full bool) [][]hfOp {
	seqs := [][]hfOp{
		opsOf(op(hoReload), op(hoReload), op(hoComment)),
		opsOf(op(hoComment), op(hoAppendPull), op(hoReload)),
	}
	if full {
		seqs = append(seqs, opsOf(op(hoAppendDeliver), op(hoReload)), opsOf(op(hoReverse), op(hoReload), op(hoReverse)))
	}
	for i := 0; i < n; i++ {
		seqs = append(seqs, opsOf(opLabel(i), op(hoReload), op(hoUnlabel)))
	}
	return seqs
}

// hfMoreSeqs (thorough): label moves between every ordered pair of routes, and mutations after file edits.
func hfMoreSeqs(n int) [][]hfOp {
	var seqs [][]hfOp
	for i := 0; i < n; i++ {
		for j := 0; j < n; j++ {
			if i != j {
				seqs = append(seqs, opsOf(opLabel(i), opLabel(j), op(hoReload)))
			}
		}
		seqs = append(seqs, opsOf(op(hoAppendPull), opLabel(i), op(hoReload)))
	}
	seqs = append(seqs, opsOf(op(hoAppendDeliver), opLabel(0), op(hoReload)), opsOf(op(hoUnlabel), op(hoReload)))
	return seqs
}

// hfAllSeqs: every sequence of exactly depth operations over the whole operation alphabet.
func hfAllSeqs(n, depth int) [][]hfOp {
	alpha := []hfOp{op(hoReload), op(hoComment), op(hoAppendPull), op(hoAppendDeliver), op(hoUnlabel), op(hoReverse)}
	for i := 0; i < n; i++ {
		alpha = append(alpha, opLabel(i))
	}
	seqs := [][]hfOp{nil}
	for d := 0; d < depth; d++ {
		var next [][]hfOp
		for _, s := range seqs {
			for _, o := range alpha {
				next = append(next, append(append([]hfOp(nil), s...), o))
			}
		}
		seqs = next
	}
	return seqs
}

// hfLabelledSeqs: sequences for a configuration whose file already carries the label on one route.
func hfLabelledSeqs(n, labelled int) [][]hfOp {
	seqs := [][]hfOp{
		opsOf(op(hoUnlabel), op(hoReload)),
		opsOf(op(hoReload), op(hoUnlabel)),
	}
	for j := 0; j < n; j++ {
		if j != labelled {
			seqs = append(seqs, opsOf(opLabel(j), op(hoReload)))
		}
	}
	return seqs
}

var (
	// most specific first: lists whose catch-all comes last are the ones in which the position of every route is
	// observable (behind a leading catch-all nothing else is), so a wall budget cuts the less telling lists
	hfChainPaths = []int{1, 0, 3}    // "/a/b", "/a", "/": every pair overlaps
	hfAllPaths   = []int{1, 0, 2, 3} // plus the sibling "/ab"
	hfSpells4    = []int{hsBare, hsInWrap, hsOutShort, hsIntWrap}
	hfSpells7    = []int{hsBare, hsInWrap, hsOutShort, hsIntWrap, hsInShort, hsOutWrap, hsIntShort}
)

func hfConfigs(thorough bool) []hfCfg {
	var out []hfCfg
	add := func(part string, routes []hfRoute, seqs [][]hfOp) {
		out = append(out, hfCfg{Family: "history", Part: part, Routes: routes, seqs: seqs})
	}
	// (1) order part: every ordered list of 1..3 routes over overlapping paths x channel spellings x {pull, deliver}
	paths := hfChainPaths
	if thorough {
		paths = hfAllPaths
	}
	for n := 1; n <= 3; n++ { // shortest lists first: a wall budget cuts the longest
		hfLists(paths, hfShapes(hfSpells4), n, n, func(routes []hfRoute) {
			seqs := hfSeqs(n, thorough || n < 3)
			if thorough {
				seqs = append(seqs, hfMoreSeqs(n)...)
			}
			add("order", routes, seqs)
		})
		if n == 2 {
			// (2) match part: a route with each match shape in front of / behind an open catch-all: the rewritten file must
			// keep every criterion. (3) labelled part: the file already carries the label.
			hfMatchConfigs(thorough, add)
			hfLabelledConfigs(paths, 2, add)
		}
	}
	if thorough {
		hfLabelledConfigs(paths, 3, add)
		// (4) every spelling incl. shorthand / wrapper twins, every operation sequence of length 2 over the whole alphabet
		for n := 1; n <= 2; n++ {
			hfLists(hfAllPaths, hfShapes(hfSpells7), n, n, func(routes []hfRoute) { add("all-sequences", routes, hfAllSeqs(n, 2)) })
		}
	}
	return out
}

func hfMatchConfigs(thorough bool, add func(string, []hfRoute, [][]hfOp)) {
	type other struct {
		path int
		sh   hfRoute
	}
	others := []other{{3, hfRoute{Spell: hsBare}}}
	xPaths := []int{0}
	if thorough {
		others = nil
		for _, p := range []int{3, 1} { // catch-all "/" and the child "/a/b"
			for _, sh := range hfShapes(hfSpells4) {
				others = append(others, other{p, sh})
			}
		}
		xPaths = []int{0, 1}
	}
	for m := 1; m < nMatch; m++ {
		for _, xp := range xPaths {
			for _, xs := range []hfRoute{{Spell: hsBare}, {Spell: hsInWrap, Deliver: true}} {
				for _, o := range others {
					if o.path == xp {
						continue
					}
					x, y := xs, o.sh
					x.Path, x.Match = xp, m
					y.Path = o.path
					for order := 0; order < 2; order++ {
						routes := []hfRoute{x, y}
						if order == 1 {
							routes = []hfRoute{y, x}
						}
						routes[0].ID, routes[1].ID = 0, 1
						add("match", routes, hfBaseSeqs(2))
					}
				}
			}
		}
	}
}

func hfLabelledConfigs(paths []int, n int, add func(string, []hfRoute, [][]hfOp)) {
	hfLists(paths, hfShapes(hfSpells4), n, n, func(routes []hfRoute) {
		for i := range routes {
			c := append([]hfRoute(nil), routes...)
			c[i].Label = true
			add("labelled", c, hfLabelledSeqs(n, i))
		}
	})
}

// ---------------------------------------------------------------------------
// running

type hfFailure struct {
	ci, si, k, qi int // configuration, sequence, number of operations applied, request
	e             expectation
	o             observation
}

// hfClass: (operations since boot | last operation + channel/target tuple, part, reference status, winner position)
type hfClass struct {
	ops, part string
	status    int16
	winner    int8
}

func (k hfClass) String() string {
	return fmt.Sprintf("history|%s|%s|%d|winner=%d", k.ops, k.part, k.status, k.winner)
}

type hfResult struct {
	evals, configs, boots, tables, n202, n404, n405, ops, skipped int64
	st                                                            hfStats
	classes                                                       map[hfClass]struct{}
	failures                                                      []hfFailure
	infra                                                         []string
	cut                                                           bool
}

// hfTable serves the complete request table and compares it with the reference on the routes reported as applied.
func hfTable(l *hfLive, reqs []reqSpec, raws []string, m *memo, onCase func(qi int, e expectation, o observation)) error {
	specs := hfSpecs(l.running)
	for qi, q := range reqs {
		o, err := l.b.serve(q, raws[qi])
		if err != nil {
			return fmt.Errorf("serve %s: %v", q, err)
		}
		onCase(qi, hfExpect(l.running, specs, q, m), o)
	}
	return nil
}

func hfRunConfig(res *hfResult, ci int, c hfCfg, m *memo, slot int, rawCache map[reqSpec]string) {
	reqs := hfRequests(c.Routes)
	raws := make([]string, len(reqs))
	for i, q := range reqs {
		raw, ok := rawCache[q]
		if !ok {
			raw = q.raw()
			rawCache[q] = raw
		}
		raws[i] = raw
	}
	chans := ""
	for _, rt := range c.Routes {
		chans += chanNames[hfSpellChan[rt.Spell]][:3]
		if rt.Deliver {
			chans += "D."
		} else {
			chans += "P."
		}
	}
	seen := map[string]bool{} // operation prefixes whose table has been served for this configuration
	for si, seq := range c.seqs {
		l, dsl, err := hfBoot(c.Routes, slot)
		if err != nil {
			res.infra = append(res.infra, fmt.Sprintf("history family: boot: %v\n%s", err, dsl))
			return
		}
		res.boots++
		for k := 0; k <= len(seq); k++ {
			if k > 0 {
				applicable, err := l.apply(seq[k-1], &res.st)
				if err != nil {
					res.infra = append(res.infra, fmt.Sprintf("history family: %s: %v\n%s", hfOpsText(seq[:k]), err, dsl))
					l.b.a.Shutdown()
					return
				}
				if !applicable {
					res.skipped++
					break
				}
				res.ops++
			}
			pk := fmt.Sprint(seq[:k])
			if seen[pk] {
				continue
			}
			seen[pk] = true
			res.tables++
			opsKey := hfOpsKey(seq[:k])
			err := hfTable(l, reqs, raws, m, func(qi int, e expectation, o observation) {
				res.evals++
				switch e.Status {
				case http.StatusAccepted:
					res.n202++
				case http.StatusNotFound:
					res.n404++
				default:
					res.n405++
				}
				res.classes[hfClass{opsKey, c.Part, int16(e.Status), int8(e.Winner)}] = struct{}{}
				if k > 0 {
					res.classes[hfClass{"last=" + hfOpNames[seq[k-1].Kind], chans, int16(e.Status), int8(e.Winner)}] = struct{}{}
				}
				if !sameOutcome(e, o) {
					res.failures = append(res.failures, hfFailure{ci, si, k, qi, e, o})
				}
			})
			if err != nil {
				res.infra = append(res.infra, fmt.Sprintf("history family: after %s: %v\n%s", hfOpsText(seq[:k]), err, dsl))
				l.b.a.Shutdown()
				return
			}
		}
		l.b.a.Shutdown()
	}
	res.configs++
}

type hfFinding struct {
	Rank     int64       `json:"-"`
	Cfg      hfCfg       `json:"config"`
	Ops      []hfOp      `json:"operations"`
	Req      reqSpec     `json:"request"`
	Config   string      `json:"config_dsl"`
	OpsText  string      `json:"operations_text"`
	Answers  []string    `json:"gateway_answers,omitempty"`
	FileNow  string      `json:"file_after_operations_recorded_only,omitempty"`
	ReqRaw   string      `json:"request_raw"`
	Remote   string      `json:"remote_addr"`
	Expect   expectation `json:"expected"`
	Got      observation `json:"observed"`
	Interp   interp      `json:"interpretation"`
	RefOrder string      `json:"reference_route_order"`
	// History > 0: differs from the reference only after the History requests that precede it in the request table
	// (hfRequests) were served between the last operation and the request
	History int `json:"requests_served_before,omitempty"`
	QI      int `json:"-"`
}

func (f hfFinding) message() string {
	if f.History > 0 {
		f.OpsText += fmt.Sprintf(" > the %d requests that precede this one in the request table", f.History)
	}
	return fmt.Sprintf("routes as written (in order): %s\nhistory: boot > %s\nrequest: %s\nexpected (reference on the order as written): status %d allow %v route %q target %q\nobserved: status %d allow %v stored %d route %q target %q residue %d",
		hfRoutesText(f.Cfg.Routes), f.OpsText, f.Req, f.Expect.Status, f.Expect.Allow, f.Expect.Route, f.Expect.Target,
		f.Got.Status, f.Got.Allow, f.Got.Stored, f.Got.Route, f.Got.Target, f.Got.Residue)
}

// hfRunOne: fresh boot, the operations, one request (replay / recheck / samples).
func hfRunOne(routes []hfRoute, ops []hfOp, q reqSpec, m *memo, slot int) (bad bool, e expectation, o observation, l *hfLive, fileNow string, err error) {
	return hfRunAfter(routes, ops, nil, q, m, slot)
}

// hfRunAfter: as hfRunOne, with the requests in before served (in order) between the last operation and the request.
func hfRunAfter(routes []hfRoute, ops []hfOp, before []reqSpec, q reqSpec, m *memo, slot int) (bad bool, e expectation, o observation, l *hfLive, fileNow string, err error) {
	l, _, err = hfBoot(routes, slot)
	if err != nil {
		return false, e, o, nil, "", err
	}
	defer l.b.a.Shutdown()
	var st hfStats
	for _, x := range ops {
		applicable, err := l.apply(x, &st)
		if err != nil {
			return false, e, o, l, "", err
		}
		if !applicable {
			return false, e, o, l, "", fmt.Errorf("operation %s is not applicable", hfOpNames[x.Kind])
		}
	}
	if data, rerr := os.ReadFile(l.b.a.ConfigPath); rerr == nil {
		fileNow = string(data) // recorded only
	}
	for _, p := range before {
		if _, err = l.b.serve(p, p.raw()); err != nil {
			return false, e, o, l, fileNow, err
		}
	}
	o, err = l.b.serve(q, q.raw())
	if err != nil {
		return false, e, o, l, fileNow, err
	}
	e = hfExpect(l.running, hfSpecs(l.running), q, m)
	return !sameOutcome(e, o), e, o, l, fileNow, nil
}

// runHistoryFamily enumerates the family and reports its violations; it returns false on an infrastructure error.
func runHistoryFamily(r *runner.Run, m *memo, deadline time.Time) bool {
	started := time.Now()
	if own := started.Add(runner.Pick(r, 22*time.Second, 4*time.Minute)); own.Before(deadline) {
		deadline = own
	}
	defer func() { r.Set("history_family_wall_s", time.Since(started).Seconds()) }()
	defer debug.SetGCPercent(debug.SetGCPercent(800)) // thousands of short-lived boots
	cfgs := hfConfigs(r.Thorough())
	workers := runtime.NumCPU()
	if workers > 16 {
		workers = 16
	}
	results := make([]*hfResult, workers)
	var wg sync.WaitGroup
	for w := 0; w < workers; w++ {
		res := &hfResult{classes: map[hfClass]struct{}{}}
		results[w] = res
		wg.Add(1)
		go func(w int) {
			defer wg.Done()
			rawCache := map[reqSpec]string{}
			for ci := w; ci < len(cfgs); ci += workers {
				if time.Now().After(deadline) {
					res.cut = true
					return
				}
				c := cfgs[ci]
				dsl := hfDSL(c.Routes, bootSeq.Add(1))
				parsed, err := config.Parse([]byte(dsl))
				if err != nil {
					res.infra = append(res.infra, fmt.Sprintf("history family DSL does not parse: %v\n%s", err, dsl))
					return
				}
				if _, cr := config.Compile(parsed); !cr.OK {
					res.infra = append(res.infra, fmt.Sprintf("compiler rejected a history family configuration: %v\n%s", cr.Errors, dsl))
					return
				}
				hfRunConfig(res, ci, c, m, 1500+w, rawCache)
				if len(res.infra) > 0 {
					return
				}
			}
		}(w)
	}
	wg.Wait()

	good, cut := true, false
	var fails []hfFailure
	var tot hfResult
	for _, res := range results {
		for _, msg := range res.infra {
			r.Infra("%s", msg)
			good = false
		}
		cut = cut || res.cut
		r.Add("evaluations", res.evals)
		r.Add("history_family_evaluations", res.evals)
		r.Add("history_family_configs", res.configs)
		r.Add("configs_compiled", res.configs)
		r.Add("history_family_boots", res.boots)
		r.Add("history_family_operations", res.ops)
		r.Add("history_family_request_tables", res.tables)
		r.Add("history_family_reloads_applied", res.st.reloadsApplied)
		r.Add("history_family_reloads_refused", res.st.reloadsRefused)
		r.Add("history_family_mutations_applied", res.st.mutationsApplied)
		r.Add("history_family_mutations_refused", res.st.mutationsRefused)
		r.Add("history_family_mutations_noop", res.st.mutationsNoop)
		r.Add("history_family_operations_not_applicable", res.skipped)
		r.Add("ref_match", res.n202)
		r.Add("ref_nomatch", res.n404+res.n405)
		r.Add("ref_nomatch_404", res.n404)
		r.Add("ref_nomatch_405", res.n405)
		for k := range res.classes {
			r.Distinct(k.String())
		}
		fails = append(fails, res.failures...)
		tot.configs += res.configs
	}
	r.Set("history_family_configs_enumerated", len(cfgs))
	if cut {
		r.NotExhaustive(fmt.Sprintf("wall budget reached inside the process history family (%d of %d configurations)", tot.configs, len(cfgs)))
	}
	sort.Slice(fails, func(i, j int) bool {
		a, b := fails[i], fails[j]
		if a.ci != b.ci {
			return a.ci < b.ci
		}
		if a.k != b.k {
			return a.k < b.k
		}
		if a.si != b.si {
			return a.si < b.si
		}
		return a.qi < b.qi
	})

	// Naming: the operation after which the table first differs + kind of mismatch (the whole history is in the
	// message and the replay file). A history one of whose strict prefixes already fails on the same configuration is
	// only a further witness of that prefix.
	failing := map[string]bool{}
	for _, f := range fails {
		failing[fmt.Sprintf("%d|%v", f.ci, cfgs[f.ci].seqs[f.si][:f.k])] = true
	}
	finds := map[string]hfFinding{}
	for _, f := range fails {
		c := cfgs[f.ci]
		ops := c.seqs[f.si][:f.k]
		explained := false
		for k := 0; k < f.k && !explained; k++ {
			explained = failing[fmt.Sprintf("%d|%v", f.ci, ops[:k])]
		}
		if explained {
			continue
		}
		reqs := hfRequests(c.Routes)
		q := reqs[f.qi]
		// the file the harness wrote plus what it appended (for the channel of a route that was reached)
		file := append([]hfRoute(nil), c.Routes...)
		key := "history:after-" + hfLastOp(ops) + ":" + hfMismatch(file, f.e, f.o)
		rank := int64(f.ci)<<32 | int64(f.k)<<28 | int64(f.si)<<20 | int64(f.qi)
		if old, ok := finds[key]; ok && old.Rank <= rank {
			continue
		}
		finds[key] = hfFinding{Rank: rank, Cfg: c, Ops: append([]hfOp(nil), ops...), Req: q, Config: hfDSL(c.Routes, 0), OpsText: hfOpsText(ops),
			ReqRaw: q.raw(), Remote: reqRemotes[q.Remote], Expect: f.e, Got: f.o, Interp: m.ip, RefOrder: hfRoutesText(c.Routes), QI: f.qi}
	}
	keys := make([]string, 0, len(finds))
	for k := range finds {
		keys = append(keys, k)
	}
	sort.Strings(keys)
	for _, k := range keys {
		f := finds[k]
		bad, _, _, l, fileNow, err := hfRunOne(f.Cfg.Routes, f.Ops, f.Req, m, 920)
		if err == nil && l != nil {
			f.Answers, f.FileNow = l.answers, fileNow
		}
		// the request alone after the operations, else after the requests served before it in the same table: an
		// outcome that earlier requests changed is a violation of its own class
		var before []reqSpec
		if (err != nil || !bad) && f.QI > 0 {
			f.History = f.QI
			before = hfRequests(f.Cfg.Routes)[:f.QI]
			k = strings.Replace(k, "history:", "history-after-requests:", 1)
		}
		r.Violation(k, f.message(), f, func() bool {
			bad, _, _, _, _, err := hfRunAfter(f.Cfg.Routes, f.Ops, before, f.Req, m, 921)
			return err == nil && bad
		})
	}

	// deterministic samples
	for _, s := range []struct {
		routes []hfRoute
		ops    []hfOp
		q      reqSpec
	}{
		{[]hfRoute{{Path: 1, Spell: hsBare, Deliver: true, ID: 0}, {Path: 0, Spell: hsBare, ID: 1}, {Path: 3, Spell: hsOutShort, Deliver: true, ID: 2}},
			opsOf(op(hoReload)), reqSpec{Path: 3}},
		{[]hfRoute{{Path: 1, Spell: hsInWrap, ID: 0}, {Path: 3, Spell: hsBare, ID: 1}, {Path: 0, Spell: hsInWrap, ID: 2}},
			opsOf(opLabel(0), op(hoReload)), reqSpec{Path: 0}},
	} {
		_, e, o, l, _, err := hfRunOne(s.routes, s.ops, s.q, m, 922)
		if err != nil {
			r.Infra("history family sample: %v", err)
			good = false
			continue
		}
		r.Sample(map[string]any{"routes": hfRoutesText(s.routes), "history": "boot > " + hfOpsText(s.ops), "gateway_answers": l.answers, "request": s.q.String(),
			"expected_status": e.Status, "expected_route": e.Route, "observed_status": o.Status, "observed_route": o.Route, "observed_target": o.Target})
	}
	return good
}

// replayHistory re-runs one recorded case of this family; ok is false when the file is not of this family.
func replayHistory(r *runner.Run, data []byte, m *memo) (ok bool) {
	var doc struct {
		Key    string `json:"key"`
		Replay struct {
			Cfg     hfCfg   `json:"config"`
			Ops     []hfOp  `json:"operations"`
			Req     reqSpec `json:"request"`
			History int     `json:"requests_served_before"`
		} `json:"replay"`
	}
	if json.Unmarshal(data, &doc) != nil || doc.Replay.Cfg.Family != "history" {
		return false
	}
	c, ops, q := doc.Replay.Cfg, doc.Replay.Ops, doc.Replay.Req
	valid := len(c.Routes) > 0 && len(c.Routes) <= 4 && len(ops) <= 8 &&
		q.Path >= 0 && q.Path < len(reqPaths) && q.Method >= 0 && q.Method < len(reqMethods) && q.Host >= 0 && q.Host < nHost &&
		q.Hdr >= 0 && q.Hdr < nHdr && q.Query >= 0 && q.Query < nQuery && q.Remote >= 0 && q.Remote < nRemote
	for _, rt := range c.Routes {
		valid = valid && rt.valid()
	}
	for _, o := range ops {
		valid = valid && o.valid(len(c.Routes))
	}
	if !valid {
		r.Infra("replay: history family case out of range")
		return true
	}
	var before []reqSpec
	if n := doc.Replay.History; n > 0 {
		table := hfRequests(c.Routes)
		for i, p := range table {
			if p == q && i >= n {
				before = table[i-n : i]
			}
		}
		if before == nil {
			r.Infra("replay: history family case: request history out of range")
			return true
		}
	}
	bad, e, o, l, fileNow, err := hfRunAfter(c.Routes, ops, before, q, m, 923)
	if err != nil {
		r.Infra("replay: %v", err)
		return true
	}
	r.Add("evaluations", 1)
	r.Distinct("replay|" + doc.Key)
	r.Distinct(fmt.Sprintf("replay-status|%d", o.Status))
	r.Sample(map[string]any{"routes": hfRoutesText(c.Routes), "history": "boot > " + hfOpsText(ops), "gateway_answers": l.answers, "request": q.String(), "expected": e, "observed": o})
	r.NotExhaustive("replay of one case")
	r.Set("rule", "replay of one recorded case")
	if bad {
		f := hfFinding{Cfg: c, Ops: ops, Req: q, Config: hfDSL(c.Routes, 0), OpsText: hfOpsText(ops), Answers: l.answers, FileNow: fileNow,
			ReqRaw: q.raw(), Remote: reqRemotes[q.Remote], Expect: e, Got: o, Interp: m.ip, RefOrder: hfRoutesText(c.Routes), History: len(before)}
		key := doc.Key
		if key == "" {
			key = "history:after-" + hfLastOp(ops) + ":" + hfMismatch(l.file, e, o)
		}
		r.Violation(key, f.message(), f, nil)
	}
	return true
}
