package c10

// "Peer address" family of the C10 enumeration.
//
// The statement's remote-IP criterion is about the REMOTE address of the
// request (DESIGN.md: "match.remote_ip matches request source IP from
// connection RemoteAddr"). Everything else a request carries is chosen by the
// sender. This family crosses the connection's peer address (loopback,
// private, link-local, unique-local, documentation and public addresses, v4,
// v6 and IPv4-mapped; the classes a deployment behind a local proxy would
// produce) with request headers that NAME an address (the conventional
// client-address headers, each with values derived from the route's own
// remote_ip list: an address inside every listed prefix, an address outside,
// first / last of a list, with a port, on two header lines, Forwarded syntax)
// and demands that only the peer decides: the reference resolver below does
// not look at headers at all.
//
// Configurations: route /a with `match { remote_ip <list> }` for every list of
// the alphabet, alone and in front of an open catch-all "/".

import (
	"encoding/json"
	"fmt"
	"net/http"
	"sort"
	"strings"
	"sync"
	"time"

	"github.com/nuetzliches/hookaido/internal/verifkit/runner"
)

// a prefix written by hand: the leading Bits bits of Octets (4 or 16 bytes)
type prPrefix struct {
	DSL    string
	Octets []byte
	Bits   int
	Inside string // an address inside the prefix (used only to build claimed values)
}

var (
	prTen      = prPrefix{"10.0.0.0/8", []byte{10, 0, 0, 0}, 8, "10.1.2.3"}
	prLoop4    = prPrefix{"127.0.0.0/8", []byte{127, 0, 0, 0}, 8, "127.0.0.1"}
	prDoc6     = prPrefix{"2001:db8::/32", []byte{0x20, 0x01, 0x0d, 0xb8, 0, 0, 0, 0, 0, 0, 0, 0, 0, 0, 0, 0}, 32, "2001:db8::1"}
	prLoop6    = prPrefix{"::1", []byte{0, 0, 0, 0, 0, 0, 0, 0, 0, 0, 0, 0, 0, 0, 0, 1}, 128, "::1"}
	prSingle4  = prPrefix{"203.0.113.7", []byte{203, 0, 113, 7}, 32, "203.0.113.7"}
	prPrivate  = prPrefix{"192.168.0.0/16", []byte{192, 168, 0, 0}, 16, "192.168.0.1"}
	prLists    = [][]prPrefix{{prTen}, {prDoc6}, {prLoop4}, {prSingle4}, {prTen, prDoc6}, {prLoop6}, {prPrivate}, {prLoop4, prLoop6}}
	prOutside4 = "198.51.100.7" // inside no list of the alphabet
)

type prPeer struct {
	Name   string // class, for keys and coverage
	Addr   string // RemoteAddr as net/http would set it
	Octets []byte // nil: not an address
	Mapped bool   // IPv4-mapped IPv6 (16 octets, the last 4 are the IPv4 address)
}

var prPeers = []prPeer{
	{"loopback-v4", "127.0.0.1:40000", []byte{127, 0, 0, 1}, false},
	{"loopback-v4-other", "127.9.9.9:40000", []byte{127, 9, 9, 9}, false},
	{"loopback-v6", "[::1]:40000", []byte{0, 0, 0, 0, 0, 0, 0, 0, 0, 0, 0, 0, 0, 0, 0, 1}, false},
	{"loopback-v4-mapped", "[::ffff:127.0.0.1]:40000", []byte{0, 0, 0, 0, 0, 0, 0, 0, 0, 0, 0xff, 0xff, 127, 0, 0, 1}, true},
	{"private-10", "10.1.2.3:40000", []byte{10, 1, 2, 3}, false},
	{"private-10-mapped", "[::ffff:10.1.2.3]:40000", []byte{0, 0, 0, 0, 0, 0, 0, 0, 0, 0, 0xff, 0xff, 10, 1, 2, 3}, true},
	{"private-192.168", "192.168.0.1:40000", []byte{192, 168, 0, 1}, false},
	{"private-172.16", "172.16.5.5:40000", []byte{172, 16, 5, 5}, false},
	{"link-local-v4", "169.254.1.1:40000", []byte{169, 254, 1, 1}, false},
	{"link-local-v6", "[fe80::1]:40000", []byte{0xfe, 0x80, 0, 0, 0, 0, 0, 0, 0, 0, 0, 0, 0, 0, 0, 1}, false},
	{"unique-local-v6", "[fd00::1]:40000", []byte{0xfd, 0, 0, 0, 0, 0, 0, 0, 0, 0, 0, 0, 0, 0, 0, 1}, false},
	{"public-listed-single", "203.0.113.7:40000", []byte{203, 0, 113, 7}, false},
	{"public-next-to-single", "203.0.113.8:40000", []byte{203, 0, 113, 8}, false},
	{"doc-v6", "[2001:db8::1]:40000", []byte{0x20, 0x01, 0x0d, 0xb8, 0, 0, 0, 0, 0, 0, 0, 0, 0, 0, 0, 1}, false},
	{"doc-v6-neighbour", "[2001:db9::1]:40000", []byte{0x20, 0x01, 0x0d, 0xb9, 0, 0, 0, 0, 0, 0, 0, 0, 0, 0, 0, 1}, false},
	{"public-v4", "198.51.100.7:40000", []byte{198, 51, 100, 7}, false},
	{"not-an-address", "@", nil, false},
}

// headers by which proxies and CDNs conventionally name "the client"; fwd marks RFC 7239 syntax
var prClaimHeaders = []struct {
	Name string
	Fwd  bool
}{
	{"X-Forwarded-For", false}, {"x-forwarded-for", false}, {"X-Real-IP", false}, {"Forwarded", true}, {"True-Client-IP", false},
	{"CF-Connecting-IP", false}, {"X-Client-IP", false}, {"Client-IP", false}, {"X-Cluster-Client-IP", false}, {"Fastly-Client-IP", false},
	{"X-Original-Forwarded-For", false}, {"X-Forwarded", false}, {"Forwarded-For", false}, {"X-Envoy-External-Address", false},
	{"X-Appengine-User-IP", false}, {"X-Remote-Addr", false}, {"X-Remote-IP", false}, {"Remote-Addr", false},
}

const (
	pvAlone = iota
	pvFirstOfList
	pvLastOfList
	pvWithPort
	pvTwoLinesFirst
	pvTwoLinesLast
	nPrValueForm
)

var prValueFormNames = []string{"alone", "first-of-list", "last-of-list", "with-port", "first-of-two-lines", "last-of-two-lines"}

const prQuickLists = 5 // the quick tier takes the first five remote_ip lists

const prOtherHop = "192.0.2.1" // inside no list of the alphabet

// prClaimLines returns the header line(s) that name addr in the given form.
func prClaimLines(name string, fwd bool, addr string, form int) string {
	one := func(a string, port bool) string {
		a6 := strings.Contains(a, ":")
		s := a
		if port {
			if a6 {
				s = "[" + a + "]:4711"
			} else {
				s = a + ":4711"
			}
		}
		if fwd {
			if a6 || port {
				if a6 && !port {
					s = "[" + a + "]"
				}
				return `for="` + s + `"`
			}
			return "for=" + s
		}
		return s
	}
	switch form {
	case pvAlone:
		return name + ": " + one(addr, false) + "\r\n"
	case pvFirstOfList:
		return name + ": " + one(addr, false) + ", " + one(prOtherHop, false) + "\r\n"
	case pvLastOfList:
		return name + ": " + one(prOtherHop, false) + ", " + one(addr, false) + "\r\n"
	case pvWithPort:
		return name + ": " + one(addr, true) + "\r\n"
	case pvTwoLinesFirst:
		return name + ": " + one(addr, false) + "\r\n" + name + ": " + one(prOtherHop, false) + "\r\n"
	}
	return name + ": " + one(prOtherHop, false) + "\r\n" + name + ": " + one(addr, false) + "\r\n"
}

type prCfg struct {
	Family   string `json:"family"` // "peerfam"
	List     int    `json:"remote_ip_list"`
	CatchAll bool   `json:"catch_all_behind"`
	Wide     bool   `json:"complete_value_forms"` // thorough tier: claimed ::1 and the two-line forms as well
}

func (c prCfg) String() string {
	var l []string
	for _, p := range prLists[c.List] {
		l = append(l, p.DSL)
	}
	s := "/a[remote_ip " + strings.Join(l, " ") + "]"
	if c.CatchAll {
		s += " ; /[open]"
	}
	return s
}

func prDSL(c prCfg, slot int64) string {
	var b strings.Builder
	ip := fmt.Sprintf("127.%d.%d.%d", slot>>16&255, slot>>8&255, slot&255)
	fmt.Fprintf(&b, "ingress { listen \"%s:8080\" }\n", ip)
	fmt.Fprintf(&b, "pull_api { listen \"%s:9443\"\n auth token \"raw:g1\" }\n", ip)
	fmt.Fprintf(&b, "admin_api { listen \"%s:2019\" }\n", ip)
	b.WriteString("/a {\n  match {")
	for _, p := range prLists[c.List] {
		fmt.Fprintf(&b, " remote_ip %q", p.DSL)
	}
	b.WriteString(" }\n  pull { path /e0 }\n}\n")
	if c.CatchAll {
		b.WriteString("/ {\n  pull { path /e1 }\n}\n")
	}
	return b.String()
}

type prReq struct {
	Peer   int    `json:"peer"`
	Method string `json:"method"`
	Claim  string `json:"claim_header_lines"` // "" when the request names no address
	Header string `json:"-"`
	Form   string `json:"-"`
}

func (q prReq) raw() string {
	return q.Method + " /a HTTP/1.1\r\nHost: h1\r\n" + q.Claim + "Content-Length: 1\r\n\r\nx"
}

// prInside: the peer address is inside a listed prefix (bit-wise comparison on the hand-written octets).
func prInside(p prPeer, list []prPrefix, ip interp) bool {
	o := p.Octets
	if o == nil {
		return false
	}
	if p.Mapped && ip.UnmapV4InV6 {
		o = o[12:]
	}
	for _, pf := range list {
		if len(pf.Octets) != len(o) {
			continue
		}
		same := true
		for bit := 0; bit < pf.Bits; bit++ {
			if (pf.Octets[bit/8]^o[bit/8])>>(7-uint(bit%8))&1 != 0 {
				same = false
				break
			}
		}
		if same {
			return true
		}
	}
	return false
}

// prExpect: every request of the family is "<method> /a"; both routes take POST only.
func prExpect(c prCfg, q prReq, ip interp) expectation {
	inside := prInside(prPeers[q.Peer], prLists[c.List], ip)
	if q.Method == http.MethodPost {
		if inside {
			return expectation{Status: http.StatusAccepted, Winner: 0, Route: "/a", Target: "pull"}
		}
		if c.CatchAll {
			return expectation{Status: http.StatusAccepted, Winner: 1, Route: "/", Target: "pull"}
		}
		return expectation{Status: http.StatusNotFound, Winner: -1}
	}
	if inside || c.CatchAll {
		return expectation{Status: http.StatusMethodNotAllowed, Winner: -1, Allow: []string{http.MethodPost}}
	}
	return expectation{Status: http.StatusNotFound, Winner: -1}
}

func prRequests(c prCfg) []prReq {
	addrs := []string{prOutside4, "127.0.0.1"}
	forms := pvTwoLinesFirst // quick: the one-line forms
	if c.Wide {
		addrs = append(addrs, "::1")
		forms = nPrValueForm
	}
	for _, p := range prLists[c.List] {
		addrs = append(addrs, p.Inside)
	}
	var out []prReq
	for pi := range prPeers {
		for _, m := range []string{http.MethodPost, http.MethodGet} {
			out = append(out, prReq{Peer: pi, Method: m})
			for _, h := range prClaimHeaders {
				for _, a := range addrs {
					for f := 0; f < forms; f++ {
						out = append(out, prReq{Peer: pi, Method: m, Claim: prClaimLines(h.Name, h.Fwd, a, f),
							Header: strings.ToLower(h.Name), Form: prValueFormNames[f]})
					}
				}
			}
		}
	}
	return out
}

type prFinding struct {
	Rank     int64       `json:"-"`
	Cfg      prCfg       `json:"config"`
	Config   string      `json:"config_dsl"`
	Req      prReq       `json:"request"`
	PeerAddr string      `json:"remote_addr"`
	ReqRaw   string      `json:"request_raw"`
	Expect   expectation `json:"expected"`
	Got      observation `json:"observed"`
	// History > 0: differs from the reference only after the History requests that precede it in the request table
	// of its configuration (prRequests) were served on the same boot
	History int `json:"requests_served_before,omitempty"`
	QI      int `json:"-"`
}

func (f prFinding) message() string {
	claim := "(no address-naming header)"
	if f.Req.Claim != "" {
		claim = strings.TrimSpace(strings.ReplaceAll(f.Req.Claim, "\r\n", " | "))
	}
	if f.History > 0 {
		claim += fmt.Sprintf("   (not as the only request after boot: after the %d requests that precede it in the request table, same boot)", f.History)
	}
	return fmt.Sprintf("routes (in order): %s\nrequest: %s /a from peer %s (%s), headers: %s\nexpected (only the peer address decides): status %d allow %v route %q\nobserved: status %d allow %v stored %d route %q residue %d",
		f.Cfg, f.Req.Method, f.PeerAddr, prPeers[f.Req.Peer].Name, claim, f.Expect.Status, f.Expect.Allow, f.Expect.Route,
		f.Got.Status, f.Got.Allow, f.Got.Stored, f.Got.Route, f.Got.Residue)
}

func prKind(e expectation, o observation) string {
	switch {
	case o.Residue != 0 || (o.Status != http.StatusAccepted && o.Stored != 0):
		return "store-effect"
	case o.Status == http.StatusAccepted && o.Route == "/a" && e.Route != "/a":
		return "handed-to-route-whose-remote_ip-fails"
	case e.Status == http.StatusAccepted && e.Route == "/a" && !(o.Status == http.StatusAccepted && o.Route == "/a"):
		return "route-whose-remote_ip-holds-passed-over"
	case e.Status != o.Status:
		return fmt.Sprintf("status-%d-for-%d", o.Status, e.Status)
	case e.Status == http.StatusMethodNotAllowed:
		return "allow-differs"
	}
	return "stored-route-differs"
}

func prRunOne(c prCfg, q prReq, ip interp, slot int) (bool, expectation, observation, error) {
	return prRunAfter(c, nil, q, ip, slot)
}

// prRunAfter: fresh boot, the requests in before (in order), then q; reports whether the response to q differs from the reference.
func prRunAfter(c prCfg, before []prReq, q prReq, ip interp, slot int) (bool, expectation, observation, error) {
	b, err := boot(prDSL(c, bootSeq.Add(1)), slot)
	if err != nil {
		return false, expectation{}, observation{}, err
	}
	defer b.a.Shutdown()
	for _, p := range before {
		if _, err := b.serveRaw(p.raw(), prPeers[p.Peer].Addr); err != nil {
			return false, expectation{}, observation{}, err
		}
	}
	o, err := b.serveRaw(q.raw(), prPeers[q.Peer].Addr)
	if err != nil {
		return false, expectation{}, o, err
	}
	e := prExpect(c, q, ip)
	return !sameOutcome(e, o), e, o, nil
}

// runPeerFamily enumerates the family and reports its violations; it returns false on an infrastructure error.
func runPeerFamily(r *runner.Run, ip interp, deadline time.Time) bool {
	started := time.Now()
	defer func() { r.Set("peer_family_wall_s", time.Since(started).Seconds()) }()
	type result struct {
		evals, inside, outside, claims, n202, n404, n405 int64
		classes                                          map[string]struct{}
		finds                                            map[string]prFinding
		infra                                            string
		cut, done                                        bool
	}
	var cfgs []prCfg
	for li := range prLists {
		if !r.Thorough() && li >= prQuickLists {
			break
		}
		for _, ca := range []bool{false, true} {
			cfgs = append(cfgs, prCfg{Family: "peerfam", List: li, CatchAll: ca, Wide: r.Thorough()})
		}
	}
	results := make([]*result, len(cfgs))
	var wg sync.WaitGroup
	for ci, c := range cfgs {
		res := &result{classes: map[string]struct{}{}, finds: map[string]prFinding{}}
		results[ci] = res
		wg.Add(1)
		go func(ci int, c prCfg) {
			defer wg.Done()
			if time.Now().After(deadline) {
				res.cut = true
				return
			}
			dsl := prDSL(c, bootSeq.Add(1))
			b, err := boot(dsl, 1300+ci)
			if err != nil {
				res.infra = fmt.Sprintf("peer family: boot: %v\n%s", err, dsl)
				return
			}
			defer b.a.Shutdown()
			for qi, q := range prRequests(c) {
				o, err := b.serveRaw(q.raw(), prPeers[q.Peer].Addr)
				if err != nil {
					res.infra = fmt.Sprintf("peer family: serve %s from %s: %v", strings.TrimSpace(q.Claim), prPeers[q.Peer].Addr, err)
					return
				}
				e := prExpect(c, q, ip)
				res.evals++
				in := prInside(prPeers[q.Peer], prLists[c.List], ip)
				if in {
					res.inside++
				} else {
					res.outside++
				}
				if q.Claim != "" {
					res.claims++
					res.classes[fmt.Sprintf("peerfam|claim|%s|%s|peer-%s", q.Header, q.Form, verdict(in))] = struct{}{}
				}
				res.classes[fmt.Sprintf("peerfam|%s|peer=%s|%s|%d", c, prPeers[q.Peer].Name, q.Method, e.Status)] = struct{}{}
				switch e.Status {
				case http.StatusAccepted:
					res.n202++
				case http.StatusNotFound:
					res.n404++
				default:
					res.n405++
				}
				if sameOutcome(e, o) {
					continue
				}
				key := q.Header + "|" + prKind(e, o) // named after the rechecks below
				rank := int64(ci)<<32 | int64(qi)
				if old, ok := res.finds[key]; ok && old.Rank <= rank {
					continue
				}
				res.finds[key] = prFinding{Rank: rank, Cfg: c, Config: dsl, Req: q, PeerAddr: prPeers[q.Peer].Addr, ReqRaw: q.raw(), Expect: e, Got: o, QI: qi}
			}
			res.done = true
		}(ci, c)
	}
	wg.Wait()
	good, cut := true, false
	finds := map[string]prFinding{}
	for _, res := range results {
		if res.infra != "" {
			r.Infra("%s", res.infra)
			good = false
		}
		cut = cut || res.cut
		if res.done {
			r.Add("configs_compiled", 1)
			r.Add("peer_family_configs", 1)
		}
		r.Add("evaluations", res.evals)
		r.Add("peer_family_evaluations", res.evals)
		r.Add("peer_family_ref_peer_inside", res.inside)
		r.Add("peer_family_ref_peer_outside", res.outside)
		r.Add("peer_family_requests_naming_an_address", res.claims)
		r.Add("ref_match", res.n202)
		r.Add("ref_nomatch", res.n404+res.n405)
		r.Add("ref_nomatch_404", res.n404)
		r.Add("ref_nomatch_405", res.n405)
		for k := range res.classes {
			r.Distinct(k)
		}
		for k, f := range res.finds {
			if old, ok := finds[k]; !ok || f.Rank < old.Rank {
				finds[k] = f
			}
		}
	}
	r.Set("peer_family_peers", len(prPeers))
	r.Set("peer_family_claim_headers", len(prClaimHeaders))
	if cut {
		r.NotExhaustive("wall budget reached inside the peer address family")
	}
	keys := make([]string, 0, len(finds))
	for k := range finds {
		keys = append(keys, k)
	}
	sort.Strings(keys)
	reported := map[string]bool{}
	for _, k := range keys {
		f := finds[k]
		// Naming. The request alone on a fresh boot: if the same request without the address-naming header differs as
		// well the peer class names the case, else the header does. Not reproducible alone: after the requests served
		// before it on that boot (an outcome that earlier requests changed is a violation of its own class).
		kind := prKind(f.Expect, f.Got)
		key := "peer:" + prPeers[f.Req.Peer].Name + ":" + kind
		var before []prReq
		if bad, _, _, err := prRunOne(f.Cfg, f.Req, ip, 1360); err == nil && bad {
			if f.Req.Claim != "" {
				if bad, _, _, err := prRunOne(f.Cfg, prReq{Peer: f.Req.Peer, Method: f.Req.Method}, ip, 1360); err == nil && !bad {
					key = "peer-claim:" + f.Req.Header + ":" + kind
				}
			}
		} else if f.QI > 0 {
			f.History = f.QI
			before = prRequests(f.Cfg)[:f.QI]
			key = "peerfam-after-history:" + kind
		}
		if reported[key] {
			continue
		}
		reported[key] = true
		r.Violation(key, f.message(), f, func() bool {
			bad, _, _, err := prRunAfter(f.Cfg, before, f.Req, ip, 1360)
			return err == nil && bad
		})
	}
	return good
}

// replayPeers re-runs one recorded case of this family; ok is false when the file is not of this family.
func replayPeers(r *runner.Run, data []byte, ip interp) (ok bool) {
	var doc struct {
		Key    string `json:"key"`
		Replay struct {
			Cfg     prCfg `json:"config"`
			Req     prReq `json:"request"`
			History int   `json:"requests_served_before"`
		} `json:"replay"`
	}
	if json.Unmarshal(data, &doc) != nil || doc.Replay.Cfg.Family != "peerfam" {
		return false
	}
	c, q := doc.Replay.Cfg, doc.Replay.Req
	if c.List < 0 || c.List >= len(prLists) || q.Peer < 0 || q.Peer >= len(prPeers) || strings.ContainsAny(q.Method, " \r\n") || q.Method == "" {
		r.Infra("replay: peer family case out of range")
		return true
	}
	var before []prReq
	if n := doc.Replay.History; n > 0 {
		table := prRequests(c)
		for i, p := range table {
			if p.Peer == q.Peer && p.Method == q.Method && p.Claim == q.Claim && i >= n {
				before = table[i-n : i]
			}
		}
		if before == nil {
			r.Infra("replay: peer family case: request history out of range")
			return true
		}
	}
	bad, e, o, err := prRunAfter(c, before, q, ip, 1361)
	if err != nil {
		r.Infra("replay: %v", err)
		return true
	}
	r.Add("evaluations", 1)
	r.Distinct("replay|" + doc.Key)
	r.Distinct(fmt.Sprintf("replay-status|%d", o.Status))
	r.Sample(map[string]any{"config": c.String(), "peer": prPeers[q.Peer].Addr, "claim": q.Claim, "expected": e, "observed": o})
	r.NotExhaustive("replay of one case")
	r.Set("rule", "replay of one recorded case")
	if bad {
		f := prFinding{Cfg: c, Config: prDSL(c, 0), Req: q, PeerAddr: prPeers[q.Peer].Addr, ReqRaw: q.raw(), Expect: e, Got: o, History: len(before)}
		key := doc.Key
		if key == "" {
			key = "peer:" + prPeers[q.Peer].Name + ":" + prKind(e, o)
		}
		r.Violation(key, f.message(), f, nil)
	}
	return true
}
