package c10

// TestRace: free-running -race side pass of C10. TestCheck serves one request at a time per booted
// configuration, so state shared between two requests in flight (a result slice that aliases a compiled
// route's method list, a memo without a lock, ...) is invisible to it. This pass boots a representative set of
// configurations (the whole method family of methods_test.go: parent method lists of every length 0..7 written
// inline / named / split, nested and overlapping paths, in three orders; plus one three-route configuration per
// match shape of the main family and the host pattern lists) and serves overlapping requests from plain
// goroutines: phases of 405s only, 404s only, 202s only, and everything mixed (the reference is used to sort the
// requests into the phases, not to judge). Nothing is asserted here: bin/check builds this with -race and reports
// a DATA RACE the detector prints as a violation (key data-race). The goroutines share nothing of the harness
// but read-only tables: each has its own reader, request and recorder. Part (0) adds the process history dimension:
// one goroutine reloads / relabels / rewrites the file in the opposite route order while the others serve.

import (
	"bufio"
	"net/http"
	"net/http/httptest"
	"os"
	"strings"
	"sync"
	"testing"
	"time"

	"github.com/nuetzliches/hookaido/internal/app"
	"github.com/nuetzliches/hookaido/internal/queue"
)

type raceReq struct{ raw, remote string }

const (
	raceThreads = 8
	mfReps      = 2 // rounds through the request list per thread and phase (method family)
)

// raceOverlap serves every list of phases from raceThreads goroutines at once (each starts at its own offset and
// goes round the list reps times); the phases run one after the other.
func raceOverlap(a *app.VerifApp, phases [][]raceReq, reps int) {
	h := a.Ingress
	for _, reqs := range phases {
		if len(reqs) == 0 {
			continue
		}
		start := make(chan struct{})
		var wg sync.WaitGroup
		for g := 0; g < raceThreads; g++ {
			wg.Add(1)
			go func(g int) {
				defer wg.Done()
				br := bufio.NewReaderSize(nil, 512)
				<-start
				off := g * len(reqs) / raceThreads
				for i := 0; i < reps*len(reqs); i++ {
					q := reqs[(off+i)%len(reqs)]
					br.Reset(strings.NewReader(q.raw))
					req, err := http.ReadRequest(br)
					if err != nil {
						continue
					}
					req.RemoteAddr = q.remote
					rec := httptest.NewRecorder()
					h.ServeHTTP(rec, req)
					if rec.Code == http.StatusAccepted {
						// keep the store small (an Enqueue walks the whole inventory): take out what was queued
						if resp, err := a.Store.Dequeue(queue.DequeueRequest{Batch: 16}); err == nil {
							for _, it := range resp.Items {
								a.Store.Ack(it.LeaseID)
							}
						}
					}
				}
			}(g)
		}
		close(start)
		wg.Wait()
	}
}

// byStatus sorts requests into the phases 405 / 404 / 202 / mixed.
func racePhases(all []raceReq, status []int) [][]raceReq {
	var p405, p404, p202 []raceReq
	for i, q := range all {
		switch status[i] {
		case http.StatusMethodNotAllowed:
			p405 = append(p405, q)
		case http.StatusNotFound:
			p404 = append(p404, q)
		default:
			p202 = append(p202, q)
		}
	}
	return [][]raceReq{p405, p404, p202, all}
}

func raceBoot(t *testing.T, dsl string) *app.VerifApp {
	a, err := app.VerifBoot(app.VerifBootOptions{Dir: scratch + "/race10", ConfigText: dsl, Store: queue.NewMemoryStore()})
	if err != nil {
		t.Fatalf("race pass: boot: %v\n%s", err, dsl)
	}
	if a.Ingress == nil {
		a.Shutdown()
		t.Fatalf("race pass: no ingress handler")
	}
	return a
}

func TestRace(t *testing.T) {
	if os.Getenv("VERIF_RACE") == "" {
		t.Skip("race pass only")
	}
	// wall budget: ends the pass early, never fails it
	t0r := time.Now()
	// every part has its own share of the budget, so that a loaded machine shortens each part instead of dropping the later ones
	ip := interp{CollapseSlashes: true, HostDotStripped: true, HeaderCommaList: false, UnmapV4InV6: true} // phase sorting only
	booted, served := 0, 0

	// (0) process history (history_test.go): while the request table is served by overlapping goroutines, one more
	// goroutine takes the gateway through the production operations reload / comment edit / label / unlabel / reversed
	// route order. The route table a request scans must not be written by a reload (it is documented as replaced wholesale).
	deadline := t0r.Add(7 * time.Second)
	var hcfgs []hfCfg
	for _, c := range hfConfigs(false) {
		if c.Part == "order" && len(c.Routes) >= 2 {
			hcfgs = append(hcfgs, c)
		}
	}
	for stride := 0; stride < 97; stride++ { // strided: two- and three-route lists of every shape come up early
		for ci := stride; ci < len(hcfgs); ci += 97 {
			if time.Now().After(deadline) {
				stride = 97
				break
			}
			c := hcfgs[ci]
			l, dsl, err := hfBoot(c.Routes, 1599)
			if err != nil {
				t.Fatalf("race pass: boot: %v\n%s", err, dsl)
			}
			var all []raceReq
			for _, q := range requestsFor(0) {
				all = append(all, raceReq{q.raw(), reqRemotes[q.Remote]})
			}
			done := make(chan struct{})
			var opsWG sync.WaitGroup
			opsWG.Add(1)
			go func() { // the only goroutine that touches l
				defer opsWG.Done()
				var st hfStats
				ops := []hfOp{op(hoReload), op(hoComment), opLabel(0), op(hoReload), op(hoUnlabel), op(hoReverse), opLabel(len(c.Routes) - 1), op(hoReverse)}
				for i := 0; ; i++ {
					select {
					case <-done:
						return
					default:
					}
					if _, err := l.apply(ops[i%len(ops)], &st); err != nil {
						return
					}
				}
			}()
			raceOverlap(l.b.a, [][]raceReq{all}, 4)
			close(done)
			opsWG.Wait()
			served += 4 * raceThreads * len(all)
			l.b.a.Shutdown()
			booted++
		}
	}
	hbooted := booted
	deadline = time.Now().Add(24 * time.Second)

	// (1) method family. Configurations are visited so that every parent length comes up early.
	cfgs := mfConfigs(false)
	for stride := 0; stride < 7; stride++ {
		for ci := stride; ci < len(cfgs); ci += 7 {
			if time.Now().After(deadline) {
				t.Logf("race pass: wall budget of the method family reached after %d configurations, %d requests", booted, served)
				stride = 7
				break
			}
			c := cfgs[ci]
			if os.Getenv("VERIF_RACE_TRACE") != "" {
				os.Stderr.WriteString("race pass: " + time.Since(t0r).String() + " " + c.String() + "\n")
			}
			a := raceBoot(t, mfDSL(c, bootSeq.Add(1)))
			routes := mfRoutes(c)
			var all []raceReq
			var status []int
			for _, q := range mfRequests(c) {
				all = append(all, raceReq{q.raw(), "10.1.2.3:1"})
				status = append(status, mfResolve(routes, q, ip).Status)
			}
			phases := racePhases(all, status)
			raceOverlap(a, phases, mfReps)
			for _, p := range phases {
				served += mfReps * raceThreads * len(p)
			}
			a.Shutdown()
			booted++
		}
	}

	// (2) one configuration per match shape of the main family: the shape on /a/b, GET+PUT on the inbound{} route /a, a bare /
	ref := newMemo(ip)
	deadline = time.Now().Add(8 * time.Second)
	for m := 0; m < nMatch; m++ {
		if time.Now().After(deadline) {
			break
		}
		routes := []routeSpec{{1, chBare, m}, {0, chWrap, mkMethodsGetPut}, {3, chBare, mkNone}}
		a := raceBoot(t, configDSL(routes, bootSeq.Add(1)))
		var all []raceReq
		var status []int
		for _, q := range requestsFor(dimsOfMatch(m)) {
			all = append(all, raceReq{q.raw(), reqRemotes[q.Remote]})
			st, _, _ := ref.resolve(routes, q)
			status = append(status, st)
		}
		phases := racePhases(all, status)
		raceOverlap(a, phases, 1)
		for _, p := range phases {
			served += raceThreads * len(p)
		}
		a.Shutdown()
		booted++
	}

	// (3) host pattern lists: all one-pattern lists and the two-pattern lists of each wildcard with its own apex, 405 form
	pats := hostPatterns()
	hosts := hostAlphabet()
	hip := hostInterp{DotStripped: true}
	var lists [][]int
	for i, p := range pats {
		lists = append(lists, []int{i})
		if p.Kind == hpWild {
			for j, e := range pats {
				if e.Kind == hpExact && sameLabels(e.Dom, p.Dom) {
					lists = append(lists, []int{i, j})
				}
			}
		}
	}
	deadline = time.Now().Add(8 * time.Second)
	for _, l := range lists {
		if time.Now().After(deadline) {
			break
		}
		c := hostCfg{Family: "hostfam", Form: hf405, List: l}
		a := raceBoot(t, hostDSL(c, pats, bootSeq.Add(1)))
		var all []raceReq
		var status []int
		for _, h := range hosts {
			all = append(all, raceReq{hostRaw(c, h), "10.1.2.3:1"})
			status = append(status, hostExpect(c, hostRefHolds(c.pats(pats), h, hip)).Status)
		}
		phases := racePhases(all, status)
		raceOverlap(a, phases, 1)
		for _, p := range phases {
			served += raceThreads * len(p)
		}
		a.Shutdown()
		booted++
	}
	t.Logf("race pass: %d configurations (%d of them with reload / management operations in flight), %d overlapping requests in %d threads", booted, hbooted, served, raceThreads)
}
