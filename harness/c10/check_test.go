// Package c10 decides property C10 "Ingress route resolution and channel
// isolation" by exhaustive enumeration of a small-scope product of
// configurations x requests. Every configuration is DSL text compiled by the
// real config.Compile and booted with the real startServers (app.VerifBoot);
// every request is raw HTTP/1.1 text parsed by http.ReadRequest and served by
// the ingress handler exactly as startServers wired it, onto a real
// queue.MemoryStore. The oracle is the independent reference resolver in
// reference.go (written from the property statement and the repository
// documentation, never calling the code under test).
package c10

import (
	"bufio"
	"bytes"
	"encoding/json"
	"fmt"
	"net/http"
	"net/http/httptest"
	"os"
	"runtime"
	"runtime/debug"
	"sort"
	"strings"
	"sync"
	"sync/atomic"
	"testing"
	"time"

	"github.com/nuetzliches/hookaido/internal/app"
	"github.com/nuetzliches/hookaido/internal/config"
	"github.com/nuetzliches/hookaido/internal/queue"
	"github.com/nuetzliches/hookaido/internal/verifkit/runner"
)

// ---------------------------------------------------------------------------
// configuration alphabet

var routePaths = []string{"/a", "/a/b", "/ab", "/"}

const (
	chBare = iota
	chWrap
	chOutbound
	chInternal
	nChan
)

var chanNames = []string{"bare", "inbound-wrapper", "outbound", "internal"}

const (
	mkNone = iota
	mkMethodGet
	mkMethodsGetPut
	mkHostH1
	mkHostWildD
	mkHostStar
	mkHeaderX1
	mkHeaderExistsX
	mkQueryQ1
	mkQueryExistsQ
	mkIP10
	mkIP2001
	mkNamed
	nMatch
)

var matchNames = []string{"none", "method-GET", "methods-GET+PUT", "host-h1", "host-*.d", "host-*", "header-X=1",
	"header_exists-X", "query-q=1", "query_exists-q", "remote_ip-10.0.0.0/8", "remote_ip-2001:db8::/32", "named-@nm"}

// DSL text of every match shape. "methods-GET+PUT" is written in mixed case:
// DESIGN.md defines match.method as case-insensitive.
var matchDSL = []string{
	"",
	`match { method GET }`,
	`match { method get PUT }`,
	`match { host "h1" }`,
	`match { host "*.d" }`,
	`match { host "*" }`,
	`match { header "X" "1" }`,
	`match { header_exists "X" }`,
	`match { query "q" "1" }`,
	`match { query_exists "q" }`,
	`match { remote_ip "10.0.0.0/8" }`,
	`match { remote_ip "2001:db8::/32" }`,
	`match @nm`,
}

const namedMatcherDSL = `@nm { method PUT host "h1" query "q" "1" }` + "\n"

// routeSpec is one route shape; it is both the generator input and the
// reference resolver's view of the configuration (the reference never looks at
// config.Compiled).
type routeSpec struct {
	Path  int `json:"path"`
	Chan  int `json:"chan"`
	Match int `json:"match"`
}

func (s routeSpec) inbound() bool { return s.Chan == chBare || s.Chan == chWrap }
func (s routeSpec) String() string {
	return fmt.Sprintf("%s[%s,%s]", routePaths[s.Path], chanNames[s.Chan], matchNames[s.Match])
}

// expected target of a message accepted for the route at position i:
// bare and internal routes are pull routes, wrapper-inbound and outbound routes are deliver routes.
func (s routeSpec) target(i int) string {
	if s.Chan == chBare || s.Chan == chInternal {
		return "pull"
	}
	return fmt.Sprintf("https://t.example/h%d", i)
}

func routeDSL(s routeSpec, i int) string {
	m := matchDSL[s.Match]
	p := routePaths[s.Path]
	switch s.Chan {
	case chBare:
		return fmt.Sprintf("%s {\n  %s\n  pull { path /e%d }\n}\n", p, m, i)
	case chWrap:
		return fmt.Sprintf("inbound {\n  %s {\n    %s\n    deliver \"https://t.example/h%d\" { timeout 1s }\n  }\n}\n", p, m, i)
	case chOutbound:
		return fmt.Sprintf("outbound %s {\n  %s\n  deliver \"https://t.example/h%d\" { timeout 1s }\n}\n", p, m, i)
	default:
		return fmt.Sprintf("internal {\n  %s {\n    %s\n    pull { path /e%d }\n  }\n}\n", p, m, i)
	}
}

// Every boot gets listen addresses of its own (in-memory vnet, the strings are
// only names): a server whose Serve goroutine has not started yet releases its
// listener asynchronously after Shutdown, so addresses are never reused.
var bootSeq atomic.Int64

func configDSL(routes []routeSpec, slot int64) string {
	var b strings.Builder
	ip := fmt.Sprintf("127.%d.%d.%d", slot>>16&255, slot>>8&255, slot&255)
	fmt.Fprintf(&b, "ingress { listen \"%s:8080\" }\n", ip)
	fmt.Fprintf(&b, "pull_api { listen \"%s:9443\"\n auth token \"raw:g1\" }\n", ip)
	fmt.Fprintf(&b, "admin_api { listen \"%s:2019\" }\n", ip)
	b.WriteString(namedMatcherDSL)
	for i, s := range routes {
		b.WriteString(routeDSL(s, i))
	}
	return b.String()
}

// Documented compile-time rules (DESIGN.md "Channel Types", "Route paths must
// be unique"): used only to tell a generator fault from an expected rejection.
func expectRejected(routes []routeSpec) bool {
	seen := map[int]bool{}
	for _, s := range routes {
		if seen[s.Path] {
			return true
		}
		seen[s.Path] = true
		if !s.inbound() && s.Match != mkNone {
			return true
		}
	}
	return false
}

// ---------------------------------------------------------------------------
// request alphabet

var reqPaths = []string{"/a", "/a/", "/a/b", "/a/b/c", "/ab", "/a/../a", "//a", "/A", "/", "/x"}
var reqMethods = []string{"POST", "GET", "PUT"}

const (
	hostH1 = iota
	hostH1UpperPort
	hostH1Dot
	hostXD
	hostD
	hostXYD
	hostAbsent
	hostV6Port
	nHost
)

var reqHosts = []string{"h1", "H1:80", "h1.", "x.d", "d", "x.y.d", "", "[::1]:80"}

const (
	hdrAbsent = iota
	hdr1
	hdr2
	hdrComma21
	hdrTwoLines21
	hdrLowerName1
	nHdr
)

var reqHdrNames = []string{"absent", "X:1", "X:2", "X:2, 1", "X:2|X:1", "x:1"}
var reqHdrLines = []string{"", "X: 1\r\n", "X: 2\r\n", "X: 2, 1\r\n", "X: 2\r\nX: 1\r\n", "x: 1\r\n"}

const (
	qAbsent = iota
	q1
	q2
	q21
	nQuery
)

var reqQueries = []string{"", "q=1", "q=2", "q=2&q=1"}

const (
	ra10 = iota
	raMapped10
	ra192
	ra2001
	raGarbage
	nRemote
)

var reqRemotes = []string{"10.1.2.3:1", "[::ffff:10.1.2.3]:1", "192.168.0.1:1", "[2001:db8::1]:1", "unparsable"}

type reqSpec struct {
	Path   int `json:"path"`
	Method int `json:"method"`
	Host   int `json:"host"`
	Hdr    int `json:"header"`
	Query  int `json:"query"`
	Remote int `json:"remote"`
}

func (q reqSpec) String() string {
	return fmt.Sprintf("%s %s%s host=%q header=%s remote=%s", reqMethods[q.Method], reqPaths[q.Path], qmark(reqQueries[q.Query]),
		reqHosts[q.Host], reqHdrNames[q.Hdr], reqRemotes[q.Remote])
}

func qmark(q string) string {
	if q == "" {
		return ""
	}
	return "?" + q
}

func (q reqSpec) raw() string {
	var b strings.Builder
	fmt.Fprintf(&b, "%s %s%s HTTP/1.1\r\n", reqMethods[q.Method], reqPaths[q.Path], qmark(reqQueries[q.Query]))
	if q.Host != hostAbsent {
		fmt.Fprintf(&b, "Host: %s\r\n", reqHosts[q.Host])
	}
	b.WriteString(reqHdrLines[q.Hdr])
	b.WriteString("Content-Length: 1\r\n\r\nx")
	return b.String()
}

// dimension bits: which request dimensions a configuration's matchers can observe
const (
	dimHost = 1 << iota
	dimHdr
	dimQuery
	dimRemote
	dimAll = dimHost | dimHdr | dimQuery | dimRemote
)

func dimsOfMatch(m int) int {
	switch m {
	case mkHostH1, mkHostWildD, mkHostStar:
		return dimHost
	case mkHeaderX1, mkHeaderExistsX:
		return dimHdr
	case mkQueryQ1, mkQueryExistsQ:
		return dimQuery
	case mkIP10, mkIP2001:
		return dimRemote
	case mkNamed:
		return dimHost | dimQuery
	}
	return 0
}

// requestsFor returns the request product for a configuration: path and
// method always complete; every other dimension complete when some matcher of
// the configuration observes it (or full is set), else pinned to its first value.
func requestsFor(dims int) []reqSpec {
	rng := func(on bool, n int) int {
		if on {
			return n
		}
		return 1
	}
	nh, nx, nq, nr := rng(dims&dimHost != 0, nHost), rng(dims&dimHdr != 0, nHdr), rng(dims&dimQuery != 0, nQuery), rng(dims&dimRemote != 0, nRemote)
	out := make([]reqSpec, 0, len(reqPaths)*len(reqMethods)*nh*nx*nq*nr)
	for p := range reqPaths {
		for m := range reqMethods {
			for h := 0; h < nh; h++ {
				for x := 0; x < nx; x++ {
					for q := 0; q < nq; q++ {
						for ra := 0; ra < nr; ra++ {
							out = append(out, reqSpec{p, m, h, x, q, ra})
						}
					}
				}
			}
		}
	}
	return out
}

// ---------------------------------------------------------------------------
// executing one configuration on the real application

type observation struct {
	Status  int      `json:"status"`
	Allow   []string `json:"allow,omitempty"` // sorted set
	Stored  int      `json:"stored"`
	Route   string   `json:"route,omitempty"`
	Target  string   `json:"target,omitempty"`
	Residue int      `json:"residue,omitempty"` // rows left in the store after draining what was queued
}

var t0 = time.Date(2030, 1, 2, 3, 4, 5, 0, time.UTC)

type booted struct {
	a  *app.VerifApp
	st *queue.MemoryStore
	br *bufio.Reader // requests of one boot are served one after the other
}

func boot(dsl string, dir int) (*booted, error) {
	st := queue.NewMemoryStore(queue.WithNowFunc(func() time.Time { return t0 }))
	a, err := app.VerifBoot(app.VerifBootOptions{Dir: fmt.Sprintf("%s/s%d", scratch, dir), ConfigText: dsl, Store: st})
	if err != nil {
		return nil, err
	}
	if a.Ingress == nil {
		a.Shutdown()
		return nil, fmt.Errorf("no ingress handler")
	}
	return &booted{a: a, st: st}, nil
}

var scratch = runner.Scratch()

func (b *booted) serve(q reqSpec, raw string) (observation, error) {
	return b.serveRaw(raw, reqRemotes[q.Remote])
}

func (b *booted) serveRaw(raw, remoteAddr string) (observation, error) {
	if b.br == nil {
		b.br = bufio.NewReaderSize(nil, 512)
	}
	b.br.Reset(strings.NewReader(raw))
	req, err := http.ReadRequest(b.br)
	if err != nil {
		return observation{}, fmt.Errorf("ReadRequest: %v", err)
	}
	req.RemoteAddr = remoteAddr
	rec := httptest.NewRecorder()
	b.a.Ingress.ServeHTTP(rec, req)
	o := observation{Status: rec.Code}
	if rec.Code == http.StatusMethodNotAllowed {
		set := map[string]bool{}
		for _, line := range rec.Header().Values("Allow") {
			for _, m := range strings.Split(line, ",") {
				if m = strings.TrimSpace(m); m != "" {
					set[m] = true
				}
			}
		}
		for m := range set {
			o.Allow = append(o.Allow, m)
		}
		sort.Strings(o.Allow)
	}
	// Everything the request left in the store (the store is empty before every request):
	// Stats counts the rows of every state; accepted messages are read back through Dequeue and removed.
	stt, err := b.st.Stats()
	if err != nil {
		return o, fmt.Errorf("stats: %v", err)
	}
	o.Stored = stt.Total
	if o.Stored == 0 {
		return o, nil
	}
	resp, err := b.st.Dequeue(queue.DequeueRequest{Batch: 100})
	if err != nil {
		return o, fmt.Errorf("dequeue: %v", err)
	}
	for i, it := range resp.Items {
		if i == 0 {
			o.Route, o.Target = it.Route, it.Target
		}
		if err := b.st.Ack(it.LeaseID); err != nil {
			return o, fmt.Errorf("ack: %v", err)
		}
	}
	if stt, err = b.st.Stats(); err != nil {
		return o, fmt.Errorf("stats: %v", err)
	}
	o.Residue = stt.Total
	return o, nil
}

// ---------------------------------------------------------------------------
// comparison

type expectation struct {
	Status int      `json:"status"`
	Winner int      `json:"winner"` // route position, -1 when none
	Allow  []string `json:"allow,omitempty"`
	Route  string   `json:"route,omitempty"`
	Target string   `json:"target,omitempty"`
}

func expect(routes []routeSpec, q reqSpec, m *memo) expectation {
	return expectHyp(routes, q, m, chanStrict, 0, 0)
}

func expectHyp(routes []routeSpec, q reqSpec, m *memo, mode int, flip uint, flipCrit int) expectation {
	st, w, allow := m.resolveHyp(routes, q, mode, flip, flipCrit)
	e := expectation{Status: st, Winner: w, Allow: allow}
	if w >= 0 {
		e.Route, e.Target = routePaths[routes[w].Path], routes[w].target(w)
	}
	return e
}

func sameOutcome(e expectation, o observation) bool {
	if e.Status != o.Status || o.Residue != 0 {
		return false
	}
	switch e.Status {
	case http.StatusAccepted:
		return o.Stored == 1 && o.Route == e.Route && o.Target == e.Target
	case http.StatusMethodNotAllowed:
		return o.Stored == 0 && strings.Join(e.Allow, ",") == strings.Join(o.Allow, ",")
	default:
		return o.Stored == 0
	}
}

func dimSig(q reqSpec, dims int) string {
	var parts []string
	if dims&dimHost != 0 {
		parts = append(parts, "host="+orDash(reqHosts[q.Host]))
	}
	if dims&dimHdr != 0 {
		parts = append(parts, "hdr="+strings.ReplaceAll(reqHdrNames[q.Hdr], " ", ""))
	}
	if dims&dimQuery != 0 {
		parts = append(parts, "query="+orDash(reqQueries[q.Query]))
	}
	if dims&dimRemote != 0 {
		parts = append(parts, "remote="+reqRemotes[q.Remote])
	}
	return strings.Join(parts, ",")
}

func orDash(s string) string {
	if s == "" {
		return "-"
	}
	return s
}

// candidates derives, from the failing input alone, the stable names of the
// failure classes that explain a mismatch. Most mismatches have exactly one
// candidate; where one case cannot tell two causes apart (a route passed over
// because one of its criteria is judged differently, or because a later
// matching route is preferred) all of them are returned and the merge step
// (chooseKeys) picks the smallest set of names that explains every mismatch of the run.
func candidates(routes []routeSpec, q reqSpec, m *memo, e expectation, o observation) []string {
	if o.Residue != 0 {
		return []string{"effect:store-residue"}
	}
	switch o.Status {
	case http.StatusAccepted, http.StatusNotFound, http.StatusMethodNotAllowed:
	default:
		return []string{fmt.Sprintf("status:unexpected-%d", o.Status)}
	}
	if o.Status != http.StatusAccepted && o.Stored != 0 {
		return []string{fmt.Sprintf("effect:enqueue-on-%d", o.Status)}
	}
	if o.Status == http.StatusAccepted && o.Stored != 1 {
		return []string{fmt.Sprintf("effect:accepted-stored-%d", o.Stored)}
	}
	realIdx := -1
	if o.Status == http.StatusAccepted {
		for i, s := range routes {
			if routePaths[s.Path] == o.Route {
				realIdx = i
				break
			}
		}
		if realIdx < 0 {
			return []string{"effect:stored-route-unknown"}
		}
		if !routes[realIdx].inbound() {
			return []string{"channel:" + chanNames[routes[realIdx].Chan] + "-reachable"}
		}
	}
	// hypotheses about non-inbound routes: a mismatch they explain is caused by such a route
	for _, mode := range []int{chanBlind, chanAllowOnly} {
		if sameOutcome(expectHyp(routes, q, m, mode, 0, 0), o) {
			for _, s := range routes {
				if !s.inbound() && m.pathHolds(s, q) && m.othersHold(s, q) {
					return []string{"channel:" + chanNames[s.Chan] + "-405"}
				}
			}
		}
	}
	if o.Status == http.StatusAccepted && e.Status == http.StatusAccepted && realIdx == e.Winner {
		return []string{fmt.Sprintf("target:%s:exp=%s:got=%s", chanNames[routes[realIdx].Chan], e.Target, o.Target)}
	}
	set := map[string]bool{}
	// an earlier route holds by the reference, the implementation delivered to a later route that holds as well
	if realIdx >= 0 && e.Winner >= 0 && e.Winner < realIdx &&
		m.pathHolds(routes[realIdx], q) && m.othersHold(routes[realIdx], q) && m.methodHolds(routes[realIdx], q) {
		set["first-match:earlier-holding-route-passed-over"] = true
	}
	// every criterion class whose opposite verdict (on all routes of the configuration that share the class)
	// explains the observation, alone or together with one of the channel hypotheses
	classOf := func(s routeSpec, c int) (string, bool) {
		switch c {
		case critPath:
			return "path(" + routePaths[s.Path] + "~" + reqPaths[q.Path] + ")", m.pathHolds(s, q)
		case critOthers:
			return matchNames[s.Match] + "(" + dimSig(q, dimsOfMatch(s.Match)) + ")", m.othersHold(s, q)
		}
		ms := "POST-by-default"
		if len(shapeCriteria[s.Match].methods) > 0 {
			ms = strings.Join(shapeCriteria[s.Match].methods, "+")
		}
		return "method(" + ms + "~" + reqMethods[q.Method] + ")", m.methodHolds(s, q)
	}
	for c := 0; c < nCrit; c++ {
		masks := map[string]uint{}
		holds := map[string]bool{}
		for i, s := range routes {
			if c == critOthers && s.Match == mkNone {
				continue // no criterion there
			}
			class, h := classOf(s, c)
			masks[class] |= 1 << uint(i)
			holds[class] = h
		}
		for class, mask := range masks {
			for _, mode := range []int{chanStrict, chanBlind, chanAllowOnly} {
				if !sameOutcome(expectHyp(routes, q, m, mode, mask, c), o) {
					continue
				}
				if holds[class] {
					set[class+":impl-fails"] = true
				} else {
					set[class+":impl-holds"] = true
				}
				break
			}
		}
	}
	if len(set) == 0 {
		return []string{fmt.Sprintf("unexplained:exp=%d[%s]:got=%d[%s]", e.Status, strings.Join(e.Allow, "+"), o.Status, strings.Join(o.Allow, "+"))}
	}
	out := make([]string, 0, len(set))
	for k := range set {
		out = append(out, k)
	}
	sort.Strings(out)
	return out
}

const sigSep = "\x1f"

// chooseKeys: greedy cover followed by removal of redundant names (broadest first), so that a
// generic name survives only where no specific one explains the case. finds is keyed by the
// joined candidate list of a mismatch; the result maps each chosen class name to the smallest
// failing case it explains.
func chooseKeys(finds map[string]finding) map[string]finding {
	left := map[string]bool{}
	for sig := range finds {
		left[sig] = true
	}
	has := func(sig, key string) bool {
		for _, k := range strings.Split(sig, sigSep) {
			if k == key {
				return true
			}
		}
		return false
	}
	var chosen []string
	for len(left) > 0 {
		cover := map[string]int{}
		for sig := range left {
			for _, k := range strings.Split(sig, sigSep) {
				cover[k]++
			}
		}
		best := ""
		for k, n := range cover {
			if best == "" || n > cover[best] || (n == cover[best] && k < best) {
				best = k
			}
		}
		chosen = append(chosen, best)
		for sig := range left {
			if has(sig, best) {
				delete(left, sig)
			}
		}
	}
	keep := map[string]bool{}
	for _, k := range chosen {
		keep[k] = true
	}
	for _, k := range chosen {
		needed := false
		for sig := range finds {
			if !has(sig, k) {
				continue
			}
			other := false
			for _, k2 := range strings.Split(sig, sigSep) {
				other = other || (k2 != k && keep[k2])
			}
			if !other {
				needed = true
				break
			}
		}
		if !needed {
			delete(keep, k)
		}
	}
	out := map[string]finding{}
	for sig, f := range finds {
		for _, k := range strings.Split(sig, sigSep) {
			if !keep[k] {
				continue
			}
			if old, ok := out[k]; !ok || f.Rank < old.Rank {
				out[k] = f
			}
		}
	}
	return out
}

type finding struct {
	Key    string      `json:"-"`
	Rank   int64       `json:"-"`
	Routes []routeSpec `json:"routes"`
	Config string      `json:"config_dsl"`
	Req    reqSpec     `json:"request"`
	ReqRaw string      `json:"request_raw"`
	Remote string      `json:"remote_addr"`
	Expect expectation `json:"expected"`
	Got    observation `json:"observed"`
	Interp interp      `json:"interpretation"`
	// History > 0: the case differs from the reference only after the History requests that precede it in the
	// request table of its configuration were served on the same boot (Full: one-route table, complete product)
	History int  `json:"requests_served_before,omitempty"`
	Full    bool `json:"full_request_product,omitempty"`
	QI      int  `json:"-"`
}

func (f finding) message() string {
	var rs []string
	for _, s := range f.Routes {
		rs = append(rs, s.String())
	}
	hist := ""
	if f.History > 0 {
		hist = fmt.Sprintf("   (not as the only request after boot: after the %d requests that precede it in the request table, same boot)", f.History)
	}
	return fmt.Sprintf("routes (in order): %s\nrequest: %s%s\nexpected: status %d allow %v route %q target %q\nobserved: status %d allow %v stored %d route %q target %q residue %d",
		strings.Join(rs, " ; "), f.Req, hist, f.Expect.Status, f.Expect.Allow, f.Expect.Route, f.Expect.Target,
		f.Got.Status, f.Got.Allow, f.Got.Stored, f.Got.Route, f.Got.Target, f.Got.Residue)
}

// runOne boots the configuration on its own slot, serves one request and compares (replay / recheck path).
func runOne(routes []routeSpec, q reqSpec, m *memo, slot int) (bool, expectation, observation, error) {
	b, err := boot(configDSL(routes, bootSeq.Add(1)), slot)
	if err != nil {
		return false, expectation{}, observation{}, err
	}
	defer b.a.Shutdown()
	o, err := b.serve(q, q.raw())
	if err != nil {
		return false, expectation{}, o, err
	}
	e := expect(routes, q, m)
	return !sameOutcome(e, o), e, o, nil
}

// tableDims: the request dimensions of a configuration's request table (runConfig).
func tableDims(routes []routeSpec, full bool) int {
	if full {
		return dimAll
	}
	dims := 0
	for _, s := range routes {
		dims |= dimsOfMatch(s.Match)
	}
	return dims
}

// runAfter boots the configuration, serves the history requests that precede position qi in its request table
// (in table order) and then request qi; it reports whether that last response differs from the reference.
func runAfter(routes []routeSpec, full bool, qi, history int, m *memo, slot int) (bool, expectation, observation, error) {
	table := requestsFor(tableDims(routes, full))
	if qi < 0 || qi >= len(table) || history < 0 || history > qi {
		return false, expectation{}, observation{}, fmt.Errorf("request table position %d / history %d out of range (%d requests)", qi, history, len(table))
	}
	b, err := boot(configDSL(routes, bootSeq.Add(1)), slot)
	if err != nil {
		return false, expectation{}, observation{}, err
	}
	defer b.a.Shutdown()
	var o observation
	for _, q := range table[qi-history : qi+1] {
		if o, err = b.serve(q, q.raw()); err != nil {
			return false, expectation{}, o, err
		}
	}
	e := expect(routes, table[qi], m)
	return !sameOutcome(e, o), e, o, nil
}

// ---------------------------------------------------------------------------
// calibration of details the documentation leaves undefined

func calibrate(r *runner.Run) (interp, bool) {
	probe := func(name string, s routeSpec, q reqSpec) (bool, bool) {
		b, err := boot(configDSL([]routeSpec{s}, bootSeq.Add(1)), 900)
		if err != nil {
			r.Infra("calibration %s: boot: %v", name, err)
			return false, false
		}
		defer b.a.Shutdown()
		o, err := b.serve(q, q.raw())
		if err != nil {
			r.Infra("calibration %s: %v", name, err)
			return false, false
		}
		switch o.Status {
		case http.StatusAccepted:
			return true, true
		case http.StatusNotFound, http.StatusMethodNotAllowed:
			return false, true
		}
		r.Infra("calibration %s: unexpected status %d", name, o.Status)
		return false, false
	}
	var ip interp
	var ok [5]bool
	ip.CollapseSlashes, ok[0] = probe("double-slash", routeSpec{0, chBare, mkNone}, reqSpec{Path: 6})
	ip.HostDotStripped, ok[1] = probe("host-trailing-dot", routeSpec{0, chBare, mkHostH1}, reqSpec{Host: hostH1Dot})
	ip.EmptyHostIsAny, ok[2] = probe("empty-host-vs-*", routeSpec{0, chBare, mkHostStar}, reqSpec{Host: hostAbsent})
	ip.HeaderCommaList, ok[3] = probe("header-comma-list", routeSpec{0, chBare, mkHeaderX1}, reqSpec{Hdr: hdrComma21})
	ip.UnmapV4InV6, ok[4] = probe("ipv4-mapped", routeSpec{0, chBare, mkIP10}, reqSpec{Remote: raMapped10})
	for _, k := range ok {
		if !k {
			return ip, false
		}
	}
	yn := func(b bool, y, n string) string {
		if b {
			return y
		}
		return n
	}
	r.Assume("docs do not define duplicate slashes / dot segments in the request path; observed and used by the reference for all cases: //a is " +
		yn(ip.CollapseSlashes, "collapsed to /a before matching", "matched literally (only the / route matches)") +
		"; /a/../a and /a/ give the same result under either reading on this route alphabet")
	r.Assume("docs define host matching as case-insensitive with the port ignored (enforced); a trailing dot is undefined; observed: Host \"h1.\" " +
		yn(ip.HostDotStripped, "matches", "does not match") + " host h1")
	r.Assume("docs do not say whether host \"*\" accepts a request without Host; observed: " + yn(ip.EmptyHostIsAny, "accepted", "not matched"))
	r.Assume("docs say match.header matches exact header values (a value on any header line is enforced); a comma-separated list is undefined; observed: \"X: 2, 1\" " +
		yn(ip.HeaderCommaList, "matches", "does not match") + " header X=1")
	r.Assume("docs do not define IPv4-mapped IPv6 peers; observed: [::ffff:10.1.2.3] is " +
		yn(ip.UnmapV4InV6, "inside", "outside") + " remote_ip 10.0.0.0/8")
	return ip, true
}

// ---------------------------------------------------------------------------
// enumeration

type job struct {
	idx    int64
	routes []routeSpec
	full   bool // full request product regardless of what the matchers observe
}

type shard struct {
	evals, refMatch, ref404, ref405          int64
	compiled, rejected, acceptedUnexpectedly int64
	boots                                    int64
	classes                                  map[classKey]struct{}
	finds                                    map[string]finding
	infra                                    []string
	rawCache                                 map[reqSpec]string
	byLevelCfg, byLevelReq                   [4]int64
	outcomes                                 map[outcomeKey]struct{}
}

func allShapes(chans []int, matches []int) []routeSpec {
	var out []routeSpec
	for p := range routePaths {
		for _, c := range chans {
			for _, m := range matches {
				out = append(out, routeSpec{p, c, m})
			}
		}
	}
	return out
}

func seq(n int) []int {
	out := make([]int, n)
	for i := range out {
		out[i] = i
	}
	return out
}

func TestCheck(t *testing.T) {
	r := runner.Start("C10", "exploration")
	deadline := r.Deadline(85*time.Second, 11*time.Minute)
	debug.SetGCPercent(200)          // many short-lived requests, small live heap
	debug.SetMemoryLimit(1536 << 20) // soft limit: the machine is shared with other checks

	ip, ok := calibrate(r)
	if !ok {
		r.Finish()
		return
	}
	ref := newMemo(ip)
	if p := runner.ReplayPath(); p != "" {
		replay(r, p, ref)
		r.Finish()
		return
	}

	// named matcher composition family (compose_test.go)
	if !runCompose(r) {
		r.Finish()
		return
	}
	// peer address family: the connection's peer address x request headers that name an address (peers_test.go)
	if !runPeerFamily(r, ip, deadline) {
		r.Finish()
		return
	}
	// criteria sequence family: every ordered pair of consecutive requests over the dimensions that header / query /
	// remote_ip / host criteria observe, on overlapping routes (seqfam_test.go)
	if !runSeqFamily(r, ref, deadline) {
		r.Finish()
		return
	}
	// process history family: reload / unrelated edit / management mutation between boot and the request table,
	// reference on the route order as written (history_test.go); early, so that a loaded machine never cuts it out
	if !runHistoryFamily(r, ref, deadline) {
		r.Finish()
		return
	}
	// request path spelling family: request paths derived from the configured route paths, every spelling of
	// dot-segments / empty segments / percent-encoded dots at every position (paths_test.go)
	if !runPathFamily(r, deadline) {
		r.Finish()
		return
	}
	// host pattern family: request hosts derived from the configured patterns (hosts_test.go)
	if !runHostFamily(r, deadline) {
		r.Finish()
		return
	}
	// method list family: every ordered pair of consecutive requests on one boot (methods_test.go)
	if !runMethodFamily(r, ip, deadline) {
		r.Finish()
		return
	}

	workers := runtime.NumCPU()
	if workers > 16 {
		workers = 16
	}
	jobs := make(chan job, 4*workers)
	var stop atomic.Bool
	shards := make([]*shard, workers)
	var wg sync.WaitGroup
	for w := 0; w < workers; w++ {
		sh := &shard{classes: map[classKey]struct{}{}, finds: map[string]finding{}, rawCache: map[reqSpec]string{}, outcomes: map[outcomeKey]struct{}{}}
		shards[w] = sh
		wg.Add(1)
		go func(slot int) {
			defer wg.Done()
			for j := range jobs {
				if stop.Load() {
					continue
				}
				runConfig(sh, j, ref, slot)
				if len(sh.infra) > 0 {
					stop.Store(true)
				}
			}
		}(w)
	}

	// level 1 and 2: the complete product of all 208 shapes (invalid ones are counted as rejected);
	// level 3 (thorough): restricted cross product, see rule.
	full := allShapes(seq(nChan), seq(nMatch))
	var idx int64
	cut := false
	emit := func(routes []routeSpec, fullReq bool) bool {
		if stop.Load() {
			return false
		}
		if idx%64 == 0 && time.Now().After(deadline) {
			cut = true
			return false
		}
		jobs <- job{idx: idx, routes: append([]routeSpec(nil), routes...), full: fullReq}
		idx++
		return true
	}
	func() {
		for _, a := range full {
			if !emit([]routeSpec{a}, true) {
				return
			}
		}
		for _, a := range full {
			for _, b := range full {
				if !emit([]routeSpec{a, b}, false) {
					return
				}
			}
		}
		if r.Thorough() {
			l3 := level3Shapes()
			for _, a := range l3 {
				for _, b := range l3 {
					for _, c := range l3 {
						if !emit([]routeSpec{a, b, c}, false) {
							return
						}
					}
				}
			}
		}
	}()
	close(jobs)
	wg.Wait()

	// merge
	finds := map[string]finding{}
	classes := map[string]struct{}{}
	var lvCfg, lvReq [4]int64
	for _, sh := range shards {
		for _, m := range sh.infra {
			r.Infra("%s", m)
		}
		r.Add("evaluations", sh.evals)
		r.Add("ref_match", sh.refMatch)
		r.Add("ref_nomatch", sh.ref404+sh.ref405)
		r.Add("ref_nomatch_404", sh.ref404)
		r.Add("ref_nomatch_405", sh.ref405)
		r.Add("configs_compiled", sh.compiled)
		r.Add("configs_rejected", sh.rejected)
		r.Add("configs_compiled_against_documented_rule", sh.acceptedUnexpectedly)
		for k := range sh.classes {
			classes[k.String()] = struct{}{}
		}
		for k := range sh.outcomes {
			classes[fmt.Sprintf("outcome|%s|winner=%d|%d", k.chans, k.winner, k.status)] = struct{}{}
		}
		for k, f := range sh.finds {
			if old, ok := finds[k]; !ok || f.Rank < old.Rank {
				finds[k] = f
			}
		}
		for i := range lvCfg {
			lvCfg[i] += sh.byLevelCfg[i]
			lvReq[i] += sh.byLevelReq[i]
		}
	}
	for k := range classes {
		r.Distinct(k)
	}
	r.Set("configs_booted_by_route_count", map[string]int64{"1": lvCfg[1], "2": lvCfg[2], "3": lvCfg[3]})
	r.Set("requests_by_route_count", map[string]int64{"1": lvReq[1], "2": lvReq[2], "3": lvReq[3]})
	r.Set("configs_enumerated", idx)
	if cut {
		r.NotExhaustive(fmt.Sprintf("wall budget reached after %d configurations", idx))
	}

	// deterministic samples
	for _, s := range []struct {
		routes []routeSpec
		q      reqSpec
	}{
		{[]routeSpec{{0, chBare, mkNone}}, reqSpec{Path: 2}},
		{[]routeSpec{{0, chBare, mkNone}}, reqSpec{Path: 4}},
		{[]routeSpec{{0, chWrap, mkHostWildD}}, reqSpec{Host: hostD}},
		{[]routeSpec{{0, chBare, mkMethodsGetPut}, {3, chWrap, mkNone}}, reqSpec{Method: 1}},
		{[]routeSpec{{3, chBare, mkIP10}, {0, chBare, mkNone}}, reqSpec{Remote: ra192}},
		{[]routeSpec{{0, chBare, mkNamed}}, reqSpec{Method: 0, Host: hostH1, Query: q1}},
	} {
		_, e, o, err := runOne(s.routes, s.q, ref, 901)
		if err != nil {
			r.Infra("sample: %v", err)
			continue
		}
		var rs []string
		for _, x := range s.routes {
			rs = append(rs, x.String())
		}
		r.Sample(map[string]any{"routes": rs, "request": s.q.String(), "expected_status": e.Status, "expected_route": e.Route,
			"expected_allow": e.Allow, "observed_status": o.Status, "observed_route": o.Route, "observed_target": o.Target, "observed_allow": o.Allow})
	}

	// violations: one per key, the smallest failing case of each key, in key order
	finds = chooseKeys(finds)
	keys := make([]string, 0, len(finds))
	for k := range finds {
		keys = append(keys, k)
	}
	sort.Strings(keys)
	for _, k := range keys {
		f := finds[k]
		// the request alone on a fresh boot, else after the requests served before it on that boot: the property
		// gives every request its outcome from the configuration and the request alone, so an outcome that an
		// earlier request changed is a violation of its own class
		if bad, _, _, err := runOne(f.Routes, f.Req, ref, 902); (err != nil || !bad) && f.QI > 0 {
			f.History = f.QI
			k = "after-history:" + k
		}
		r.Violation(k, f.message(), f, func() bool {
			if f.History > 0 {
				bad, _, _, err := runAfter(f.Routes, f.Full, f.QI, f.History, ref, 902)
				return err == nil && bad
			}
			bad, _, _, err := runOne(f.Routes, f.Req, ref, 902)
			return err == nil && bad
		})
	}

	r.Set("rule", "configurations: every ordered list of 1 and 2 routes over path{/a,/a/b,/ab,/} x channel{bare,inbound{},outbound,internal} x 13 match shapes "+
		"(208 shapes; lists the compiler rejects are counted, not run); thorough adds every ordered list of 3 routes over path x {bare x 13 match shapes, outbound, internal}. "+
		"requests: path(10) x method(3) always complete; Host(8), header X(6), query q(4), RemoteAddr(5) complete whenever a matcher of the configuration observes the dimension "+
		"(one-route configurations always get the full 28800-request product), else pinned. Each request is served by the real ingress handler; status, Allow set, and "+
		"route/target of the stored message are compared with the reference resolver; 404/405 must leave the store empty. "+
		"composition family: named matchers @S (1, 2, 3, 5 values), @X, @Y of one kind in {host, method, header_exists, query_exists, remote_ip}; every ordered tuple of 1..2 (thorough 1..3) "+
		"routes /r0../r2 over the forms {@S@X, @S@Y, @X@S, @Y@S, @S, inline same kind + @S@X, inline other kind + @S@Y}; requests over every route path x every value of @S/@X/@Y/inline/non-member "+
		"(presence sets for *_exists) x methods. "+
		"host pattern family: patterns {exact d, *.d} over the domains {d, partner.example, b.partner.example, example, xn--bcher-kva.example}, *, and mixed-case spellings; every host list of 1..2 "+
		"(thorough 1..3) distinct patterns in every order x route forms {only route, restricted route in front of an open one, method-restricted route (404 vs 405)}; request Hosts derived from EVERY "+
		"pattern domain: the domain, 1- and 2-level sub-domains, parent, sibling, glued names without a dot boundary (evil+d, not-a-+d, x_+d, xn--+d, UTF-8 byte+d), d as prefix / glued prefix / infix, "+
		"punycode and UTF-8 sub-domain labels, each spelled plain / upper case / trailing dot / :port / upper+port / dot+port, plus no Host and an IPv6 literal; label-wise reference. "+
		"request path spelling family: ordered lists of 1..2 (thorough 1..3) routes over {/, /hooks, /hooks/github, /hooks/github/push, /health, /hooks/.well-known} x kinds {open, method GET, outbound, internal}; "+
		"request paths derived from EVERY route path of the configuration (the path, its parent, a child, a sibling, / and a path below no route): one token inserted at every position "+
		"(//, runs of 3/10/65 slashes, ., .., ../.., ../../../.. above the root, x/.., x/y/../.., ../n for every segment name n, %2e%2e, %2E%2E, .%2E, %2e, x/%2e%2e, %2f, x%2f.., twice-encoded %252e%252e and x%252f.., "+
		"the look-alike segments ..; ... ..%20 ..\\.., x) or one segment re-spelled (first byte percent-encoded, upper case, n., n.., .n, ..n, n;x, n%2f), each followed by nothing / . / .. (thorough: 4 more) and 0..1 trailing slashes, "+
		"POST and GET, origin-form, absolute-form (also with an empty path) and with a query containing dot-segments; thorough: two inserted tokens at every pair of positions; raw request targets through http.ReadRequest "+
		"(not normalised); reference: segment stack over the harness's own element list (push / nothing / pop), then the first inbound route whose segments are a prefix; percent-encodings calibrated once mid-path. "+
		"method list family: /api with the first K=0..7 of 7 methods (inline, named matcher, split), /api/orders (4 method variants), /api/orders/x, /api/users (3 variants, optional host) in 3 orders "+
		"(quick: 2 variants per child); on one boot a walk through the request alphabet path(6) x method(6..7) x host(1..2) in which every ordered pair of requests occurs as consecutive requests; "+
		"every response compared with the stateless reference; then every ordered pair (A, B) once more with B served completely inside A's first Header / WriteHeader / Write call on its ResponseWriter "+
		"(deterministic overlap at the writer calls): status and Allow of A and of every nested B and the stored routes compared with the reference. Side pass (race_test.go, -race build): the same method family, one 3-route configuration per match shape and the host lists, "+
		"served by 8 overlapping goroutines in phases 405-only / 404-only / 202-only / mixed; only the race detector judges. "+
		"process history family: what happened to the gateway between boot and the request table is a dimension. Configurations: every ordered list of 1..3 routes with distinct paths over the pairwise overlapping "+
		"paths {/, /a, /a/b} (thorough: plus /ab) x {bare, inbound{} (adjacent ones share one wrapper), outbound, internal} x {pull, deliver} as far as the documented channel rules allow (6 shapes; this includes "+
		"the non-adjacent mixes inbound A, bare B, inbound C); match part: a route with each of the 12 match shapes (bare pull / inbound{} deliver) in front of and behind an open catch-all (thorough: on /a and /a/b, partners of all 6 shapes on / and /a/b); "+
		"labelled part: lists of 2 (thorough: 2..3) routes whose file already carries application/endpoint_name on one route; thorough: lists of 1..2 routes over all 7 spellings (shorthand and wrapper twins). "+
		"Operations on the running gateway: reload of the unchanged file (run()'s reloadNow), reload after a comment was appended, reload after a bare pull route on an unused path was appended last, reload after a "+
		"deliver route was appended (documented restart-required), reload after the file was rewritten with the routes in the opposite order, label route #i (PUT /applications/app1/endpoints/ep1 on the Admin handler startServers wired: parse -> label -> Format -> write -> reload), unlabel (DELETE). "+
		"Sequences per configuration of n routes: reload>reload>comment, comment>append-pull>reload, append-deliver>reload and reverse>reload>reverse (quick: on the 1..2-route lists), and for every i: label(i)>reload>unlabel (labelled part: unlabel>reload, reload>unlabel, label(j)>reload for j != i); "+
		"thorough adds label(i)>label(j)>reload for all i != j, append-pull>label(i)>reload, append-deliver>label(0)>reload, unlabel>reload, and on the 1..2-route lists EVERY sequence of 2 operations over the whole alphabet. "+
		"The request table of the main family (path(10) x method(POST, GET; PUT when a route has a method criterion), other dimensions when a matcher observes them) is served after boot and after EVERY operation; reference: the main resolver on the route list in the "+
		"order the harness wrote it, appended routes behind it once the gateway has answered that the reload / mutation was applied (the gateway's answer decides only that; the rewritten file is never read for expectations). "+
		"peer address family: route /a with remote_ip list in {10.0.0.0/8; 2001:db8::/32; 127.0.0.0/8; 203.0.113.7; 10.0.0.0/8+2001:db8::/32} (thorough: plus ::1; 192.168.0.0/16; 127.0.0.0/8+::1), alone and in front of an open catch-all /; "+
		"requests POST and GET /a from 17 peer addresses (loopback v4 / other 127/8 / ::1 / v4-mapped loopback, 10/8 plain and mapped, 192.168, 172.16, link-local v4 and v6, unique-local v6, the listed single address and its neighbour, "+
		"2001:db8::1 and 2001:db9::1, a public address, an unparsable peer), each without and with ONE address-naming header out of 18 (X-Forwarded-For in two spellings, X-Real-IP, Forwarded (RFC 7239 syntax), True-Client-IP, CF-Connecting-IP, "+
		"X-Client-IP, Client-IP, X-Cluster-Client-IP, Fastly-Client-IP, X-Original-Forwarded-For, X-Forwarded, Forwarded-For, X-Envoy-External-Address, X-Appengine-User-IP, X-Remote-Addr, X-Remote-IP, Remote-Addr) whose value names an address "+
		"inside each listed prefix / outside every list / loopback (thorough: ::1 too), alone, first of a list, last of a list, with a port (thorough: first / last of two header lines); reference: bit-wise prefix comparison on the hand-written peer octets, headers never looked at. "+
		"criteria sequence family: two bare routes on (/a/b, /a) and (/a, /a/b) (thorough: and (/a, /)) x all 13 match shapes on the first x all 13 on the second; on one boot a pairWalk through path{/a/b, /a (thorough: /x)} x method{POST, GET, PUT when listed} x "+
		"every dimension a matcher of the configuration observes (quick: host{h1, x.d, d}, header{absent, X:1, X:2}, query{-, q=1, q=2}, remote{10.1.2.3, 192.168.0.1, 2001:db8::1}; thorough: the complete header / query / remote alphabets of the main family), "+
		"so that every ordered pair of requests occurs as consecutive requests; every response compared with the stateless main reference. "+
		"Every family that serves several requests on one boot re-checks a mismatch as the only request after a fresh boot and, when it does not reproduce, after the requests that preceded it on that boot; "+
		"such a case is reported under its own key (after-history: / history-after-requests: / peerfam-after-history: / seqfam:after-one-request:). "+
		"distinct_nontrivial counts (match shape, observed request value, reference verdict) classes, (route path, request path, verdict) classes and "+
		"(channel tuple, winner position, status) classes reached by the reference")
	r.Assume("main family: encoded slashes (%2F) and other percent-encoded path bytes are not in its alphabet; the request path spelling family sends them under a measured reading (see there)")
	r.Assume("request methods are upper case; route auth, rate limits and adaptive backpressure are off (C08/C12 cover them), so a resolved request always ends in 202")
	r.Assume("a pull route stores target \"pull\" (DESIGN.md Admin API example), a deliver route stores its deliver URL")
	r.Assume("overlapping requests: a second request is interleaved deterministically only at the first request's ResponseWriter calls (method list family, all ordered pairs); an overlap between two " +
		"instructions without a writer call in between is left to the free-running -race side pass, which reports data races only and within a wall budget; " +
		"request sequences are covered to the depth of all ordered pairs of consecutive requests of the method list family")
	r.Assume("host family: raw UTF-8 and underscore labels are sent as they are (net/http's server would reject some of them before the handler; the resolver must still not match them to a foreign pattern); " +
		"a Host with an empty label in front of the domain (\".d\") and patterns written with a port or a trailing dot are not in the alphabet (undefined by the docs)")
	r.Assume("process history family: whether a reload or a management mutation is applied or refused is taken from the gateway's own answer (Reload result / Admin API \"applied\"), not demanded " +
		"(restart-required rules belong to other properties); demanded is the resolution for that answer. Requests are served between operations, never during one (reload/request interleavings: C18; " +
		"unsynchronised sharing: the -race side pass, which reloads while requests are in flight). MCP management tools and `config fmt` reach the same Format path but are not driven here")
	r.Assume("peer address family: the remote address of a request is the connection's peer address as net/http reports it in RemoteAddr (DESIGN.md: match.remote_ip matches the source IP from connection RemoteAddr); " +
		"no documented option makes a request header authoritative for it, so no header may move a request into or out of a remote_ip criterion; one address-naming header per request, PROXY protocol is not in the alphabet")
	r.Assume("criteria sequence family: sequences of header / query / remote / host / method / path values to the depth of all ordered pairs of consecutive requests on two-route configurations; state that needs three or more " +
		"particular requests, or three or more routes, to show is not enumerated")
	r.Assume("405 needs an inbound route whose criteria other than the method all hold; Allow is compared as a set with the union of the methods of those routes (POST when none)")
	r.Finish()
}

// level3Shapes: restricted shapes for 3-route lists: the inbound{} wrapper is dropped (it is
// equivalent to bare and completely covered at list length 1 and 2).
func level3Shapes() []routeSpec {
	var out []routeSpec
	for p := range routePaths {
		for m := 0; m < nMatch; m++ {
			out = append(out, routeSpec{p, chBare, m})
		}
		out = append(out, routeSpec{p, chOutbound, mkNone}, routeSpec{p, chInternal, mkNone})
	}
	return out
}

func runConfig(sh *shard, j job, m *memo, slot int) {
	dsl := configDSL(j.routes, bootSeq.Add(1))
	cfg, err := config.Parse([]byte(dsl))
	if err != nil {
		sh.infra = append(sh.infra, fmt.Sprintf("generated DSL does not parse: %v\n%s", err, dsl))
		return
	}
	_, res := config.Compile(cfg)
	want := expectRejected(j.routes)
	if !res.OK {
		if !want {
			sh.infra = append(sh.infra, fmt.Sprintf("compiler rejected a configuration the documentation allows: %v\n%s", res.Errors, dsl))
			return
		}
		sh.rejected++
		return
	}
	sh.compiled++
	if want {
		sh.acceptedUnexpectedly++
	}
	b, err := boot(dsl, slot)
	if err != nil {
		sh.infra = append(sh.infra, fmt.Sprintf("boot: %v\n%s", err, dsl))
		return
	}
	defer b.a.Shutdown()
	sh.boots++
	n := len(j.routes)
	sh.byLevelCfg[n]++

	dims := 0
	for _, s := range j.routes {
		dims |= dimsOfMatch(s.Match)
	}
	if j.full {
		dims = dimAll
	}
	chanTuple := ""
	for _, s := range j.routes {
		chanTuple += chanNames[s.Chan][:3] + "."
	}
	for qi, q := range requestsFor(dims) {
		raw, ok := sh.rawCache[q]
		if !ok {
			raw = q.raw()
			sh.rawCache[q] = raw
		}
		o, err := b.serve(q, raw)
		if err != nil {
			sh.infra = append(sh.infra, fmt.Sprintf("serve %s: %v", q, err))
			return
		}
		sh.trace(j.routes, q, m)
		e := expect(j.routes, q, m)
		sh.evals++
		sh.byLevelReq[n]++
		switch e.Status {
		case http.StatusAccepted:
			sh.refMatch++
		case http.StatusNotFound:
			sh.ref404++
		default:
			sh.ref405++
		}
		sh.outcomes[outcomeKey{chanTuple, int8(e.Winner), int16(e.Status)}] = struct{}{}
		if sameOutcome(e, o) {
			continue
		}
		key := strings.Join(candidates(j.routes, q, m, e, o), sigSep)
		rank := j.idx<<20 | int64(qi)
		if old, ok := sh.finds[key]; ok && old.Rank <= rank {
			continue
		}
		sh.finds[key] = finding{Key: key, Rank: rank, Routes: j.routes, Config: dsl, Req: q, ReqRaw: raw,
			Remote: reqRemotes[q.Remote], Expect: e, Got: o, Interp: m.ip, QI: qi, Full: j.full}
	}
}

// class keys are kept compact while enumerating and spelled out when merged

const (
	tagPath = iota
	tagMethod
	tagHost
	tagHdr
	tagQuery
	tagRemote
)

type classKey struct{ tag, a, b, holds uint8 }

type outcomeKey struct {
	chans  string
	winner int8
	status int16
}

func (k classKey) String() string {
	v := verdict(k.holds == 1)
	switch k.tag {
	case tagPath:
		return "path|" + routePaths[k.a] + "|" + reqPaths[k.b] + "|" + v
	case tagMethod:
		return matchNames[k.a] + "|method=" + reqMethods[k.b] + "|" + v
	case tagHost:
		return matchNames[k.a] + "|host=" + reqHosts[k.b] + "|" + v
	case tagHdr:
		return matchNames[k.a] + "|hdr=" + reqHdrNames[k.b] + "|" + v
	case tagQuery:
		return matchNames[k.a] + "|query=" + reqQueries[k.b] + "|" + v
	}
	return matchNames[k.a] + "|remote=" + reqRemotes[k.b] + "|" + v
}

// trace records the reference's per-route verdict classes: (route path, request path, verdict) and,
// for routes whose path holds, (match shape, value of every dimension the shape observes, verdict of the route).
func (sh *shard) trace(routes []routeSpec, q reqSpec, m *memo) {
	for _, s := range routes {
		pv := m.pathHolds(s, q)
		sh.classes[classKey{tagPath, uint8(s.Path), uint8(q.Path), b2u(pv)}] = struct{}{}
		if !pv {
			continue
		}
		v := b2u(m.othersHold(s, q) && m.methodHolds(s, q))
		mk := uint8(s.Match)
		sh.classes[classKey{tagMethod, mk, uint8(q.Method), v}] = struct{}{}
		d := dimsOfMatch(s.Match)
		if d&dimHost != 0 {
			sh.classes[classKey{tagHost, mk, uint8(q.Host), v}] = struct{}{}
		}
		if d&dimHdr != 0 {
			sh.classes[classKey{tagHdr, mk, uint8(q.Hdr), v}] = struct{}{}
		}
		if d&dimQuery != 0 {
			sh.classes[classKey{tagQuery, mk, uint8(q.Query), v}] = struct{}{}
		}
		if d&dimRemote != 0 {
			sh.classes[classKey{tagRemote, mk, uint8(q.Remote), v}] = struct{}{}
		}
	}
}

func b2u(b bool) uint8 {
	if b {
		return 1
	}
	return 0
}

func verdict(b bool) string {
	if b {
		return "holds"
	}
	return "fails"
}

// replay re-runs the single case of a replay file written by a previous run.
func replay(r *runner.Run, path string, m *memo) {
	b, err := os.ReadFile(path)
	if err != nil {
		r.Infra("replay: %v", err)
		return
	}
	if replayCompose(r, b) || replayHistory(r, b, m) || replayPaths(r, b) || replayHosts(r, b) || replayOverlap(r, b, m.ip) || replayMethods(r, b, m.ip) || replayPeers(r, b, m.ip) || replaySeq(r, b, m) {
		return
	}
	var doc struct {
		Key    string `json:"key"`
		Replay struct {
			Routes  []routeSpec `json:"routes"`
			Req     reqSpec     `json:"request"`
			History int         `json:"requests_served_before"`
			Full    bool        `json:"full_request_product"`
		} `json:"replay"`
	}
	dec := json.NewDecoder(bytes.NewReader(b))
	if err := dec.Decode(&doc); err != nil || len(doc.Replay.Routes) == 0 {
		r.Infra("replay: cannot decode %s: %v", path, err)
		return
	}
	bad, e, o, err := runOne(doc.Replay.Routes, doc.Replay.Req, m, 903)
	if doc.Replay.History > 0 {
		qi := -1
		for i, q := range requestsFor(tableDims(doc.Replay.Routes, doc.Replay.Full)) {
			if q == doc.Replay.Req {
				qi = i
			}
		}
		bad, e, o, err = runAfter(doc.Replay.Routes, doc.Replay.Full, qi, doc.Replay.History, m, 903)
	}
	if err != nil {
		r.Infra("replay: %v", err)
		return
	}
	r.Add("evaluations", 1)
	r.Distinct("replay|" + doc.Key)
	r.Distinct(fmt.Sprintf("replay-status|%d", o.Status))
	r.Sample(map[string]any{"request": doc.Replay.Req.String(), "expected": e, "observed": o})
	r.NotExhaustive("replay of one case")
	r.Set("rule", "replay of one recorded case")
	if bad {
		f := finding{Routes: doc.Replay.Routes, Config: configDSL(doc.Replay.Routes, 0), Req: doc.Replay.Req, ReqRaw: doc.Replay.Req.raw(),
			Remote: reqRemotes[doc.Replay.Req.Remote], Expect: e, Got: o, Interp: m.ip, History: doc.Replay.History, Full: doc.Replay.Full}
		key := doc.Key
		if c := candidates(doc.Replay.Routes, doc.Replay.Req, m, e, o); (len(c) == 1 && doc.Replay.History == 0) || key == "" {
			key = c[0]
		}
		r.Violation(key, f.message(), f, nil)
	}
}
