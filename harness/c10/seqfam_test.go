package c10

// "Criteria sequence" family of the C10 enumeration.
//
// The property gives every request its outcome from the configuration and from
// that request alone. The method list family decides, for the dimensions path x
// method x host, that the outcome does not depend on what was served before.
// This family does the same for the dimensions that the OTHER criteria
// observe: header, query, remote address (and host, method and path again, so
// that every request differs from its predecessor in any subset of the
// dimensions). On one boot of a configuration with two overlapping routes it
// serves a walk through the request alphabet in which every ordered pair of
// requests occurs as two consecutive requests (pairWalk), and compares every
// response with the stateless reference resolver. A decision remembered under
// less than everything the criteria of ALL routes of the table look at - keyed
// by request line, by path, by peer, by header set ... - shows up as a request
// that is handed to the route its predecessor was handed to.
//
// Configurations: route pairs on (/a/b, /a), (/a, /a/b), (/a, /) in that
// order x every match shape on the first x every match shape on the second
// route (bare pull routes): a request that fails a criterion of the first
// route falls through to the second.

import (
	"encoding/json"
	"fmt"
	"net/http"
	"runtime"
	"sort"
	"sync"
	"time"

	"github.com/nuetzliches/hookaido/internal/verifkit/runner"
)

var sqPathPairs = [][2]int{{1, 0}, {0, 1}, {0, 3}} // indices into routePaths

const sqQuickPairs = 2 // the quick tier: specific route first, general route first

type sqCfg struct {
	Family string `json:"family"` // "seqfam"
	Pair   int    `json:"path_pair"`
	M0     int    `json:"first_match"`
	M1     int    `json:"second_match"`
	Wide   bool   `json:"complete_alphabets"` // thorough tier: the complete header / query / remote alphabets of the main family
}

func (c sqCfg) valid() bool {
	return c.Pair >= 0 && c.Pair < len(sqPathPairs) && c.M0 >= 0 && c.M0 < nMatch && c.M1 >= 0 && c.M1 < nMatch
}

func (c sqCfg) routes() []routeSpec {
	return []routeSpec{{sqPathPairs[c.Pair][0], chBare, c.M0}, {sqPathPairs[c.Pair][1], chBare, c.M1}}
}

func (c sqCfg) String() string {
	rs := c.routes()
	return rs[0].String() + " ; " + rs[1].String()
}

func sqConfigs(wide bool) []sqCfg {
	var out []sqCfg
	for p := range sqPathPairs {
		if !wide && p >= sqQuickPairs {
			break
		}
		for m0 := 0; m0 < nMatch; m0++ {
			for m1 := 0; m1 < nMatch; m1++ {
				out = append(out, sqCfg{Family: "seqfam", Pair: p, M0: m0, M1: m1, Wide: wide})
			}
		}
	}
	return out
}

// value subsets of the quick tier: for every criterion shape of the alphabet a value that meets it and two that do not
var (
	sqPaths      = []int{2, 0, 9} // /a/b, /a, /x (thorough); the quick tier takes the first two
	sqHostsQuick = []int{hostH1, hostXD, hostD}
	sqHdrQuick   = []int{hdrAbsent, hdr1, hdr2}
	sqQueryQuick = []int{qAbsent, q1, q2}
	sqRemQuick   = []int{ra10, ra192, ra2001}
)

// sqRequests: path(3) x method(POST, GET; PUT when a route lists it) x every dimension a matcher of the configuration observes.
func sqRequests(c sqCfg) []reqSpec {
	dims := dimsOfMatch(c.M0) | dimsOfMatch(c.M1)
	pick := func(bit int, quick []int, n int) []int {
		if dims&bit == 0 {
			return []int{0}
		}
		if c.Wide && bit != dimHost { // host sequences: method list family and host pattern family
			return seq(n)
		}
		return quick
	}
	methods := []int{0, 1}
	for _, m := range []int{c.M0, c.M1} {
		for _, x := range shapeCriteria[m].methods {
			if x == "PUT" && len(methods) == 2 {
				methods = append(methods, 2)
			}
		}
	}
	paths := sqPaths
	if !c.Wide {
		paths = sqPaths[:2]
	}
	var out []reqSpec
	for _, p := range paths {
		for _, me := range methods {
			for _, h := range pick(dimHost, sqHostsQuick, nHost) {
				for _, x := range pick(dimHdr, sqHdrQuick, nHdr) {
					for _, q := range pick(dimQuery, sqQueryQuick, nQuery) {
						for _, ra := range pick(dimRemote, sqRemQuick, nRemote) {
							out = append(out, reqSpec{p, me, h, x, q, ra})
						}
					}
				}
			}
		}
	}
	return out
}

type sqFinding struct {
	Rank    int64       `json:"-"`
	Cfg     sqCfg       `json:"config"`
	Config  string      `json:"config_dsl"`
	Seq     []reqSpec   `json:"requests_in_order"` // the shortest history found: the last one is the request that differs
	SeqText []string    `json:"requests_text"`
	Pos     int         `json:"walk_position"`
	Class   string      `json:"reproduces"`
	Expect  expectation `json:"expected"`
	Got     observation `json:"observed"`
	Interp  interp      `json:"interpretation"`
}

func (f sqFinding) message() string {
	s := fmt.Sprintf("routes (in order): %s\n", f.Cfg)
	for i, q := range f.Seq {
		if i < len(f.Seq)-1 {
			if len(f.Seq) > 4 && i >= 2 && i < len(f.Seq)-2 {
				if i == 2 {
					s += fmt.Sprintf("  ... (%d more requests of the pair walk)\n", len(f.Seq)-4)
				}
				continue
			}
			s += "earlier request: " + q.String() + "\n"
		} else {
			s += "request: " + q.String() + "   (" + f.Class + ")\n"
		}
	}
	return s + fmt.Sprintf("expected: status %d allow %v route %q\nobserved: status %d allow %v stored %d route %q residue %d",
		f.Expect.Status, f.Expect.Allow, f.Expect.Route, f.Got.Status, f.Got.Allow, f.Got.Stored, f.Got.Route, f.Got.Residue)
}

// sqServe boots the configuration and serves the requests in order; it reports whether the LAST response differs from the reference.
func sqServe(c sqCfg, reqs []reqSpec, m *memo, slot int) (bool, expectation, observation, error) {
	routes := c.routes()
	b, err := boot(configDSL(routes, bootSeq.Add(1)), slot)
	if err != nil {
		return false, expectation{}, observation{}, err
	}
	defer b.a.Shutdown()
	var o observation
	for _, q := range reqs {
		if o, err = b.serve(q, q.raw()); err != nil {
			return false, expectation{}, o, err
		}
	}
	e := expect(routes, reqs[len(reqs)-1], m)
	return !sameOutcome(e, o), e, o, nil
}

// sqClass: coverage class of one consecutive pair (match shapes, reference winners of the request and of its
// predecessor, the dimensions in which the two requests differ).
type sqClass struct {
	m0, m1, w, pw int8
	diff          uint8
}

var sqDimNames = []string{"path", "method", "host", "hdr", "query", "remote"}

func sqDiff(a, b reqSpec) uint8 {
	var d uint8
	for i, x := range []bool{a.Path != b.Path, a.Method != b.Method, a.Host != b.Host, a.Hdr != b.Hdr, a.Query != b.Query, a.Remote != b.Remote} {
		if x {
			d |= 1 << uint(i)
		}
	}
	return d
}

func (k sqClass) diffText() string {
	s := ""
	for i, n := range sqDimNames {
		if k.diff>>uint(i)&1 == 1 {
			s += "+" + n
		}
	}
	if s == "" {
		return "nothing"
	}
	return s[1:]
}

// runSeqFamily enumerates the family and reports its violations; it returns false on an infrastructure error.
func runSeqFamily(r *runner.Run, m *memo, deadline time.Time) bool {
	started := time.Now()
	if own := started.Add(runner.Pick(r, 10*time.Second, 3*time.Minute)); own.Before(deadline) {
		deadline = own
	}
	defer func() { r.Set("sequence_family_wall_s", time.Since(started).Seconds()) }()
	cfgs := sqConfigs(r.Thorough())
	workers := runtime.NumCPU()
	if workers > 16 {
		workers = 16
	}
	type result struct {
		evals, pairs, configs, n202, n404, n405, fallThenFirst int64
		classes                                                map[sqClass]struct{}
		finds                                                  map[string]sqFinding
		infra                                                  []string
		cut                                                    bool
	}
	results := make([]*result, workers)
	var wg sync.WaitGroup
	for w := 0; w < workers; w++ {
		res := &result{classes: map[sqClass]struct{}{}, finds: map[string]sqFinding{}}
		results[w] = res
		wg.Add(1)
		go func(w int) {
			defer wg.Done()
			rawCache := map[reqSpec]string{}
			for ci := w; ci < len(cfgs); ci += workers {
				c := cfgs[ci]
				routes := c.routes()
				dsl := configDSL(routes, bootSeq.Add(1))
				b, err := boot(dsl, 1700+w)
				if err != nil {
					res.infra = append(res.infra, fmt.Sprintf("sequence family: boot: %v\n%s", err, dsl))
					return
				}
				reqs := sqRequests(c)
				raws := make([]string, len(reqs))
				exps := make([]expectation, len(reqs))
				for i, q := range reqs {
					raw, ok := rawCache[q]
					if !ok {
						raw = q.raw()
						rawCache[q] = raw
					}
					raws[i], exps[i] = raw, expect(routes, q, m)
				}
				walk := pairWalk(len(reqs))
				complete := true
				for pos, qi := range walk {
					if pos%4096 == 0 && time.Now().After(deadline) {
						res.cut, complete = true, false
						break
					}
					o, err := b.serve(reqs[qi], raws[qi])
					if err != nil {
						res.infra = append(res.infra, fmt.Sprintf("sequence family: serve %s: %v", reqs[qi], err))
						break
					}
					e := exps[qi]
					res.evals++
					switch e.Status {
					case http.StatusAccepted:
						res.n202++
					case http.StatusNotFound:
						res.n404++
					default:
						res.n405++
					}
					if pos > 0 {
						res.pairs++
						p := exps[walk[pos-1]]
						res.classes[sqClass{int8(c.M0), int8(c.M1), int8(e.Winner), int8(p.Winner), sqDiff(reqs[walk[pos-1]], reqs[qi])}] = struct{}{}
						if p.Winner == 1 && e.Winner == 0 {
							res.fallThenFirst++ // a request that fell through to the second route, then one the first route takes
						}
					}
					if sameOutcome(e, o) {
						continue
					}
					kind := mfMismatchKind(e, o)
					rank := int64(ci)<<32 | int64(pos)
					if old, ok := res.finds[kind]; ok && old.Rank <= rank {
						continue
					}
					res.finds[kind] = sqFinding{Rank: rank, Cfg: c, Config: dsl, Pos: pos, Expect: e, Got: o, Interp: m.ip}
				}
				b.a.Shutdown()
				if len(res.infra) > 0 || res.cut {
					return
				}
				if complete {
					res.configs++
				}
			}
		}(w)
	}
	wg.Wait()

	good, cut := true, false
	finds := map[string]sqFinding{}
	var configs int64
	for _, res := range results {
		for _, msg := range res.infra {
			r.Infra("%s", msg)
			good = false
		}
		cut = cut || res.cut
		configs += res.configs
		r.Add("evaluations", res.evals)
		r.Add("sequence_family_evaluations", res.evals)
		r.Add("sequence_family_consecutive_pairs", res.pairs)
		r.Add("sequence_family_pairs_fallthrough_then_first_route", res.fallThenFirst)
		r.Add("sequence_family_configs", res.configs)
		r.Add("configs_compiled", res.configs)
		r.Add("ref_match", res.n202)
		r.Add("ref_nomatch", res.n404+res.n405)
		r.Add("ref_nomatch_404", res.n404)
		r.Add("ref_nomatch_405", res.n405)
		for k := range res.classes {
			r.Distinct(fmt.Sprintf("seqfam|%s>%s|winner %d after %d|differs in %s", matchNames[k.m0], matchNames[k.m1], k.w, k.pw, k.diffText()))
		}
		for k, f := range res.finds {
			if old, ok := finds[k]; !ok || f.Rank < old.Rank {
				finds[k] = f
			}
		}
	}
	r.Set("sequence_family_configs_enumerated", len(cfgs))
	if cut {
		r.NotExhaustive(fmt.Sprintf("wall budget reached inside the criteria sequence family (%d of %d configurations complete)", configs, len(cfgs)))
	}
	kinds := make([]string, 0, len(finds))
	for k := range finds {
		kinds = append(kinds, k)
	}
	sort.Strings(kinds)
	for _, kind := range kinds {
		f := finds[kind]
		reqs := sqRequests(f.Cfg)
		walk := pairWalk(len(reqs))
		at := func(idx ...int) []reqSpec {
			out := make([]reqSpec, len(idx))
			for i, x := range idx {
				out[i] = reqs[x]
			}
			return out
		}
		bad := func(s []reqSpec) bool {
			b, _, _, err := sqServe(f.Cfg, s, m, 930)
			return err == nil && b
		}
		// shortest history that reproduces the mismatch: the request alone on a fresh boot, after ONE request of the
		// alphabet (the predecessor first, then the others in alphabet order), or the walk up to the request
		qi := walk[f.Pos]
		class := "after-walk"
		f.Seq = at(walk[:f.Pos+1]...)
		if bad(at(qi)) {
			f.Seq, class = at(qi), "fresh"
		} else if f.Pos > 0 {
			cands := []int{walk[f.Pos-1]}
			for i := range reqs {
				cands = append(cands, i)
			}
			for _, p := range cands {
				if bad(at(p, qi)) {
					f.Seq, class = at(p, qi), "after-one-request"
					break
				}
			}
		}
		switch class {
		case "fresh":
			f.Class = "reproduces as the only request after boot"
		case "after-one-request":
			f.Class = "reproduces after the one earlier request alone, not as the only request after boot"
		default:
			f.Class = "reproduces only after the preceding requests of the pair walk"
		}
		for _, q := range f.Seq {
			f.SeqText = append(f.SeqText, q.String())
		}
		seqCopy := f.Seq
		r.Violation("seqfam:"+class+":"+kind, f.message(), f, func() bool { return bad(seqCopy) })
	}
	return good
}

// replaySeq re-runs one recorded case of this family; ok is false when the file is not of this family.
func replaySeq(r *runner.Run, data []byte, m *memo) (ok bool) {
	var doc struct {
		Key    string `json:"key"`
		Replay struct {
			Cfg sqCfg     `json:"config"`
			Seq []reqSpec `json:"requests_in_order"`
		} `json:"replay"`
	}
	if json.Unmarshal(data, &doc) != nil || doc.Replay.Cfg.Family != "seqfam" {
		return false
	}
	c, s := doc.Replay.Cfg, doc.Replay.Seq
	valid := c.valid() && len(s) > 0
	for _, q := range s {
		valid = valid && q.Path >= 0 && q.Path < len(reqPaths) && q.Method >= 0 && q.Method < len(reqMethods) && q.Host >= 0 && q.Host < nHost &&
			q.Hdr >= 0 && q.Hdr < nHdr && q.Query >= 0 && q.Query < nQuery && q.Remote >= 0 && q.Remote < nRemote
	}
	if !valid {
		r.Infra("replay: sequence family case out of range")
		return true
	}
	bad, e, o, err := sqServe(c, s, m, 931)
	if err != nil {
		r.Infra("replay: %v", err)
		return true
	}
	r.Add("evaluations", int64(len(s)))
	r.Distinct("replay|" + doc.Key)
	r.Distinct(fmt.Sprintf("replay-status|%d", o.Status))
	r.Sample(map[string]any{"config": c.String(), "request": s[len(s)-1].String(), "earlier_requests": len(s) - 1, "expected": e, "observed": o})
	r.NotExhaustive("replay of one case")
	r.Set("rule", "replay of one recorded case")
	if bad {
		f := sqFinding{Cfg: c, Config: configDSL(c.routes(), 0), Seq: s, Class: "replay", Expect: e, Got: o, Interp: m.ip}
		key := doc.Key
		if key == "" {
			key = "seqfam:replay:" + mfMismatchKind(e, o)
		}
		r.Violation(key, f.message(), f, nil)
	}
	return true
}
