package c10

// "Host pattern" family of the C10 enumeration.
//
// The main family observes the Host dimension through three patterns (h1,
// *.d, *) and eight hand-picked request hosts. This family makes the request
// Host alphabet a FUNCTION of the configured patterns: for every domain d that
// a pattern of the alphabet is built from (exact "d" or wildcard "*.d"), the
// alphabet contains
//
//	d itself, a proper sub-domain, a two-level sub-domain, the parent of d, a sibling of d,
//	names that merely end in the same letters without a dot boundary (evil+d, not-a-+d, x_+d, xn--+d, raw UTF-8 byte+d),
//	names that have d as a prefix (d+.evil.example, d+evil) or as an infix (a.+d+.evil.example),
//	IDN sub-domains of d (punycode label, raw UTF-8 label),
//
// each spelled plain, upper case, with a trailing dot, with a port, upper case
// with a port, and with a trailing dot and a port; plus a request without Host
// and an IPv6 literal. Every configuration is offered the union of the derived
// alphabets of ALL domains (so a pattern also meets the names derived from
// every other pattern: api.partner.example against *.example, ...).
//
// Configurations: every host list of 1 and 2 patterns (quick; thorough: 1..3)
// in every order, in three route forms:
//
//	only:  /h   { match { host LIST } }                  POST /h     -> 202 on /h, else 404, nothing stored
//	fall:  /h/p { match { host LIST } } ; /h { }         POST /h/p/x -> 202 on /h/p, else 202 on /h (fall-through in configuration order)
//	m405:  /h   { match { method GET host LIST } }       POST /h     -> 405 Allow GET, else 404 (the 404/405 decision observes the host as well)
//
// Oracle: hostRefHolds below — label-wise, from the documentation
// (docs/configuration.md: "match.host matches the request host
// (case-insensitive, port ignored); supports exact hosts, *, and *.example.com
// (subdomains only, apex excluded)"). It works on the harness's own structured
// description of pattern and request host (label lists and spelling flags); it
// never parses the wire spelling and decides every pattern independently.

import (
	"encoding/json"
	"fmt"
	"net/http"
	"runtime"
	"sort"
	"strings"
	"sync"
	"time"

	"github.com/nuetzliches/hookaido/internal/config"
	"github.com/nuetzliches/hookaido/internal/verifkit/runner"
)

// ---- pattern alphabet -------------------------------------------------------

const (
	hpExact = iota
	hpWild
	hpAny
)

var hpKindNames = []string{"exact", "wild", "any"}

type hostPat struct {
	Kind  int      // hpExact: the domain itself; hpWild: "*." + domain; hpAny: "*"
	Dom   []string // labels, lower case
	Mixed bool     // written in mixed case in the DSL (matching is documented as case-insensitive)
}

var hostDomains = [][]string{
	{"d"},
	{"partner", "example"},
	{"b", "partner", "example"},
	{"example"},
	{"xn--bcher-kva", "example"}, // IDN domain in its punycode form
}

func hostPatterns() []hostPat {
	var out []hostPat
	for _, d := range hostDomains {
		out = append(out, hostPat{Kind: hpExact, Dom: d}, hostPat{Kind: hpWild, Dom: d})
	}
	out = append(out, hostPat{Kind: hpAny})
	out = append(out, hostPat{Kind: hpExact, Dom: hostDomains[1], Mixed: true}, hostPat{Kind: hpWild, Dom: hostDomains[1], Mixed: true})
	return out
}

func mixCase(s string) string {
	b := []byte(s)
	up := true
	for i, c := range b {
		if c >= 'a' && c <= 'z' {
			if up {
				b[i] = c - 32
			}
			up = !up
		}
	}
	return string(b)
}

func (p hostPat) dsl() string {
	s := strings.Join(p.Dom, ".")
	if p.Mixed {
		s = mixCase(s)
	}
	switch p.Kind {
	case hpAny:
		return "*"
	case hpWild:
		return "*." + s
	}
	return s
}

func (p hostPat) String() string { return p.dsl() }

// ---- request host alphabet ---------------------------------------------------

const (
	spPlain = iota
	spUpper
	spDot
	spPort
	spUpperPort
	spDotPort
	nSpelling
)

var spellingNames = []string{"plain", "upper", "trailing-dot", "port", "upper+port", "trailing-dot+port"}

type reqHost struct {
	Absent   bool     `json:"absent,omitempty"`
	Labels   []string `json:"labels,omitempty"` // the name the client means: lower case, no port, no trailing dot
	Spelling int      `json:"spelling"`
	V6       bool     `json:"v6,omitempty"` // Labels[0] is an IPv6 literal, written in brackets
	Derive   string   `json:"derived_as"`   // how the name was derived (for class counting and messages only)
}

func asciiUpper(s string) string {
	b := []byte(s)
	for i, c := range b {
		if c >= 'a' && c <= 'z' {
			b[i] = c - 32
		}
	}
	return string(b)
}

// wire is the Host header value sent for h.
func (h reqHost) wire() string {
	if h.V6 {
		return "[" + h.Labels[0] + "]:80"
	}
	s := strings.Join(h.Labels, ".")
	switch h.Spelling {
	case spUpper:
		return asciiUpper(s)
	case spDot:
		return s + "."
	case spPort:
		return s + ":8080"
	case spUpperPort:
		return asciiUpper(s) + ":8080"
	case spDotPort:
		return s + ".:8080"
	}
	return s
}

func cat(a []string, b ...string) []string { return append(append([]string(nil), a...), b...) }

// glued: the first label of d with letters put in front of it, no dot in between
func glued(prefix string, d []string) []string { return cat([]string{prefix + d[0]}, d[1:]...) }

// derivedNames lists the names derived from one domain.
func derivedNames(d []string) []reqHost {
	n := len(d)
	out := []reqHost{
		{Labels: cat(nil, d...), Derive: "self"},
		{Labels: cat([]string{"a"}, d...), Derive: "sub1"},
		{Labels: cat([]string{"a", "b"}, d...), Derive: "sub2"},
		{Labels: glued("evil", d), Derive: "glued-evil"},
		{Labels: glued("not-a-", d), Derive: "glued-dash"},
		{Labels: glued("x_", d), Derive: "glued-underscore"},
		{Labels: glued("xn--", d), Derive: "glued-xn"},
		{Labels: glued("ü", d), Derive: "glued-utf8"},
		{Labels: cat(d, "evil", "example"), Derive: "as-prefix"},
		{Labels: cat(d[:n-1], d[n-1]+"evil"), Derive: "as-glued-prefix"},
		{Labels: cat(cat([]string{"a"}, d...), "evil", "example"), Derive: "as-infix"},
		{Labels: cat([]string{"xn--bcher-kva"}, d...), Derive: "sub-punycode"},
		{Labels: cat([]string{"bücher"}, d...), Derive: "sub-utf8"},
		{Labels: cat([]string{"other"}, d[1:]...), Derive: "sibling"},
	}
	if n > 1 {
		out = append(out, reqHost{Labels: cat(nil, d[1:]...), Derive: "parent"})
	}
	return out
}

// hostAlphabet: union over all domains x all spellings, de-duplicated by wire spelling, plus the fixed entries.
func hostAlphabet() []reqHost {
	out := []reqHost{{Absent: true, Derive: "absent"}, {Labels: []string{"::1"}, V6: true, Derive: "ipv6-literal"}}
	seen := map[string]bool{}
	for _, d := range hostDomains {
		for _, h := range derivedNames(d) {
			for sp := 0; sp < nSpelling; sp++ {
				h.Spelling = sp
				w := h.wire()
				if seen[w] {
					continue
				}
				seen[w] = true
				out = append(out, h)
			}
		}
	}
	return out
}

// ---- reference --------------------------------------------------------------

// hostInterp: readings the documentation leaves open, measured once on one-route configurations with the exact pattern "d".
type hostInterp struct {
	DotStripped     bool `json:"dot_stripped"`      // "d." is host d
	DotPortStripped bool `json:"dot_port_stripped"` // "d.:8080" is host d
	EmptyHostIsAny  bool `json:"empty_host_is_any"` // "*" accepts a request without Host
}

// name the resolver is documented to look at: case folded, port dropped (both by construction of
// Labels); a trailing dot stays part of the last label unless the calibrated reading strips it.
func (h reqHost) effective(ip hostInterp) []string {
	l := h.Labels
	if (h.Spelling == spDot && !ip.DotStripped) || (h.Spelling == spDotPort && !ip.DotPortStripped) {
		l = cat(l, "") // "a.d." has an empty last label
	}
	return l
}

func sameLabels(a, b []string) bool {
	if len(a) != len(b) {
		return false
	}
	for i := range a {
		if a[i] != b[i] {
			return false
		}
	}
	return true
}

func hostPatHolds(p hostPat, h reqHost, ip hostInterp) bool {
	if h.Absent {
		return p.Kind == hpAny && ip.EmptyHostIsAny
	}
	l := h.effective(ip)
	switch p.Kind {
	case hpAny:
		return true
	case hpExact:
		return sameLabels(l, p.Dom)
	}
	// sub-domains only: at least one more label in front of the complete domain
	return len(l) > len(p.Dom) && sameLabels(l[len(l)-len(p.Dom):], p.Dom)
}

func hostRefHolds(list []hostPat, h reqHost, ip hostInterp) bool {
	for _, p := range list {
		if hostPatHolds(p, h, ip) {
			return true
		}
	}
	return false
}

// relation names how a request host relates to one pattern; used for class counting and violation keys only.
func relation(p hostPat, h reqHost) string {
	if p.Kind == hpAny {
		return "any"
	}
	if h.Absent {
		return "absent"
	}
	l, d := h.Labels, p.Dom
	js, jd := strings.Join(l, "."), strings.Join(d, ".")
	switch {
	case sameLabels(l, d):
		return "apex"
	case len(l) == len(d)+1 && sameLabels(l[1:], d):
		return "sub1"
	case len(l) > len(d) && sameLabels(l[len(l)-len(d):], d):
		return "subN"
	case strings.HasSuffix(js, jd):
		return "glued-suffix"
	case len(l) > len(d) && sameLabels(l[:len(d)], d):
		return "as-prefix"
	case strings.HasPrefix(js, jd):
		return "as-glued-prefix"
	case strings.Contains(js, "."+jd+"."):
		return "as-infix"
	case len(d) > len(l) && sameLabels(d[len(d)-len(l):], l):
		return "ancestor"
	}
	return "other"
}

// ---- configurations -----------------------------------------------------------

const (
	hfOnly = iota
	hfFall
	hf405
	nHostForm
)

var hostFormNames = []string{"only", "fall-through", "method-405"}

type hostCfg struct {
	Family string `json:"family"` // "hostfam"
	Form   int    `json:"form"`
	List   []int  `json:"patterns"` // indices into hostPatterns()
}

func (c hostCfg) pats(all []hostPat) []hostPat {
	out := make([]hostPat, len(c.List))
	for i, x := range c.List {
		out[i] = all[x]
	}
	return out
}

func (c hostCfg) describe(all []hostPat) string {
	var ps []string
	for _, p := range c.pats(all) {
		ps = append(ps, fmt.Sprintf("%q", p.dsl()))
	}
	return fmt.Sprintf("form=%s host %s", hostFormNames[c.Form], strings.Join(ps, " "))
}

func hostDSL(c hostCfg, all []hostPat, slot int64) string {
	var b strings.Builder
	ip := fmt.Sprintf("127.%d.%d.%d", slot>>16&255, slot>>8&255, slot&255)
	fmt.Fprintf(&b, "ingress { listen \"%s:8080\" }\n", ip)
	fmt.Fprintf(&b, "pull_api { listen \"%s:9443\"\n auth token \"raw:g1\" }\n", ip)
	fmt.Fprintf(&b, "admin_api { listen \"%s:2019\" }\n", ip)
	var ps []string
	for _, p := range c.pats(all) {
		ps = append(ps, fmt.Sprintf("%q", p.dsl()))
	}
	list := "host " + strings.Join(ps, " ")
	switch c.Form {
	case hfOnly:
		fmt.Fprintf(&b, "/h {\n  match { %s }\n  pull { path /e0 }\n}\n", list)
	case hfFall:
		fmt.Fprintf(&b, "/h/p {\n  match { %s }\n  pull { path /e0 }\n}\n/h {\n  pull { path /e1 }\n}\n", list)
	default:
		fmt.Fprintf(&b, "/h {\n  match { method GET %s }\n  pull { path /e0 }\n}\n", list)
	}
	return b.String()
}

func hostRaw(c hostCfg, h reqHost) string {
	p := "/h"
	if c.Form == hfFall {
		p = "/h/p/x"
	}
	if h.Absent {
		return fmt.Sprintf("POST %s HTTP/1.1\r\nContent-Length: 1\r\n\r\nx", p)
	}
	return fmt.Sprintf("POST %s HTTP/1.1\r\nHost: %s\r\nContent-Length: 1\r\n\r\nx", p, h.wire())
}

func hostExpect(c hostCfg, holds bool) expectation {
	switch {
	case c.Form == hfOnly && holds:
		return expectation{Status: http.StatusAccepted, Winner: 0, Route: "/h", Target: "pull"}
	case c.Form == hfFall && holds:
		return expectation{Status: http.StatusAccepted, Winner: 0, Route: "/h/p", Target: "pull"}
	case c.Form == hfFall:
		return expectation{Status: http.StatusAccepted, Winner: 1, Route: "/h", Target: "pull"}
	case c.Form == hf405 && holds:
		return expectation{Status: http.StatusMethodNotAllowed, Winner: -1, Allow: []string{"GET"}}
	}
	return expectation{Status: http.StatusNotFound, Winner: -1}
}

func hostConfigs(nPat, maxList int) []hostCfg {
	var lists [][]int
	var rec func(cur []int)
	rec = func(cur []int) {
		if len(cur) > 0 {
			lists = append(lists, append([]int(nil), cur...))
		}
		if len(cur) == maxList {
			return
		}
		for i := 0; i < nPat; i++ {
			dup := false
			for _, x := range cur {
				dup = dup || x == i
			}
			if !dup {
				rec(append(cur, i))
			}
		}
	}
	rec(nil)
	sort.SliceStable(lists, func(i, j int) bool { return len(lists[i]) < len(lists[j]) })
	var out []hostCfg
	for _, l := range lists {
		for f := 0; f < nHostForm; f++ {
			out = append(out, hostCfg{Family: "hostfam", Form: f, List: l})
		}
	}
	return out
}

// ---- execution ------------------------------------------------------------------

type hostFinding struct {
	Rank    int64       `json:"-"`
	Cfg     hostCfg     `json:"config"`
	Config  string      `json:"config_dsl"`
	HostIdx int         `json:"host_index"`
	History int         `json:"hosts_served_before"` // 0: reproduces as the only request after boot
	Host    reqHost     `json:"host"`
	ReqRaw  string      `json:"request_raw"`
	Expect  expectation `json:"expected"`
	Got     observation `json:"observed"`
	Interp  hostInterp  `json:"interpretation"`
}

func (f hostFinding) message(all []hostPat) string {
	return fmt.Sprintf("%s\nrequest Host: %q (%s of a pattern domain, spelled %s)\nexpected: status %d allow %v route %q\nobserved: status %d allow %v stored %d route %q residue %d",
		f.Cfg.describe(all), f.Host.wire(), f.Host.Derive, spellingNames[f.Host.Spelling], f.Expect.Status, f.Expect.Allow, f.Expect.Route,
		f.Got.Status, f.Got.Allow, f.Got.Stored, f.Got.Route, f.Got.Residue)
}

// hostRunOne boots the configuration and serves the request with Host h; with history >= 0 the hosts
// [0, history) of the alphabet are served first, as the enumeration did on that boot.
func hostRunOne(c hostCfg, all []hostPat, h reqHost, history int, ip hostInterp, slot int) (bool, expectation, observation, error) {
	b, err := boot(hostDSL(c, all, bootSeq.Add(1)), slot)
	if err != nil {
		return false, expectation{}, observation{}, err
	}
	defer b.a.Shutdown()
	if history > 0 {
		for _, ph := range hostAlphabet()[:history] {
			if _, err := b.serveRaw(hostRaw(c, ph), "10.1.2.3:1"); err != nil {
				return false, expectation{}, observation{}, err
			}
		}
	}
	o, err := b.serveRaw(hostRaw(c, h), "10.1.2.3:1")
	if err != nil {
		return false, expectation{}, o, err
	}
	e := hostExpect(c, hostRefHolds(c.pats(all), h, ip))
	return !sameOutcome(e, o), e, o, nil
}

func calibrateHosts(r *runner.Run, all []hostPat) (hostInterp, bool) {
	probe := func(name string, pat int, h reqHost) (bool, bool) {
		c := hostCfg{Family: "hostfam", Form: hfOnly, List: []int{pat}}
		b, err := boot(hostDSL(c, all, bootSeq.Add(1)), 907)
		if err != nil {
			r.Infra("host calibration %s: boot: %v", name, err)
			return false, false
		}
		defer b.a.Shutdown()
		o, err := b.serveRaw(hostRaw(c, h), "10.1.2.3:1")
		if err != nil {
			r.Infra("host calibration %s: %v", name, err)
			return false, false
		}
		switch o.Status {
		case http.StatusAccepted:
			return true, true
		case http.StatusNotFound, http.StatusMethodNotAllowed:
			return false, true
		}
		r.Infra("host calibration %s: unexpected status %d", name, o.Status)
		return false, false
	}
	exactD, anyPat := -1, -1
	for i, p := range all {
		if p.Kind == hpExact && sameLabels(p.Dom, hostDomains[0]) && !p.Mixed {
			exactD = i
		}
		if p.Kind == hpAny {
			anyPat = i
		}
	}
	var ip hostInterp
	var ok [3]bool
	ip.DotStripped, ok[0] = probe("trailing-dot", exactD, reqHost{Labels: hostDomains[0], Spelling: spDot})
	ip.DotPortStripped, ok[1] = probe("trailing-dot+port", exactD, reqHost{Labels: hostDomains[0], Spelling: spDotPort})
	ip.EmptyHostIsAny, ok[2] = probe("no-host-vs-*", anyPat, reqHost{Absent: true})
	for _, k := range ok {
		if !k {
			return ip, false
		}
	}
	yn := func(b bool, y, n string) string {
		if b {
			return y
		}
		return n
	}
	r.Assume("host family: a trailing dot on the request host is not defined by the docs; observed on exact pattern \"d\" and used for every pattern: Host \"d.\" " +
		yn(ip.DotStripped, "is", "is not") + " host d, Host \"d.:8080\" " + yn(ip.DotPortStripped, "is", "is not") + " host d; a request without Host " +
		yn(ip.EmptyHostIsAny, "matches", "does not match") + " \"*\"")
	return ip, true
}

// runHostFamily enumerates the family and reports its violations; it returns false on an infrastructure error.
func runHostFamily(r *runner.Run, deadline time.Time) bool {
	all := hostPatterns()
	ip, ok := calibrateHosts(r, all)
	if !ok {
		return false
	}
	hosts := hostAlphabet()
	cfgs := hostConfigs(len(all), runner.Pick(r, 2, 3))
	workers := runtime.NumCPU()
	if workers > 16 {
		workers = 16
	}
	type failure struct {
		ci, hi int
		e      expectation
		o      observation
		dsl    string
	}
	type result struct {
		evals, holds, fails, compiled int64
		n202, n404, n405              int64
		classes                       map[string]struct{}
		failures                      []failure
		infra                         []string
		cut                           bool
	}
	results := make([]*result, workers)
	var wg sync.WaitGroup
	for w := 0; w < workers; w++ {
		res := &result{classes: map[string]struct{}{}}
		results[w] = res
		wg.Add(1)
		go func(w int) {
			defer wg.Done()
			for ci := w; ci < len(cfgs); ci += workers {
				if time.Now().After(deadline) {
					res.cut = true
					return
				}
				c := cfgs[ci]
				pats := c.pats(all)
				dsl := hostDSL(c, all, bootSeq.Add(1))
				parsed, err := config.Parse([]byte(dsl))
				if err != nil {
					res.infra = append(res.infra, fmt.Sprintf("host family DSL does not parse: %v\n%s", err, dsl))
					return
				}
				if _, cr := config.Compile(parsed); !cr.OK {
					res.infra = append(res.infra, fmt.Sprintf("compiler rejected a host family configuration: %v\n%s", cr.Errors, dsl))
					return
				}
				b, err := boot(dsl, 1100+w)
				if err != nil {
					res.infra = append(res.infra, fmt.Sprintf("boot: %v\n%s", err, dsl))
					return
				}
				res.compiled++
				for hi, h := range hosts {
					o, err := b.serveRaw(hostRaw(c, h), "10.1.2.3:1")
					if err != nil {
						res.infra = append(res.infra, fmt.Sprintf("host family: serve Host %q: %v", h.wire(), err))
						break
					}
					holds := hostRefHolds(pats, h, ip)
					e := hostExpect(c, holds)
					res.evals++
					if holds {
						res.holds++
					} else {
						res.fails++
					}
					switch e.Status {
					case http.StatusAccepted:
						res.n202++
					case http.StatusNotFound:
						res.n404++
					default:
						res.n405++
					}
					if len(pats) == 1 {
						res.classes[fmt.Sprintf("hostfam|%s|%s|%s|%s|%s", hostFormNames[c.Form], hpKindNames[pats[0].Kind], relation(pats[0], h), spellingNames[h.Spelling], verdict(holds))] = struct{}{}
					} else {
						var rs []string
						for _, p := range pats {
							rs = append(rs, hpKindNames[p.Kind]+"~"+relation(p, h))
						}
						res.classes[fmt.Sprintf("hostfam|list|%s|%s", strings.Join(rs, "+"), verdict(holds))] = struct{}{}
					}
					if !sameOutcome(e, o) {
						res.failures = append(res.failures, failure{ci, hi, e, o, dsl})
					}
				}
				b.a.Shutdown()
				if len(res.infra) > 0 {
					return
				}
			}
		}(w)
	}
	wg.Wait()

	good, cut := true, false
	var fails []failure
	for _, res := range results {
		for _, m := range res.infra {
			r.Infra("%s", m)
			good = false
		}
		cut = cut || res.cut
		r.Add("evaluations", res.evals)
		r.Add("host_family_evaluations", res.evals)
		r.Add("host_family_configs", res.compiled)
		r.Add("configs_compiled", res.compiled)
		r.Add("host_family_ref_holds", res.holds)
		r.Add("host_family_ref_fails", res.fails)
		r.Add("ref_match", res.n202)
		r.Add("ref_nomatch", res.n404+res.n405)
		r.Add("ref_nomatch_404", res.n404)
		r.Add("ref_nomatch_405", res.n405)
		for k := range res.classes {
			r.Distinct(k)
		}
		fails = append(fails, res.failures...)
	}
	if cut {
		r.NotExhaustive("wall budget reached inside the host pattern family")
	}
	r.Set("host_family_request_hosts", len(hosts))
	r.Set("host_family_patterns", len(all))
	sort.Slice(fails, func(i, j int) bool {
		if fails[i].ci != fails[j].ci {
			return fails[i].ci < fails[j].ci
		}
		return fails[i].hi < fails[j].hi
	})

	// Naming. A mismatch is named after the single pattern that explains it wherever a one-pattern configuration of
	// the same form fails on the same host (lists are then only further witnesses); the spelling is part of the name
	// only when the plainly spelled name does not fail in the same configuration.
	type ph struct{ pat, form, hi int }
	singleFails := map[ph]bool{}
	failing := map[[2]int]bool{}
	for _, f := range fails {
		failing[[2]int{f.ci, f.hi}] = true
		if c := cfgs[f.ci]; len(c.List) == 1 {
			singleFails[ph{c.List[0], c.Form, f.hi}] = true
		}
	}
	plainOf := map[string]int{} // joined labels -> index of the plain spelling
	for hi, h := range hosts {
		if !h.Absent && !h.V6 && h.Spelling == spPlain {
			plainOf[strings.Join(h.Labels, ".")] = hi
		}
	}
	finds := map[string]hostFinding{}
	for _, f := range fails {
		c, h := cfgs[f.ci], hosts[f.hi]
		list := c.List
		if len(list) > 1 {
			var expl []int
			for _, p := range list {
				if singleFails[ph{p, c.Form, f.hi}] {
					expl = append(expl, p)
				}
			}
			if len(expl) > 0 {
				continue // explained by (and reported as) a one-pattern case
			}
		}
		var rs []string
		for _, p := range list {
			rs = append(rs, hpKindNames[all[p].Kind]+"~"+relation(all[p], h))
		}
		key := "hostfam:" + strings.Join(rs, "+")
		if pi, ok := plainOf[strings.Join(h.Labels, ".")]; ok && h.Spelling != spPlain && !failing[[2]int{f.ci, pi}] {
			key += ":" + spellingNames[h.Spelling]
		}
		holds := hostRefHolds(c.pats(all), h, ip)
		if holds {
			key += ":impl-fails"
		} else {
			key += ":impl-holds"
		}
		if f.o.Residue != 0 || (f.o.Status != http.StatusAccepted && f.o.Stored != 0) {
			key += ":store-effect"
		}
		rank := int64(f.ci)<<20 | int64(f.hi)
		if old, ok := finds[key]; ok && old.Rank <= rank {
			continue
		}
		finds[key] = hostFinding{Rank: rank, Cfg: c, Config: f.dsl, HostIdx: f.hi, Host: h, ReqRaw: hostRaw(c, h), Expect: f.e, Got: f.o, Interp: ip}
	}
	keys := make([]string, 0, len(finds))
	for k := range finds {
		keys = append(keys, k)
	}
	sort.Strings(keys)
	for _, k := range keys {
		f := finds[k]
		// the request alone on a fresh boot, else after the requests served before it on that boot
		if bad, _, _, err := hostRunOne(f.Cfg, all, f.Host, 0, ip, 908); err != nil || !bad {
			f.History = f.HostIdx
			k = strings.Replace(k, "hostfam:", "hostfam-after-history:", 1)
		}
		r.Violation(k, f.message(all), f, func() bool {
			bad, _, _, err := hostRunOne(f.Cfg, all, f.Host, f.History, ip, 908)
			return err == nil && bad
		})
	}
	return good
}

// replayHosts re-runs one recorded case of this family; ok is false when the file is not of this family.
func replayHosts(r *runner.Run, data []byte) (ok bool) {
	var doc struct {
		Key    string `json:"key"`
		Replay struct {
			Cfg     hostCfg `json:"config"`
			Host    reqHost `json:"host"`
			History int     `json:"hosts_served_before"`
		} `json:"replay"`
	}
	if json.Unmarshal(data, &doc) != nil || doc.Replay.Cfg.Family != "hostfam" || len(doc.Replay.Cfg.List) == 0 {
		return false
	}
	all := hostPatterns()
	ip, cok := calibrateHosts(r, all)
	if !cok {
		return true
	}
	c, h := doc.Replay.Cfg, doc.Replay.Host
	for _, x := range c.List {
		if x < 0 || x >= len(all) {
			r.Infra("replay: pattern index %d out of range", x)
			return true
		}
	}
	if doc.Replay.History < 0 || doc.Replay.History > len(hostAlphabet()) {
		r.Infra("replay: history out of range")
		return true
	}
	bad, e, o, err := hostRunOne(c, all, h, doc.Replay.History, ip, 909)
	if err != nil {
		r.Infra("replay: %v", err)
		return true
	}
	r.Add("evaluations", 1)
	r.Distinct("replay|" + doc.Key)
	r.Distinct(fmt.Sprintf("replay-status|%d", o.Status))
	r.Sample(map[string]any{"config": c.describe(all), "host": h.wire(), "expected": e, "observed": o})
	r.NotExhaustive("replay of one case")
	r.Set("rule", "replay of one recorded case")
	if bad {
		f := hostFinding{Cfg: c, Config: hostDSL(c, all, 0), History: doc.Replay.History, Host: h, ReqRaw: hostRaw(c, h), Expect: e, Got: o, Interp: ip}
		key := doc.Key
		if key == "" {
			key = "hostfam:replay"
		}
		r.Violation(key, f.message(all), f, nil)
	}
	return true
}
