# sourced by every script in /verif/bin
export VERIF_ROOT="${VERIF_ROOT:-$(cd "$(dirname "${BASH_SOURCE[0]}")/.." && pwd)}"
export REPO="${VERIF_REPO:-/repo}"
GOROOT_1257=/root/go/pkg/mod/golang.org/toolchain@v0.0.1-go1.25.7.linux-amd64
if [ -x "$GOROOT_1257/bin/go" ]; then
  export GO="$GOROOT_1257/bin/go"
else
  export GO="$(command -v go)"
fi
export GOTOOLCHAIN=local GOFLAGS=-mod=mod GOPROXY=off GONOSUMDB='*' GONOSUMCHECK=1 GOFLAGS=-mod=mod
unset GOSUMDB
export GONOSUMDB GOFLAGS
export GOCACHE="${GOCACHE:-$HOME/.cache/go-build}"
