// Package vsql replaces "database/sql" in internal/queue/sqlite.go. The store
// runs with one pooled connection; "holds the connection" is its unit of
// atomicity and database/sql hands a freed connection to a pseudo-randomly
// chosen waiter. The shim makes connection acquisition a scheduler point that
// is enabled only while the connection is free, so the harness owns that choice
// and no goroutine ever waits inside database/sql. Outside an exploration it is
// a transparent wrapper.
package vsql

import (
	"context"
	"database/sql"
	"strings"

	"github.com/nuetzliches/hookaido/internal/verifkit/sched"
)

var ErrNoRows = sql.ErrNoRows
var ErrConnDone = sql.ErrConnDone
var ErrTxDone = sql.ErrTxDone

type (
	NullString  = sql.NullString
	NullInt64   = sql.NullInt64
	NullInt32   = sql.NullInt32
	NullFloat64 = sql.NullFloat64
	NullBool    = sql.NullBool
	NullTime    = sql.NullTime
	Result      = sql.Result
	TxOptions   = sql.TxOptions
	IsolationLevel = sql.IsolationLevel
	DBStats     = sql.DBStats
)

type DB struct {
	real *sql.DB
	cap  int
	busy int
	file *file
}

// Statement mode (two store handles on one database file, e.g. the gateway and the MCP server's direct handle): every
// statement issued outside a write transaction becomes a scheduling point on the shared file object - reads are
// read accesses, autocommit writes and BEGIN IMMEDIATE need the file's write lock (enabled only while no other
// connection holds it: the wait SQLite would do in its busy handler is made visible as blocking), COMMIT/ROLLBACK
// release it. Statements inside a write transaction are not scheduling points: WAL readers on other connections see
// the pre-transaction snapshot until the commit, so a read scheduled "during" the transaction is equivalent to one
// scheduled before its BEGIN.
type file struct {
	name   string
	writer *Conn
}

var stmtPoints bool
var files = map[string]*file{}

// SetStatementPoints switches statement mode on or off (harness use only) and forgets the known files.
func SetStatementPoints(on bool) {
	stmtPoints = on
	files = map[string]*file{}
}

func fileOf(dsn string) *file {
	n := strings.TrimPrefix(dsn, "file:")
	if i := strings.IndexByte(n, '?'); i >= 0 {
		n = n[:i]
	}
	f := files[n]
	if f == nil {
		f = &file{name: n}
		files[n] = f
	}
	return f
}

const (
	stRead = iota
	stWrite
	stBegin
	stEnd
)

func classify(q string) int {
	t := strings.ToUpper(strings.TrimSpace(q))
	switch {
	case strings.HasPrefix(t, "BEGIN"):
		return stBegin
	case strings.HasPrefix(t, "COMMIT"), strings.HasPrefix(t, "ROLLBACK"), strings.HasPrefix(t, "END"):
		return stEnd
	case strings.HasPrefix(t, "SELECT"), strings.HasPrefix(t, "WITH") && !strings.Contains(t, "UPDATE ") && !strings.Contains(t, "DELETE ") && !strings.Contains(t, "INSERT "):
		return stRead
	}
	return stWrite
}

// stmt is called before a statement runs on connection c (nil = a pooled autocommit statement of d); the returned
// function runs after it with the statement's error.
func (d *DB) stmt(c *Conn, q string) func(error) {
	nop := func(error) {}
	if !stmtPoints || !sched.Active() || d.file == nil {
		return nop
	}
	f := d.file
	kind := classify(q)
	if c != nil && f.writer == c {
		if kind == stEnd {
			return func(error) { f.writer = nil; sched.Released(f) }
		}
		return nop
	}
	switch kind {
	case stBegin:
		if c == nil {
			return nop
		}
		sched.Point(sched.OpLock, f, func() bool { return f.writer == nil })
		f.writer = c
		sched.Acquired(f, true)
		return func(err error) {
			if err != nil && f.writer == c {
				f.writer = nil
				sched.Released(f)
			}
		}
	case stRead:
		sched.PointR(sched.OpRLock, f, nil)
	default:
		sched.Point(sched.OpLock, f, func() bool { return f.writer == nil })
	}
	return nop
}

func Open(driver, dsn string) (*DB, error) {
	db, err := sql.Open(driver, dsn)
	if err != nil {
		return nil, err
	}
	d := &DB{real: db, cap: 0}
	if stmtPoints {
		d.file = fileOf(dsn)
	}
	return d, nil
}

// Real exposes the wrapped handle (harness use only).
func (d *DB) Real() *sql.DB { return d.real }

func (d *DB) acquire() {
	if !sched.Active() {
		return
	}
	sched.Point(sched.OpConn, d, func() bool { return d.cap <= 0 || d.busy < d.cap })
	d.busy++
	sched.Acquired(d, true)
}

func (d *DB) release() {
	if !sched.Active() {
		return
	}
	if d.busy > 0 {
		d.busy--
	}
	sched.Released(d)
}

func (d *DB) Close() error             { return d.real.Close() }
func (d *DB) SetMaxOpenConns(n int)    { d.cap = n; d.real.SetMaxOpenConns(n) }
func (d *DB) SetMaxIdleConns(n int)    { d.real.SetMaxIdleConns(n) }
func (d *DB) Stats() DBStats           { return d.real.Stats() }
func (d *DB) Ping() error              { return d.PingContext(context.Background()) }
func (d *DB) PingContext(ctx context.Context) error {
	d.acquire()
	defer d.release()
	return d.real.PingContext(ctx)
}

func (d *DB) ExecContext(ctx context.Context, q string, args ...any) (Result, error) {
	d.acquire()
	defer d.release()
	after := d.stmt(nil, q)
	res, err := d.real.ExecContext(ctx, q, args...)
	after(err)
	return res, err
}

func (d *DB) Exec(q string, args ...any) (Result, error) {
	return d.ExecContext(context.Background(), q, args...)
}

func (d *DB) QueryContext(ctx context.Context, q string, args ...any) (*Rows, error) {
	d.acquire()
	d.stmt(nil, q)
	r, err := d.real.QueryContext(ctx, q, args...)
	if err != nil {
		d.release()
		return nil, err
	}
	return &Rows{real: r, db: d}, nil
}

func (d *DB) Query(q string, args ...any) (*Rows, error) {
	return d.QueryContext(context.Background(), q, args...)
}

func (d *DB) QueryRowContext(ctx context.Context, q string, args ...any) *Row {
	d.acquire()
	d.stmt(nil, q)
	return &Row{real: d.real.QueryRowContext(ctx, q, args...), db: d}
}

func (d *DB) QueryRow(q string, args ...any) *Row {
	return d.QueryRowContext(context.Background(), q, args...)
}

func (d *DB) Conn(ctx context.Context) (*Conn, error) {
	d.acquire()
	c, err := d.real.Conn(ctx)
	if err != nil {
		d.release()
		return nil, err
	}
	return &Conn{real: c, db: d}, nil
}

type Conn struct {
	real   *sql.Conn
	db     *DB
	closed bool
}

func (c *Conn) Close() error {
	if f := c.db.file; f != nil && f.writer == c {
		// a connection closed inside a write transaction: database/sql rolls it back
		f.writer = nil
		sched.Released(f)
	}
	err := c.real.Close()
	if !c.closed {
		c.closed = true
		c.db.release()
	}
	return err
}

func (c *Conn) ExecContext(ctx context.Context, q string, args ...any) (Result, error) {
	after := c.db.stmt(c, q)
	res, err := c.real.ExecContext(ctx, q, args...)
	after(err)
	return res, err
}

func (c *Conn) QueryContext(ctx context.Context, q string, args ...any) (*Rows, error) {
	c.db.stmt(c, q)
	r, err := c.real.QueryContext(ctx, q, args...)
	if err != nil {
		return nil, err
	}
	return &Rows{real: r}, nil
}

func (c *Conn) QueryRowContext(ctx context.Context, q string, args ...any) *Row {
	c.db.stmt(c, q)
	return &Row{real: c.real.QueryRowContext(ctx, q, args...)}
}

func (c *Conn) PingContext(ctx context.Context) error { return c.real.PingContext(ctx) }
func (c *Conn) Raw(f func(driverConn any) error) error { return c.real.Raw(f) }

type Rows struct {
	real     *sql.Rows
	db       *DB // non-nil when the rows own the pooled connection
	released bool
}

func (r *Rows) rel() {
	if r.db != nil && !r.released {
		r.released = true
		r.db.release()
	}
}

func (r *Rows) Next() bool {
	ok := r.real.Next()
	if !ok {
		r.rel() // database/sql closes exhausted rows and frees the connection
	}
	return ok
}
func (r *Rows) Scan(dest ...any) error { return r.real.Scan(dest...) }
func (r *Rows) Err() error             { return r.real.Err() }
func (r *Rows) Columns() ([]string, error) { return r.real.Columns() }
func (r *Rows) Close() error {
	err := r.real.Close()
	r.rel()
	return err
}

type Row struct {
	real *sql.Row
	db   *DB
	done bool
}

func (r *Row) Scan(dest ...any) error {
	err := r.real.Scan(dest...)
	if r.db != nil && !r.done {
		r.done = true
		r.db.release()
	}
	return err
}

func (r *Row) Err() error { return r.real.Err() }
