// Package vsql replaces "database/sql" in internal/queue/sqlite.go. The store
// runs with one pooled connection; "holds the connection" is its unit of
// atomicity and database/sql hands a freed connection to a pseudo-randomly
// chosen waiter. The shim makes connection acquisition a scheduler point that
// is enabled only while the connection is free, so the harness owns that choice
// and no goroutine ever waits inside database/sql. Outside an exploration it is
// a transparent wrapper.
package vsql

import (
	"context"
	"database/sql"

	"github.com/nuetzliches/hookaido/internal/verifkit/sched"
)

var ErrNoRows = sql.ErrNoRows
var ErrConnDone = sql.ErrConnDone
var ErrTxDone = sql.ErrTxDone

type (
	NullString  = sql.NullString
	NullInt64   = sql.NullInt64
	NullInt32   = sql.NullInt32
	NullFloat64 = sql.NullFloat64
	NullBool    = sql.NullBool
	NullTime    = sql.NullTime
	Result      = sql.Result
	TxOptions   = sql.TxOptions
	IsolationLevel = sql.IsolationLevel
	DBStats     = sql.DBStats
)

type DB struct {
	real *sql.DB
	cap  int
	busy int
}

func Open(driver, dsn string) (*DB, error) {
	db, err := sql.Open(driver, dsn)
	if err != nil {
		return nil, err
	}
	return &DB{real: db, cap: 0}, nil
}

// Real exposes the wrapped handle (harness use only).
func (d *DB) Real() *sql.DB { return d.real }

func (d *DB) acquire() {
	if !sched.Active() {
		return
	}
	sched.Point(sched.OpConn, d, func() bool { return d.cap <= 0 || d.busy < d.cap })
	d.busy++
}

func (d *DB) release() {
	if !sched.Active() {
		return
	}
	if d.busy > 0 {
		d.busy--
	}
}

func (d *DB) Close() error             { return d.real.Close() }
func (d *DB) SetMaxOpenConns(n int)    { d.cap = n; d.real.SetMaxOpenConns(n) }
func (d *DB) SetMaxIdleConns(n int)    { d.real.SetMaxIdleConns(n) }
func (d *DB) Stats() DBStats           { return d.real.Stats() }
func (d *DB) Ping() error              { return d.PingContext(context.Background()) }
func (d *DB) PingContext(ctx context.Context) error {
	d.acquire()
	defer d.release()
	return d.real.PingContext(ctx)
}

func (d *DB) ExecContext(ctx context.Context, q string, args ...any) (Result, error) {
	d.acquire()
	defer d.release()
	return d.real.ExecContext(ctx, q, args...)
}

func (d *DB) Exec(q string, args ...any) (Result, error) {
	return d.ExecContext(context.Background(), q, args...)
}

func (d *DB) QueryContext(ctx context.Context, q string, args ...any) (*Rows, error) {
	d.acquire()
	r, err := d.real.QueryContext(ctx, q, args...)
	if err != nil {
		d.release()
		return nil, err
	}
	return &Rows{real: r, db: d}, nil
}

func (d *DB) Query(q string, args ...any) (*Rows, error) {
	return d.QueryContext(context.Background(), q, args...)
}

func (d *DB) QueryRowContext(ctx context.Context, q string, args ...any) *Row {
	d.acquire()
	return &Row{real: d.real.QueryRowContext(ctx, q, args...), db: d}
}

func (d *DB) QueryRow(q string, args ...any) *Row {
	return d.QueryRowContext(context.Background(), q, args...)
}

func (d *DB) Conn(ctx context.Context) (*Conn, error) {
	d.acquire()
	c, err := d.real.Conn(ctx)
	if err != nil {
		d.release()
		return nil, err
	}
	return &Conn{real: c, db: d}, nil
}

type Conn struct {
	real   *sql.Conn
	db     *DB
	closed bool
}

func (c *Conn) Close() error {
	err := c.real.Close()
	if !c.closed {
		c.closed = true
		c.db.release()
	}
	return err
}

func (c *Conn) ExecContext(ctx context.Context, q string, args ...any) (Result, error) {
	return c.real.ExecContext(ctx, q, args...)
}

func (c *Conn) QueryContext(ctx context.Context, q string, args ...any) (*Rows, error) {
	r, err := c.real.QueryContext(ctx, q, args...)
	if err != nil {
		return nil, err
	}
	return &Rows{real: r}, nil
}

func (c *Conn) QueryRowContext(ctx context.Context, q string, args ...any) *Row {
	return &Row{real: c.real.QueryRowContext(ctx, q, args...)}
}

func (c *Conn) PingContext(ctx context.Context) error { return c.real.PingContext(ctx) }
func (c *Conn) Raw(f func(driverConn any) error) error { return c.real.Raw(f) }

type Rows struct {
	real     *sql.Rows
	db       *DB // non-nil when the rows own the pooled connection
	released bool
}

func (r *Rows) rel() {
	if r.db != nil && !r.released {
		r.released = true
		r.db.release()
	}
}

func (r *Rows) Next() bool {
	ok := r.real.Next()
	if !ok {
		r.rel() // database/sql closes exhausted rows and frees the connection
	}
	return ok
}
func (r *Rows) Scan(dest ...any) error { return r.real.Scan(dest...) }
func (r *Rows) Err() error             { return r.real.Err() }
func (r *Rows) Columns() ([]string, error) { return r.real.Columns() }
func (r *Rows) Close() error {
	err := r.real.Close()
	r.rel()
	return err
}

type Row struct {
	real *sql.Row
	db   *DB
	done bool
}

func (r *Row) Scan(dest ...any) error {
	err := r.real.Scan(dest...)
	if r.db != nil && !r.done {
		r.done = true
		r.db.release()
	}
	return err
}

func (r *Row) Err() error { return r.real.Err() }
