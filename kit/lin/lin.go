// Package lin decides linearizability of one concurrent execution by brute
// force: it searches for a total order of the recorded operations that respects
// real-time precedence (A before B when A returned before B was called) and
// that the sequential reference model (qmodel, relational) accepts step by step.
// Executions have at most a handful of operations, so plain DFS with
// memoisation on the set of linearised operations suffices.
package lin

import (
	"fmt"
	"sort"
	"strings"

	"github.com/nuetzliches/hookaido/internal/verifkit/qmodel"
)

type Event struct {
	Thread string
	Op     qmodel.Op
	Obs    *qmodel.Obs
	Call   int // position of the call in the global event log
	Ret    int // position of the return
}

// Check returns "" when the history is linearizable w.r.t. the model starting from init.
// Clock changes must be recorded as "tick" operations (instantaneous: Call == Ret order position).
func Check(init *qmodel.Model, evs []Event) string {
	n := len(evs)
	if n > 20 {
		return "lin: too many operations"
	}
	dead := map[string]bool{}
	var lastWhy string
	var rec func(done uint32, m *qmodel.Model) bool
	rec = func(done uint32, m *qmodel.Model) bool {
		if done == (uint32(1)<<n)-1 {
			return true
		}
		key := fmt.Sprintf("%d|%s", done, fingerprint(m))
		if dead[key] {
			return false
		}
		for i := 0; i < n; i++ {
			if done&(1<<i) != 0 {
				continue
			}
			// i is minimal: no other pending op returned before i was called
			ok := true
			for j := 0; j < n; j++ {
				if j != i && done&(1<<j) == 0 && evs[j].Ret < evs[i].Call {
					ok = false
					break
				}
			}
			if !ok {
				continue
			}
			// a dequeue may or may not have swept a lease that expired within the backend's sweep granularity; without a
			// listing the model cannot see which, so both readings are tried
			variants := []bool{false}
			if evs[i].Op.Kind == "deq" && m.Cfg.SweepGranularity > 0 {
				variants = []bool{false, true}
			}
			for _, v := range variants {
				c := m.Clone()
				c.Edges = map[string]int{}
				c.AssumeSwept = v
				why := c.Apply(evs[i].Op, evs[i].Obs, nil)
				c.AssumeSwept = false
				if why != "" {
					lastWhy = fmt.Sprintf("%s %s: %s", evs[i].Thread, evs[i].Op, why)
					continue
				}
				if rec(done|1<<i, c) {
					return true
				}
			}
		}
		dead[key] = true
		return false
	}
	m := init.Clone()
	m.Edges = map[string]int{}
	if rec(0, m) {
		return ""
	}
	var b strings.Builder
	for _, e := range evs {
		fmt.Fprintf(&b, "\n  [%d,%d] %s %s -> %s", e.Call, e.Ret, e.Thread, e.Op, obsText(e.Obs))
	}
	return "no linearization of the recorded history is allowed by the contract (last rejection: " + lastWhy + ")" + b.String()
}

func obsText(o *qmodel.Obs) string {
	if o == nil {
		return "-"
	}
	var items []string
	for _, it := range o.Items {
		items = append(items, fmt.Sprintf("%s/%s/att%d", it.ID, it.Lease, it.Attempt))
	}
	return fmt.Sprintf("%s n=%d items=%v conflicts=%v", o.Err, o.N, items, o.Conflicts)
}

func fingerprint(m *qmodel.Model) string {
	var b strings.Builder
	fmt.Fprintf(&b, "%d;", m.Now)
	for _, it := range m.Sorted() {
		fmt.Fprintf(&b, "%s,%s,%d,%d,%s,%d;", it.ID, it.State, it.Attempt, it.NextRunAt, it.Lease, it.LeaseUntil)
	}
	bases := make([]string, 0, len(m.IssuedBase))
	for k, v := range m.IssuedBase {
		bases = append(bases, fmt.Sprintf("%s=%d", k, v))
	}
	sort.Strings(bases)
	b.WriteString(strings.Join(bases, ","))
	return b.String()
}
