package sched

import (
	"fmt"
	"os"
	"runtime"
	"sort"
	"strings"
	"testing"
	"testing/synctest"
	"time"
)

// Options of one exploration.
type Options struct {
	Name        string
	Bound       int // preemption bound; <0 = unbounded
	Shard       int // this process explores leaves with index % Shards == Shard (split at recursion depth SplitDepth)
	Shards      int
	SplitDepth  int
	MaxExecs    int           // safety cap (0 = none); hitting it makes the result non-exhaustive
	Deadline    time.Time     // wall-clock budget checked between executions (zero = none)
	Sleep       bool          // unbounded exploration with sleep sets (partial-order reduction); requires Bound < 0
	Replay      []int         // when set: run exactly this schedule (twice) and return
	Once        bool          // with Replay: run it once only (crash children die inside the run)
	OnExecution func(x *Exec) // oracle, runs after the bubble finished (x.Log, x.Trace available)
}

// Result of one exploration.
type Result struct {
	Name       string
	Bound      int
	Executions int
	Points     int // total choice points executed
	MaxPoints  int
	Outcomes   map[string]int // distinct harness observation logs
	Exhaustive bool
	SleepCut   int // sleep-set mode: executions cut because every enabled transition was asleep (redundant)
	Failure    *Failure
	InfraErr   error
}

// Failure is a property violation found in one execution.
type Failure struct {
	Schedule []int
	Trace    string
	Log      []string
	Message  string
}

// Fail is called by the oracle (OnExecution) to report a violation.
type failPanic struct{ msg string }

func Failf(format string, a ...any) { panic(failPanic{fmt.Sprintf(format, a...)}) }

type explorer struct {
	t     *testing.T
	opt   Options
	body  func(x *Exec)
	res   *Result
	leafN int
	stop  bool
	sleepInit []int // sleep set installed after the prefix of the next run (sleep-set mode)
}

// Explore enumerates every schedule of body within the preemption bound.
// body builds the system, starts harness threads with x.Go, calls x.Run and
// x.Finish, and records observations with x.Logf.
func Explore(t *testing.T, opt Options, body func(x *Exec)) *Result {
	if runtime.GOMAXPROCS(0) != 1 {
		runtime.GOMAXPROCS(1)
	}
	if opt.Shards <= 0 {
		opt.Shards = 1
	}
	if opt.SplitDepth <= 0 {
		opt.SplitDepth = 2
	}
	e := &explorer{t: t, opt: opt, body: body,
		res: &Result{Name: opt.Name, Bound: opt.Bound, Outcomes: map[string]int{}, Exhaustive: true}}
	if opt.Replay != nil {
		x1 := e.run(opt.Replay, nil)
		if e.res.InfraErr != nil || opt.Once {
			return e.res
		}
		x2 := e.run(opt.Replay, nil)
		if e.res.InfraErr == nil && strings.Join(x1.Log, "\n") != strings.Join(x2.Log, "\n") {
			e.res.InfraErr = fmt.Errorf("replay not deterministic")
		}
		return e.res
	}
	// determinism obligation (i): the default schedule twice, identical observations
	a := e.runRaw(nil, nil)
	b := e.runRaw(nil, nil)
	if a.Err != nil {
		e.res.InfraErr = a.Err
		return e.res
	}
	if strings.Join(a.Log, "\n") != strings.Join(b.Log, "\n") || a.TraceString() != b.TraceString() {
		e.res.InfraErr = fmt.Errorf("sched: default schedule not deterministic:\n%s\n%v\n---\n%s\n%v",
			a.TraceString(), a.Log, b.TraceString(), b.Log)
		return e.res
	}
	if opt.Sleep {
		if opt.Bound >= 0 {
			e.res.InfraErr = fmt.Errorf("sched: sleep sets need an unbounded exploration")
			return e.res
		}
		e.exploreSleep(nil, nil, nil, 0)
		return e.res
	}
	e.explore(nil, nil, 0)
	return e.res
}

func (e *explorer) runRaw(prefix []int, expect [][]int) *Exec {
	var x *Exec
	synctest.Test(e.t, func(t *testing.T) {
		x = newExec(prefix, expect)
		if e.opt.Sleep && e.opt.Replay == nil {
			x.sleepMode = true
			x.sleepInit = e.sleepInit
		}
		x.ctrlGoid = goid()
		cur = x
		active.Store(true)
		defer func() {
			active.Store(false)
			cur = nil
		}()
		e.body(x)
	})
	return x
}

func (e *explorer) run(prefix []int, expect [][]int) *Exec {
	x := e.runRaw(prefix, expect)
	e.res.Executions++
	e.res.Points += len(x.Trace)
	if len(x.Trace) > e.res.MaxPoints {
		e.res.MaxPoints = len(x.Trace)
	}
	if x.Err != nil {
		e.res.InfraErr = fmt.Errorf("%v (schedule %v, trace %s)", x.Err, prefix, x.TraceString())
		e.stop = true
		return x
	}
	if x.SleepBlocked {
		e.res.SleepCut++
		return x
	}
	e.res.Outcomes[strings.Join(x.Log, " | ")]++
	if e.opt.OnExecution != nil && e.res.Failure == nil {
		func() {
			defer func() {
				if r := recover(); r != nil {
					fp, ok := r.(failPanic)
					if !ok {
						panic(r)
					}
					sch := make([]int, len(x.Trace))
					for i, p := range x.Trace {
						sch[i] = p.Chosen
					}
					e.res.Failure = &Failure{Schedule: sch, Trace: x.TraceString(), Log: x.Log, Message: fp.msg}
					e.stop = true
				}
			}()
			if x.Deadlock {
				Failf("deadlock or horizon reached: some harness thread never finished")
			}
			e.opt.OnExecution(x)
		}()
	}
	return x
}

func (e *explorer) explore(prefix []int, expect [][]int, depth int) {
	if e.stop {
		return
	}
	if e.opt.MaxExecs > 0 && e.res.Executions >= e.opt.MaxExecs {
		e.res.Exhaustive = false
		e.stop = true
		return
	}
	if !e.opt.Deadline.IsZero() && time.Now().After(e.opt.Deadline) {
		e.res.Exhaustive = false
		e.stop = true
		return
	}
	// sharding: subtrees rooted at recursion depth SplitDepth are dealt round-robin
	if depth == e.opt.SplitDepth && e.opt.Shards > 1 {
		idx := e.leafN
		e.leafN++
		if idx%e.opt.Shards != e.opt.Shard {
			return
		}
	}
	x := e.run(prefix, expect)
	if e.stop {
		return
	}
	if depth < e.opt.SplitDepth && e.opt.Shards > 1 && e.opt.Shard != 0 {
		// replicated inner node: counted by shard 0 only
		e.res.Executions--
		e.res.Points -= len(x.Trace)
		k := strings.Join(x.Log, " | ")
		if e.res.Outcomes[k]--; e.res.Outcomes[k] == 0 {
			delete(e.res.Outcomes, k)
		}
	}
	trace := x.Trace
	cost := 0
	costs := make([]int, len(trace))
	for i, p := range trace {
		costs[i] = cost
		if p.RunningEnabled && p.Chosen != 0 {
			cost++
		}
	}
	exp := make([][]int, len(trace))
	for i := range trace {
		exp[i] = trace[i].Enabled
	}
	for i := len(prefix); i < len(trace); i++ {
		p := trace[i]
		for alt := 1; alt < len(p.Enabled); alt++ {
			c := costs[i]
			if p.RunningEnabled {
				c++
			}
			if e.opt.Bound >= 0 && c > e.opt.Bound {
				continue
			}
			np := make([]int, i+1)
			for j := 0; j < i; j++ {
				np[j] = trace[j].Chosen
			}
			np[i] = alt
			e.explore(np, exp[:i+1], depth+1)
			if e.stop {
				return
			}
		}
	}
}

// exploreSleep is the unbounded exploration with sleep sets (Godefroid): at a node, a transition that was already
// explored from an ancestor-or-sibling position and is independent of everything taken since is "asleep" and is not
// taken again; an execution in which every enabled transition is asleep is redundant and cut. Independence is
// footprint-disjointness (see Acc). Every Mazurkiewicz trace still has a representative execution, so the set of
// reachable final states - hence of observation logs decided by the order of dependent steps - is preserved.
func (e *explorer) exploreSleep(prefix []int, expect [][]int, sleepInit []int, depth int) {
	if e.stop {
		return
	}
	if e.opt.MaxExecs > 0 && e.res.Executions >= e.opt.MaxExecs {
		e.res.Exhaustive = false
		e.stop = true
		return
	}
	if !e.opt.Deadline.IsZero() && time.Now().After(e.opt.Deadline) {
		e.res.Exhaustive = false
		e.stop = true
		return
	}
	if depth == e.opt.SplitDepth && e.opt.Shards > 1 {
		idx := e.leafN
		e.leafN++
		if idx%e.opt.Shards != e.opt.Shard {
			return
		}
	}
	e.sleepInit = sleepInit
	x := e.run(prefix, expect)
	if e.stop {
		return
	}
	if depth < e.opt.SplitDepth && e.opt.Shards > 1 && e.opt.Shard != 0 {
		e.res.Executions--
		e.res.Points -= len(x.Trace)
		if x.SleepBlocked {
			e.res.SleepCut--
		} else {
			k := strings.Join(x.Log, " | ")
			if e.res.Outcomes[k]--; e.res.Outcomes[k] == 0 {
				delete(e.res.Outcomes, k)
			}
		}
	}
	trace := x.Trace
	exp := make([][]int, len(trace))
	for i := range trace {
		exp[i] = trace[i].Enabled
	}
	for i := len(prefix); i < len(trace); i++ {
		p := trace[i]
		done := map[int]bool{}
		for _, id := range p.Sleep {
			done[id] = true
		}
		done[p.Enabled[p.Chosen]] = true
		for alt := 0; alt < len(p.Enabled); alt++ {
			id := p.Enabled[alt]
			if done[id] {
				continue
			}
			var child []int
			for s := range done {
				if fs, ok := p.Foot[s]; ok && Independent(fs, p.Foot[id]) {
					child = append(child, s)
				}
			}
			sort.Ints(child)
			np := make([]int, i+1)
			for j := 0; j < i; j++ {
				np[j] = trace[j].Chosen
			}
			np[i] = alt
			e.exploreSleep(np, exp[:i+1], child, depth+1)
			if e.stop {
				return
			}
			done[id] = true
		}
	}
}

// ShardFromEnv reads VERIF_SHARD="i/n".
func ShardFromEnv() (int, int) {
	s := os.Getenv("VERIF_SHARD")
	var i, n int
	if _, err := fmt.Sscanf(s, "%d/%d", &i, &n); err != nil || n <= 0 {
		return 0, 1
	}
	return i, n
}

// OutcomeList returns the distinct outcomes sorted.
func (r *Result) OutcomeList() []string {
	out := make([]string, 0, len(r.Outcomes))
	for k := range r.Outcomes {
		out = append(out, k)
	}
	sort.Strings(out)
	return out
}
