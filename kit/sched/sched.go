// Package sched is a cooperative, deterministic scheduler for real goroutines
// running inside a testing/synctest bubble. Shimmed synchronisation
// operations (vsync, vatomic, vsql) call Point before they take effect; the
// controller resumes exactly one parked thread at a time, so an execution is
// fully described by the sequence of choices taken at the points, and the
// explorer (explore.go) enumerates those sequences.
package sched

import (
	"fmt"
	"runtime"
	"sort"
	"strings"
	"sync"
	"sync/atomic"
	"testing/synctest"
	"time"
)

type OpKind uint8

const (
	OpStart OpKind = iota
	OpLock
	OpRLock
	OpAtomic
	OpWait
	OpOnce
	OpConn
	OpAdvance
	OpCustom
)

var kindNames = [...]string{"start", "lock", "rlock", "atomic", "wgwait", "once", "conn", "advance", "custom"}

func (k OpKind) String() string { return kindNames[k] }

type pendingOp struct {
	kind    OpKind
	obj     any
	enabled func() bool
	advance time.Duration
	write   bool
}

type thread struct {
	id      int
	name    string
	goid    uint64
	resume  chan struct{}
	pending *pendingOp
	done    bool
	auto    bool
}

// PointRec is what the explorer needs to know about one choice point.
type PointRec struct {
	Enabled        []int // thread ids in canonical order
	Chosen         int   // index into Enabled
	RunningEnabled bool  // the previously running thread is Enabled[0]
	Op             string
	// sleep-set mode only:
	Sleep []int          // thread ids asleep before the choice
	Foot  map[int][]Acc  // footprint of every enabled thread's pending transition
}

// Acc is one access of a transition's footprint: the object of the pending operation plus every lock-like object the
// thread holds while it performs the step (under data-race freedom everything a step touches is guarded by those).
type Acc struct {
	Obj   string
	Write bool
}

// Independent reports whether two footprints commute: no common object with a write on either side.
func Independent(a, b []Acc) bool {
	for _, x := range a {
		for _, y := range b {
			if x.Obj == y.Obj && (x.Write || y.Write) {
				return false
			}
		}
	}
	return true
}

// Exec is one execution.
type Exec struct {
	mu       sync.Mutex
	threads  []*thread
	byGoid   map[uint64]*thread
	ctrlGoid uint64
	prefix   []int
	expect   [][]int // expected enabled lists while replaying the prefix (may be nil)
	Trace    []PointRec
	running  int
	aborting bool
	wake     chan struct{}
	silent   map[any]bool
	objNames map[any]string
	nextObj  int
	Horizon  time.Duration
	start    time.Time
	Log      []string // harness observations (deterministic part of the execution)
	Err      error    // infrastructure error (divergence, deadlock)
	Deadlock bool
	maxSteps int
	// sleep-set mode
	sleepMode    bool
	sleepInit    []int
	sleep        map[int]bool
	held         map[int]map[any]bool // thread id -> object -> held for writing
	SleepBlocked bool                 // every enabled transition was asleep: the execution is redundant and was cut
}

var (
	active atomic.Bool
	cur    *Exec
)

// Active reports whether an exploration is in progress; shims fall through to
// the real primitive when it is not.
func Active() bool { return active.Load() }

func goid() uint64 {
	var buf [64]byte
	n := runtime.Stack(buf[:], false)
	// "goroutine 123 [running]:"
	s := buf[:n]
	var id uint64
	for i := len("goroutine "); i < len(s); i++ {
		c := s[i]
		if c < '0' || c > '9' {
			break
		}
		id = id*10 + uint64(c-'0')
	}
	return id
}

func newExec(prefix []int, expect [][]int) *Exec {
	return &Exec{
		byGoid:   map[uint64]*thread{},
		prefix:   prefix,
		expect:   expect,
		running:  -1,
		wake:     make(chan struct{}, 1),
		silent:   map[any]bool{},
		objNames: map[any]string{},
		Horizon:  24 * time.Hour,
		maxSteps: 100000,
		held:     map[int]map[any]bool{},
	}
}

// Silence declares a synchronisation object that cannot influence the property
// (e.g. a metrics mutex): operations on it are not choice points.
func (x *Exec) Silence(obj any) { x.silent[obj] = true }

// Logf appends a deterministic observation.
func (x *Exec) Logf(format string, a ...any) {
	x.mu.Lock()
	x.Log = append(x.Log, fmt.Sprintf(format, a...))
	x.mu.Unlock()
}

// Go starts a harness thread. Its start is a choice point.
func (x *Exec) Go(name string, fn func()) {
	t := &thread{id: len(x.threads), name: name, resume: make(chan struct{})}
	x.mu.Lock()
	x.threads = append(x.threads, t)
	x.mu.Unlock()
	go func() {
		g := goid()
		x.mu.Lock()
		t.goid = g
		x.byGoid[g] = t
		x.mu.Unlock()
		defer func() {
			x.mu.Lock()
			t.done = true
			t.pending = nil
			x.mu.Unlock()
			x.signal()
		}()
		Point(OpStart, t, nil)
		fn()
	}()
}

func (x *Exec) signal() {
	select {
	case x.wake <- struct{}{}:
	default:
	}
}

// Point parks the calling goroutine until the controller chooses it.
// enabled (may be nil = always) is evaluated by the controller while every
// thread is parked.
func Point(kind OpKind, obj any, enabled func() bool) {
	point(&pendingOp{kind: kind, obj: obj, enabled: enabled, write: true})
}

// PointR is Point for an operation that only reads obj (independent of other reads).
func PointR(kind OpKind, obj any, enabled func() bool) {
	point(&pendingOp{kind: kind, obj: obj, enabled: enabled})
}

func point(op *pendingOp) {
	x := cur
	if x == nil || !active.Load() {
		return
	}
	g := goid()
	if g == x.ctrlGoid {
		if op.enabled != nil && !op.enabled() {
			panic("sched: controller goroutine would block on " + op.kind.String())
		}
		return
	}
	if x.silent[op.obj] {
		if op.enabled != nil && !op.enabled() {
			panic("sched: contended silent object")
		}
		return
	}
	x.mu.Lock()
	if x.aborting {
		x.mu.Unlock()
		runtime.Goexit()
	}
	t := x.byGoid[g]
	if t == nil {
		t = &thread{id: len(x.threads), name: "auto", goid: g, resume: make(chan struct{}), auto: true}
		x.threads = append(x.threads, t)
		x.byGoid[g] = t
	}
	t.pending = op
	x.mu.Unlock()
	x.signal()
	<-t.resume
	if x.aborting {
		runtime.Goexit()
	}
}

// Acquired / Released are called by the lock-like shims (mutex, rwmutex, pooled connection) after the operation took
// effect, so that the explorer knows what a thread holds while it performs a step.
func Acquired(obj any, write bool) {
	x := cur
	if x == nil || !active.Load() {
		return
	}
	g := goid()
	x.mu.Lock()
	if t := x.byGoid[g]; t != nil {
		if x.held[t.id] == nil {
			x.held[t.id] = map[any]bool{}
		}
		x.held[t.id][obj] = write
	}
	x.mu.Unlock()
}

func Released(obj any) {
	x := cur
	if x == nil || !active.Load() {
		return
	}
	g := goid()
	x.mu.Lock()
	if t := x.byGoid[g]; t != nil {
		delete(x.held[t.id], obj)
	} else {
		// released by another goroutine than the acquirer (legal for mutexes): drop it wherever it is held
		for _, h := range x.held {
			delete(h, obj)
		}
	}
	x.mu.Unlock()
}

func (x *Exec) footprint(t *thread) []Acc {
	op := t.pending
	var out []Acc
	if op.kind == OpAdvance {
		return []Acc{{Obj: "*", Write: true}}
	}
	out = append(out, Acc{Obj: x.objName(op), Write: op.write}, Acc{Obj: "*", Write: false})
	for o, w := range x.held[t.id] {
		out = append(out, Acc{Obj: x.objName(&pendingOp{obj: o}), Write: w})
	}
	return out
}

// CurrentThread returns the id of the harness thread the calling goroutine is (-1: none, or no exploration).
func CurrentThread() int {
	x := cur
	if x == nil || !active.Load() {
		return -1
	}
	g := goid()
	x.mu.Lock()
	defer x.mu.Unlock()
	if t := x.byGoid[g]; t != nil {
		return t.id
	}
	return -1
}

// Advance is called by a harness thread: the virtual clock moves forward by d
// as one atomic scheduler action (timers that become due fire and their
// goroutines run to their next point).
func (x *Exec) Advance(d time.Duration) {
	point(&pendingOp{kind: OpAdvance, obj: "clock", advance: d, write: true})
}

// AdvanceWhen is Advance that is only enabled while cond() holds (e.g. "no operation in flight").
func (x *Exec) AdvanceWhen(d time.Duration, cond func() bool) {
	point(&pendingOp{kind: OpAdvance, obj: "clock", advance: d, write: true, enabled: cond})
}

// Yield is an always-enabled custom choice point for harness threads.
func (x *Exec) Yield(label string) { Point(OpCustom, label, nil) }

func (x *Exec) objName(op *pendingOp) string {
	if s, ok := op.obj.(string); ok {
		return s
	}
	if t, ok := op.obj.(*thread); ok {
		return "t" + fmt.Sprint(t.id)
	}
	n, ok := x.objNames[op.obj]
	if !ok {
		n = fmt.Sprintf("o%d", x.nextObj)
		x.nextObj++
		x.objNames[op.obj] = n
	}
	return n
}

// Run is the controller loop: it returns when every harness thread has
// finished and no parked thread is enabled, or on deadlock / horizon.
func (x *Exec) Run() {
	x.start = time.Now()
	for steps := 0; ; steps++ {
		synctest.Wait()
		if steps > x.maxSteps {
			x.Err = fmt.Errorf("sched: more than %d steps", x.maxSteps)
			return
		}
		x.mu.Lock()
		var en []*thread
		allDone := true
		for _, t := range x.threads {
			if !t.auto && !t.done {
				allDone = false
			}
			if t.pending != nil && (t.pending.enabled == nil || t.pending.enabled()) {
				en = append(en, t)
			}
		}
		x.mu.Unlock()
		if len(en) == 0 {
			if allDone {
				return
			}
			// nothing can run: let virtual time pass until a thread parks or the horizon is reached
			if time.Since(x.start) >= x.Horizon {
				x.Deadlock = true
				return
			}
			select {
			case <-x.wake:
			default:
			}
			rem := x.Horizon - time.Since(x.start)
			tm := time.NewTimer(rem)
			select {
			case <-x.wake:
				tm.Stop()
			case <-tm.C:
			}
			continue
		}
		sort.Slice(en, func(i, j int) bool { return en[i].id < en[j].id })
		runningEnabled := false
		for i, t := range en {
			if t.id == x.running {
				copy(en[1:i+1], en[:i])
				en[0] = t
				runningEnabled = true
				break
			}
		}
		ids := make([]int, len(en))
		for i, t := range en {
			ids[i] = t.id
		}
		step := len(x.Trace)
		choice := 0
		var sleepNow []int
		var foot map[int][]Acc
		if x.sleepMode {
			if step == len(x.prefix) {
				x.sleep = map[int]bool{}
				for _, id := range x.sleepInit {
					x.sleep[id] = true
				}
			}
			foot = map[int][]Acc{}
			x.mu.Lock()
			for _, t := range en {
				foot[t.id] = x.footprint(t)
			}
			x.mu.Unlock()
			if step >= len(x.prefix) {
				for id := range x.sleep {
					sleepNow = append(sleepNow, id)
				}
				sort.Ints(sleepNow)
				choice = -1
				for i, t := range en {
					if !x.sleep[t.id] {
						choice = i
						break
					}
				}
				if choice < 0 {
					x.SleepBlocked = true
					return
				}
			}
		}
		if step < len(x.prefix) {
			choice = x.prefix[step]
			if choice >= len(en) {
				x.Err = fmt.Errorf("sched: replay divergence at step %d: choice %d of %d enabled", step, choice, len(en))
				return
			}
			if x.expect != nil && step < len(x.expect) && !equalInts(x.expect[step], ids) {
				x.Err = fmt.Errorf("sched: replay divergence at step %d: enabled %v, recorded %v", step, ids, x.expect[step])
				return
			}
		}
		t := en[choice]
		op := t.pending
		x.Trace = append(x.Trace, PointRec{Enabled: ids, Chosen: choice, RunningEnabled: runningEnabled,
			Op: fmt.Sprintf("t%d:%s:%s", t.id, op.kind, x.objName(op)), Sleep: sleepNow, Foot: foot})
		if x.sleepMode && step >= len(x.prefix) {
			// transitions that stay asleep: those independent of the one taken
			for id := range x.sleep {
				if id == t.id || foot[id] == nil || !Independent(foot[id], foot[t.id]) {
					delete(x.sleep, id)
				}
			}
		}
		x.running = t.id
		x.mu.Lock()
		t.pending = nil
		x.mu.Unlock()
		if op.kind == OpAdvance && op.advance > 0 {
			time.Sleep(op.advance)
		}
		t.resume <- struct{}{}
	}
}

// Finish releases every goroutine that is still parked at a point (it exits
// through runtime.Goexit, running its deferred calls). Call it before the
// bubble function returns.
func (x *Exec) Finish() {
	synctest.Wait()
	x.mu.Lock()
	x.aborting = true
	var parked []*thread
	for _, t := range x.threads {
		if t.pending != nil {
			parked = append(parked, t)
			t.pending = nil
		}
	}
	x.mu.Unlock()
	for _, t := range parked {
		t.resume <- struct{}{}
	}
	synctest.Wait()
}

// TraceString renders the executed schedule.
func (x *Exec) TraceString() string {
	var b strings.Builder
	for i, p := range x.Trace {
		if i > 0 {
			b.WriteByte(' ')
		}
		b.WriteString(p.Op)
	}
	return b.String()
}

func equalInts(a, b []int) bool {
	if len(a) != len(b) {
		return false
	}
	for i := range a {
		if a[i] != b[i] {
			return false
		}
	}
	return true
}
