// Package verifcrashlibc installs verifcrash.Syscall into the patched copy of
// modernc.org/libc (only builds with -modfile that replaces modernc.org/libc
// by /verif/.cache/libc; see bin/setup-libc).
package verifcrashlibc

import (
	"modernc.org/libc"

	"github.com/nuetzliches/hookaido/internal/verifkit/verifcrash"
)

func Install() { libc.VerifSyscallHook = verifcrash.Syscall }
