// Package qmodel is the boring reference model of the queue contract: a map
// from message id to a record, a clock, and for every Store operation the set
// of results the property statements allow together with the successor
// contents. It is relational exactly where the statements leave a choice
// (which ready messages a dequeue picks, which of several equally old messages
// drop_oldest evicts, when an eligible retention prune runs, whether an
// expired lease inside the sweep granularity has been released yet) and then
// follows the implementation's choice after validating it.
package qmodel

import (
	"bytes"
	"fmt"
	"sort"
	"strings"
	"time"
)

const (
	Queued    = "queued"
	Leased    = "leased"
	Delivered = "delivered"
	Dead      = "dead"
	Canceled  = "canceled"
)

// error classes
const (
	OK       = "ok"
	Full     = "full"
	Exists   = "exists"
	NotFound = "notfound"
	Expired  = "expired"
	Other    = "other"
	// Conflict is what a transport that does not distinguish the two lease errors reports (HTTP 409,
	// gRPC FailedPrecondition); the model accepts it wherever it expects NotFound or Expired.
	ConflictErr = "conflict"
)

func isErr(got, want string) bool {
	return got == want || (got == ConflictErr && (want == NotFound || want == Expired))
}

type Config struct {
	MaxDepth        int
	DropOldest      bool
	RetentionMaxAge time.Duration
	PruneInterval   time.Duration
	DeliveredMaxAge time.Duration
	DLQMaxAge       time.Duration
	DLQMaxDepth     int
	// SweepGranularity: an expired lease is certainly released by a dequeue
	// that runs at least this long after the expiry; earlier it may or may not be.
	SweepGranularity time.Duration
	// Strict selects the reference (transactional) admission order; when false
	// (per-backend checks of C02/C12) every justified, side-effect-free refusal is accepted too.
	Strict bool
	// DeliveredCountsAgainstDepth tolerates the documented memory-backend rule that delivered
	// rows count against max_depth while delivered retention is on (refusals only).
	DeliveredCountsAgainstDepth bool
}

type Msg struct {
	ID, Route, Target string
	State             string
	ReceivedAt        int64
	NextRunAt         int64
	Attempt           int
	Payload           []byte
	Headers, Trace    map[string]string
	DeadReason        string
	SchemaVersion     int
	Lease             string // symbolic handle "<id>#<attempt>", "" when not leased
	LeaseUntil        int64
}

func (m *Msg) clone() *Msg {
	c := *m
	return &c
}

type Model struct {
	Cfg   Config
	Now   int64
	Items map[string]*Msg
	// every lease handle ever issued
	Issued map[string]bool
	// IssuedBase counts grants per "<id>#<attempt>" (a re-enqueued id starts a new incarnation with attempt 1 again)
	IssuedBase map[string]int
	// observed (from-state, op, to-state) edges, for the explicit edge monitor
	Edges map[string]int
	// PostHasLeases: listings passed to Apply carry the lease handle and lease_until (private snapshot)
	PostHasLeases bool
	// AssumeSwept: how a dequeue applied WITHOUT a listing resolves "a lease that expired less than the sweep
	// granularity ago and was not returned": swept (true) or left (false). The linearizability search tries both.
	AssumeSwept bool
	// Churned: the history contains a churn operation already (the alphabet offers it once per history)
	Churned bool
}

func New(cfg Config, now int64) *Model {
	return &Model{Cfg: cfg, Now: now, Items: map[string]*Msg{}, Issued: map[string]bool{}, IssuedBase: map[string]int{}, Edges: map[string]int{}}
}

func (m *Model) Clone() *Model {
	c := &Model{Cfg: m.Cfg, Now: m.Now, Items: make(map[string]*Msg, len(m.Items)), Issued: make(map[string]bool, len(m.Issued)), IssuedBase: make(map[string]int, len(m.IssuedBase)), Edges: m.Edges, PostHasLeases: m.PostHasLeases, Churned: m.Churned}
	for k, v := range m.Items {
		c.Items[k] = v.clone()
	}
	for k := range m.Issued {
		c.Issued[k] = true
	}
	for k, v := range m.IssuedBase {
		c.IssuedBase[k] = v
	}
	return c
}

// ---- operations --------------------------------------------------------------

type EnvSpec struct {
	ID, Route, Target string
	ReceivedAt        int64 // 0 = now
	NextRunAt         int64 // 0 = received_at
	Payload           []byte
	Headers, Trace    map[string]string
}

type Filter struct {
	Route, Target, State string
	Limit                int
	Before               int64
	Preview              bool
}

type ListSpec struct {
	Route, Target, State, Order string
	Limit                      int
	Before                     int64
}

type Op struct {
	Kind   string
	Envs   []EnvSpec
	Route  string
	Target string
	Batch  int
	TTL    time.Duration
	Lease  string
	Leases []string
	Delay  time.Duration
	Reason string
	IDs    []string
	Filter Filter
	List   ListSpec
	Dur    time.Duration
}

func (o Op) String() string {
	var b strings.Builder
	b.WriteString(o.Kind)
	switch o.Kind {
	case "enq", "enqb":
		b.WriteString("[")
		for i, e := range o.Envs {
			if i > 0 {
				b.WriteString(",")
			}
			fmt.Fprintf(&b, "%s:%s:%s", e.ID, e.Route, e.Target)
			if e.ReceivedAt != 0 {
				fmt.Fprintf(&b, "@r%d", e.ReceivedAt)
			}
			if e.NextRunAt != 0 {
				fmt.Fprintf(&b, "@n%d", e.NextRunAt)
			}
		}
		b.WriteString("]")
	case "deq":
		fmt.Fprintf(&b, "(%s,%s,b%d,ttl%s)", o.Route, o.Target, o.Batch, o.TTL)
	case "ack", "nack", "ext", "dead":
		fmt.Fprintf(&b, "(%q,%s,%s)", o.Lease, o.Delay, o.Reason)
	case "ackb", "nackb", "deadb":
		fmt.Fprintf(&b, "(%q,%s,%s)", o.Leases, o.Delay, o.Reason)
	case "cancel", "requeue", "resume", "rqdead", "deldead", "lookup":
		fmt.Fprintf(&b, "(%q)", o.IDs)
	case "cancelf", "requeuef", "resumef":
		fmt.Fprintf(&b, "(%+v)", o.Filter)
	case "list", "listdead":
		fmt.Fprintf(&b, "(%+v)", o.List)
	case "churn":
		fmt.Fprintf(&b, "(%d messages through another route)", o.Batch)
	case "tick":
		fmt.Fprintf(&b, "(%s)", o.Dur)
	}
	return b.String()
}

// Conflict is one entry of a batch lease result, in handle terms.
type Conflict struct {
	Lease   string
	Expired bool
}

// Item is one returned envelope, in handle terms.
type Item struct {
	Msg
}

// Obs is what the implementation answered.
type Obs struct {
	Err       string // error class
	ErrText   string
	N         int // count result (enqueue batch n, canceled, requeued, …)
	Matched   int
	Preview   bool
	Items     []Msg // dequeue / list results (Lease = handle for dequeue)
	Conflicts []Conflict
	Stats     *StatsObs
}

type StatsObs struct {
	Total                  int
	ByState                map[string]int
	OldestQueuedReceivedAt int64
	EarliestQueuedNextRun  int64
	OldestQueuedAge        time.Duration
	ReadyLag               time.Duration
	Top                    []Bucket
}

type Bucket struct {
	Route, Target string
	Queued        int
	Oldest        int64
	Earliest      int64
	OldestAge     time.Duration
	ReadyLag      time.Duration
}

func (m *Model) active() (n, queued, delivered int) {
	for _, it := range m.Items {
		switch it.State {
		case Queued:
			n++
			queued++
		case Leased:
			n++
		case Delivered:
			delivered++
		}
	}
	return
}

func (m *Model) edge(from, op, to string) {
	m.Edges[from+" -"+op+"-> "+to]++
}

// Sorted returns the contents ordered by received_at then id (the canonical listing).
func (m *Model) Sorted() []*Msg {
	out := make([]*Msg, 0, len(m.Items))
	for _, it := range m.Items {
		out = append(out, it)
	}
	sort.Slice(out, func(i, j int) bool {
		if out[i].ReceivedAt != out[j].ReceivedAt {
			return out[i].ReceivedAt < out[j].ReceivedAt
		}
		return out[i].ID < out[j].ID
	})
	return out
}

func eqMap(a, b map[string]string) bool {
	if len(a) != len(b) {
		return false
	}
	for k, v := range a {
		if w, ok := b[k]; !ok || w != v {
			return false
		}
	}
	return true
}

// sameStored compares every field a listing exposes.
func sameStored(a, b *Msg) string {
	switch {
	case a.ID != b.ID:
		return "id"
	case a.Route != b.Route:
		return "route"
	case a.Target != b.Target:
		return "target"
	case a.State != b.State:
		return fmt.Sprintf("state %s/%s", a.State, b.State)
	case a.ReceivedAt != b.ReceivedAt:
		return fmt.Sprintf("received_at %d/%d", a.ReceivedAt, b.ReceivedAt)
	case a.NextRunAt != b.NextRunAt:
		return fmt.Sprintf("next_run_at %d/%d", a.NextRunAt, b.NextRunAt)
	case a.Attempt != b.Attempt:
		return fmt.Sprintf("attempt %d/%d", a.Attempt, b.Attempt)
	case !bytes.Equal(a.Payload, b.Payload):
		return "payload"
	case !eqMap(a.Headers, b.Headers):
		return "headers"
	case !eqMap(a.Trace, b.Trace):
		return "trace"
	case a.DeadReason != b.DeadReason:
		return fmt.Sprintf("dead_reason %q/%q", a.DeadReason, b.DeadReason)
	case a.SchemaVersion != b.SchemaVersion:
		return "schema_version"
	}
	return ""
}

// sameLease compares the lease binding (only available from a private-state snapshot).
func sameLease(a, b *Msg) string {
	if a.Lease != b.Lease {
		return fmt.Sprintf("lease %q/%q", a.Lease, b.Lease)
	}
	if a.LeaseUntil != b.LeaseUntil {
		return fmt.Sprintf("lease_until %d/%d", a.LeaseUntil, b.LeaseUntil)
	}
	return ""
}

// pruneEligible: may m disappear through a retention prune that runs during
// an operation at time now? pre is the content before the operation.
func (m *Model) pruneEligible(it *Msg, now int64, dequeue bool) bool {
	c := m.Cfg
	if c.PruneInterval <= 0 {
		return false
	}
	switch it.State {
	case Queued:
		return c.RetentionMaxAge > 0 && it.ReceivedAt <= now-int64(c.RetentionMaxAge)
	case Leased:
		// a lease that has expired is released by the sweep of the same dequeue; the row is then queued
		return dequeue && it.LeaseUntil <= now && c.RetentionMaxAge > 0 && it.ReceivedAt <= now-int64(c.RetentionMaxAge)
	case Delivered:
		return c.DeliveredMaxAge > 0 && it.NextRunAt <= now-int64(c.DeliveredMaxAge)
	case Dead:
		if c.DLQMaxAge > 0 && it.ReceivedAt <= now-int64(c.DLQMaxAge) {
			return true
		}
		if c.DLQMaxDepth > 0 {
			others := 0
			for _, o := range m.Items {
				if o != it && o.State == Dead && o.ReceivedAt >= it.ReceivedAt {
					others++
				}
			}
			return others >= c.DLQMaxDepth
		}
	}
	return false
}

func pruneOp(kind string) bool {
	switch kind {
	case "enq", "enqb", "deq", "list", "listdead", "stats", "churn":
		return true
	}
	return false
}

// Apply validates obs (and, when post != nil, the full listing taken right
// after the operation) against the contract and moves the model to the
// successor. A non-empty return describes the violation.
func (m *Model) Apply(op Op, obs *Obs, post []Msg) string {
	if (op.Kind == "enq" || op.Kind == "enqb") && obs.Err == OK && post != nil && m.Cfg.PruneInterval > 0 && m.Cfg.DropOldest {
		// A prune-eligible row whose id is re-enqueued by this very call may have been pruned first OR evicted by
		// drop_oldest in favour of the new row; both are legal, they differ in how many other rows must go. Try the
		// "pruned first" reading, fall back to the "evicted" reading.
		ambiguous := false
		for id, it := range m.Items {
			if specHasID(op.Envs, id) && m.pruneEligible(it, m.Now, false) {
				ambiguous = true
			}
		}
		if ambiguous {
			c := m.Clone()
			c.Edges = map[string]int{}
			if why := c.apply(op, obs, post, true); why == "" {
				for k, v := range c.Edges {
					m.Edges[k] += v
				}
				edges := m.Edges
				*m = *c
				m.Edges = edges
				return ""
			}
			return m.apply(op, obs, post, false)
		}
	}
	return m.apply(op, obs, post, true)
}

func (m *Model) apply(op Op, obs *Obs, post []Msg, replacedMeansPruned bool) string {
	now := m.Now
	if op.Kind == "tick" {
		m.Now += int64(op.Dur)
		return ""
	}
	var postByID map[string]*Msg
	if post != nil {
		postByID = make(map[string]*Msg, len(post))
		for i := range post {
			if _, dup := postByID[post[i].ID]; dup {
				return fmt.Sprintf("message %s listed twice", post[i].ID)
			}
			postByID[post[i].ID] = &post[i]
		}
	}
	// 1. retention prune that the implementation ran before the operation's own effect:
	//    rows that vanished and were eligible at now are removed first (follow the implementation).
	removedByPrune := map[string]bool{}
	if post != nil && pruneOp(op.Kind) && m.Cfg.PruneInterval > 0 {
		beforeDead := 0
		for _, it := range m.Items {
			if it.State == Dead {
				beforeDead++
			}
		}
		var gone []*Msg
		for id, it := range m.Items {
			_, still := postByID[id]
			if (op.Kind == "enq" || op.Kind == "enqb") && specHasID(op.Envs, id) {
				// the id is re-enqueued by this very call: the old row was pruned first iff the call succeeded
				// (or, second reading, it was evicted by drop_oldest: then it is judged by the admission rule)
				still = obs.Err != OK || !replacedMeansPruned
			}
			if !still && m.pruneEligible(it, now, op.Kind == "deq") {
				if op.Kind == "deq" && it.State == Leased {
					continue // handled after the sweep below
				}
				gone = append(gone, it)
			}
		}
		for _, it := range gone {
			delete(m.Items, it.ID)
			removedByPrune[it.ID] = true
			m.edge(it.State, "prune", "removed")
		}
		if m.Cfg.DLQMaxDepth > 0 {
			afterDead := 0
			for _, it := range m.Items {
				if it.State == Dead {
					afterDead++
				}
			}
			// a depth prune trims the DLQ down to the newest max_depth rows, never below: if a dead row that is not
			// eligible by age disappeared, at least max_depth dead rows must remain
			depthOnly := 0
			for _, it := range gone {
				if it.State == Dead && !(m.Cfg.DLQMaxAge > 0 && it.ReceivedAt <= now-int64(m.Cfg.DLQMaxAge)) {
					depthOnly++
				}
			}
			if depthOnly > 0 && afterDead < m.Cfg.DLQMaxDepth {
				return fmt.Sprintf("dlq depth prune removed too many: %d dead left (of %d), depth limit %d", afterDead, beforeDead, m.Cfg.DLQMaxDepth)
			}
		}
	}

	var why string
	switch op.Kind {
	case "enq":
		why = m.applyEnqueue(op.Envs, obs, postByID, false)
	case "enqb":
		why = m.applyEnqueue(op.Envs, obs, postByID, true)
	case "deq":
		why = m.applyDequeue(op, obs, postByID)
	case "ack", "nack", "ext", "dead":
		why = m.applyLeaseOp(op, obs)
	case "ackb", "nackb", "deadb":
		why = m.applyLeaseBatch(op, obs)
	case "cancel", "requeue", "resume", "rqdead", "deldead":
		why = m.applyByID(op, obs)
	case "cancelf", "requeuef", "resumef":
		why = m.applyByFilter(op, obs)
	case "list":
		why = m.checkList(op, obs)
	case "listdead":
		why = m.checkListDead(op, obs)
	case "lookup":
		why = m.checkLookup(op, obs)
	case "stats":
		why = m.checkStats(obs)
	case "churn":
		// messages of a route of their own passed through the queue and were acked: nothing is left of them (the
		// searches that use churn run without delivered retention) and nothing else changed - judged by the listing
		m.Churned = true
		if obs.Err != OK {
			why = "traffic on another route failed: " + obs.ErrText
		} else {
			// its dequeues sweep expired leases and its calls may prune, like any other dequeue that returns nothing here
			why = m.applyDequeue(Op{Kind: "deq", Route: "/zz-churn", Target: "zz", Batch: 1, TTL: time.Minute}, &Obs{Err: OK}, postByID)
		}
	case "reopen":
		// a restart on the same database: nothing changes (retention prunes aside); judged by the listing below
		if obs.Err != OK {
			why = "the store refused to open again: " + obs.ErrText
		}
	default:
		return "qmodel: unknown op " + op.Kind
	}
	if why != "" {
		return why
	}
	// 2. full listing must equal the model contents
	if post != nil {
		if why := m.compareListing(postByID, now, op.Kind == "deq"); why != "" {
			return why
		}
	}
	return ""
}

func specHasID(envs []EnvSpec, id string) bool {
	for _, e := range envs {
		if e.ID == id {
			return true
		}
	}
	return false
}

func (m *Model) compareListing(post map[string]*Msg, now int64, dequeue bool) string {
	for id, it := range m.Items {
		p, ok := post[id]
		if !ok {
			// late prune (after the operation's effect, e.g. sweep then prune inside one dequeue)
			if m.Cfg.PruneInterval > 0 && m.pruneEligible(it, now, dequeue) {
				delete(m.Items, id)
				m.edge(it.State, "prune", "removed")
				continue
			}
			return fmt.Sprintf("message %s (%s) disappeared", id, it.State)
		}
		if d := sameStored(it, p); d != "" {
			return fmt.Sprintf("message %s differs from the contract in %s (model %+v, store %+v)", id, d, brief(it), brief(p))
		}
		if m.PostHasLeases {
			if d := sameLease(it, p); d != "" {
				return fmt.Sprintf("message %s: lease binding differs from the contract in %s", id, d)
			}
		}
	}
	for id, p := range post {
		if _, ok := m.Items[id]; !ok {
			return fmt.Sprintf("message %s (%s) exists in the store but not in the contract state (revived or invented)", id, p.State)
		}
	}
	return ""
}

func brief(it *Msg) string {
	return fmt.Sprintf("{%s %s %s %s rcv=%d next=%d att=%d dead=%q}", it.ID, it.Route, it.Target, it.State, it.ReceivedAt, it.NextRunAt, it.Attempt, it.DeadReason)
}

// ---- enqueue -----------------------------------------------------------------

func (m *Model) normalise(e EnvSpec) *Msg {
	it := &Msg{ID: e.ID, Route: e.Route, Target: e.Target, State: Queued, ReceivedAt: e.ReceivedAt, NextRunAt: e.NextRunAt,
		Payload: e.Payload, Headers: e.Headers, Trace: e.Trace, SchemaVersion: 1}
	if it.ReceivedAt == 0 {
		it.ReceivedAt = m.Now
	}
	if it.NextRunAt == 0 {
		it.NextRunAt = it.ReceivedAt
	}
	return it
}

func (m *Model) applyEnqueue(envs []EnvSpec, obs *Obs, post map[string]*Msg, batch bool) string {
	n := len(envs)
	if batch && n == 0 {
		if obs.Err != OK || obs.N != 0 {
			return fmt.Sprintf("empty batch: got (%d,%s), want (0,ok)", obs.N, obs.Err)
		}
		return ""
	}
	c := m.Cfg
	active, queued, delivered := m.active()
	// justified refusals
	dupInBatch := false
	seen := map[string]bool{}
	collides := false
	for _, e := range envs {
		if seen[e.ID] {
			dupInBatch = true
		}
		seen[e.ID] = true
		if _, ok := m.Items[e.ID]; ok {
			collides = true
		}
	}
	// count: what the backend holds against max_depth - queued + leased, and on the memory backend with delivered
	// retention also the retained delivered rows (documented: docs/configuration.md "delivered_retention"); under
	// drop_oldest that backend evicts queued rows until the guarded count fits.
	count := active
	if c.DeliveredCountsAgainstDepth && c.DeliveredMaxAge > 0 {
		count += delivered
	}
	needed := 0
	if c.MaxDepth > 0 && count+n > c.MaxDepth {
		needed = count + n - c.MaxDepth
	}
	fullJustified := needed > 0 && (!c.DropOldest || queued < needed)
	if c.DeliveredCountsAgainstDepth && c.MaxDepth > 0 && c.DeliveredMaxAge > 0 && active+delivered+n > c.MaxDepth {
		over := active + delivered + n - c.MaxDepth
		if !c.DropOldest || queued < over {
			fullJustified = true
		}
	}
	// reference outcome (transactional order: evict tentatively, insert, undo on failure)
	ref := OK
	var victims []*Msg
	if needed > 0 {
		if !c.DropOldest || queued < needed {
			ref = Full
		} else {
			q := make([]*Msg, 0, queued)
			for _, it := range m.Items {
				if it.State == Queued {
					q = append(q, it)
				}
			}
			sort.Slice(q, func(i, j int) bool { return q[i].ReceivedAt < q[j].ReceivedAt })
			victims = q[:needed] // which of several equally old rows go is the implementation's choice (validated below)
		}
	}
	if ref == OK {
		if dupInBatch {
			ref = Exists
		} else {
			vic := map[string]bool{}
			for _, v := range victims {
				vic[v.ID] = true
			}
			for _, e := range envs {
				if _, ok := m.Items[e.ID]; ok && !vic[e.ID] {
					ref = Exists
				}
			}
			// a collision with a would-be victim only counts as "replaced" when the implementation really evicted that row;
			// with tie freedom the implementation may have picked another equally old victim: handled when following below.
		}
	}

	switch obs.Err {
	case OK:
		if batch && obs.N != n {
			return fmt.Sprintf("batch stored count %d, want %d", obs.N, n)
		}
		if dupInBatch {
			return "batch with a duplicate id inside was stored"
		}
		// follow the implementation's victim choice
		var gone []*Msg
		if post != nil {
			for id, it := range m.Items {
				if p, still := post[id]; !still || (specHasID(envs, id) && it.State == Queued && p.State == Queued && replaced(it, p, m, envs)) {
					gone = append(gone, it)
				}
			}
		} else {
			gone = victims
		}
		// legal victims: exactly `needed` (or, over the limit, between 1 and needed), all queued, the oldest ones
		if len(gone) > 0 || needed > 0 {
			if !c.DropOldest && len(gone) > 0 {
				return fmt.Sprintf("enqueue removed %d message(s) without drop_oldest", len(gone))
			}
			lo := needed
			if count >= c.MaxDepth+1 && !batch {
				lo = 1 // single enqueue above the limit (after operator requeue) may evict just one
			}
			if needed > 0 && (len(gone) < lo || len(gone) > needed) {
				return fmt.Sprintf("stored although count=%d max_depth=%d: evicted %d, needed %d", count, c.MaxDepth, len(gone), needed)
			}
			if needed == 0 && len(gone) > 0 {
				return fmt.Sprintf("evicted %d message(s) although the queue was not full", len(gone))
			}
			maxVictim := int64(-1 << 63)
			for _, v := range gone {
				if v.State != Queued {
					return fmt.Sprintf("drop_oldest evicted %s in state %s", v.ID, v.State)
				}
				if v.ReceivedAt > maxVictim {
					maxVictim = v.ReceivedAt
				}
			}
			goneSet := map[string]bool{}
			for _, v := range gone {
				goneSet[v.ID] = true
			}
			for _, it := range m.Items {
				if it.State == Queued && !goneSet[it.ID] && it.ReceivedAt < maxVictim {
					return fmt.Sprintf("drop_oldest evicted a newer message (received_at %d) while older queued message %s (received_at %d) stays", maxVictim, it.ID, it.ReceivedAt)
				}
			}
			for _, v := range gone {
				delete(m.Items, v.ID)
				m.edge(Queued, "drop_oldest", "removed")
			}
		}
		for _, e := range envs {
			if _, ok := m.Items[e.ID]; ok {
				return fmt.Sprintf("enqueue of existing id %s reported success", e.ID)
			}
		}
		for _, e := range envs {
			m.Items[e.ID] = m.normalise(e)
			m.edge("new", "enqueue", Queued)
		}
		return ""
	case Full:
		if ref == Full || (!c.Strict && fullJustified) {
			return ""
		}
		if c.Strict && fullJustified && ref != OK {
			return "" // both refusal reasons apply; the class priority is not part of the contract
		}
		return fmt.Sprintf("refused queue-full although active=%d queued=%d n=%d max_depth=%d drop_oldest=%v (reference outcome %s)", active, queued, n, c.MaxDepth, c.DropOldest, ref)
	case Exists:
		if ref == Exists || (!c.Strict && (collides || dupInBatch)) {
			return ""
		}
		if c.Strict && (collides || dupInBatch) && ref == Full {
			return ""
		}
		return fmt.Sprintf("refused as duplicate although reference outcome is %s (collides=%v dupInBatch=%v)", ref, collides, dupInBatch)
	default:
		return fmt.Sprintf("enqueue failed with %s (%s); reference outcome %s", obs.Err, obs.ErrText, ref)
	}
}

// replaced: the store still lists id, but it is the newly enqueued row (the old one was evicted in its favour).
func replaced(old, now *Msg, m *Model, envs []EnvSpec) bool {
	for _, e := range envs {
		if e.ID == old.ID {
			return sameStored(m.normalise(e), now) == ""
		}
	}
	return false
}

// ---- dequeue -----------------------------------------------------------------

func (m *Model) applyDequeue(op Op, obs *Obs, post map[string]*Msg) string {
	if obs.Err != OK {
		return fmt.Sprintf("dequeue failed: %s %s", obs.Err, obs.ErrText)
	}
	now := m.Now
	batch := op.Batch
	if batch <= 0 {
		batch = 1
	}
	if batch > 100 {
		batch = 100
	}
	ttl := op.TTL
	if ttl <= 0 {
		ttl = 30 * time.Second
	}
	returned := map[string]*Msg{}
	for i := range obs.Items {
		it := &obs.Items[i]
		if _, dup := returned[it.ID]; dup {
			return fmt.Sprintf("dequeue returned %s twice", it.ID)
		}
		returned[it.ID] = it
	}
	// sweep: expired leases return to queued. Certain when expired for >= granularity, else follow the implementation.
	for _, it := range m.Items {
		if it.State != Leased || it.LeaseUntil > now {
			continue
		}
		certain := now-it.LeaseUntil >= int64(m.Cfg.SweepGranularity)
		swept := certain
		if !certain {
			if _, ok := returned[it.ID]; ok {
				swept = true
			} else if post != nil {
				if p, ok := post[it.ID]; ok {
					swept = p.State == Queued
				} else {
					swept = true // gone: swept then pruned; judged by compareListing
				}
			} else {
				swept = m.AssumeSwept // no listing to look at (linearizability search): the caller tries both
			}
		}
		if swept {
			m.requeueExpired(it, now, "expiry")
		}
	}
	// ready set
	ready := map[string]*Msg{}
	for _, it := range m.Items {
		if it.State != Queued || it.NextRunAt > now {
			continue
		}
		if op.Route != "" && it.Route != op.Route {
			continue
		}
		if op.Target != "" && it.Target != op.Target {
			continue
		}
		ready[it.ID] = it
	}
	// rows that the implementation pruned in this very call are not part of the ready set
	if post != nil {
		for id, it := range ready {
			if _, still := post[id]; !still {
				if _, ret := returned[id]; !ret && m.Cfg.PruneInterval > 0 && m.pruneEligible(it, now, true) {
					delete(ready, id)
				}
			}
		}
	}
	want := batch
	if len(ready) < want {
		want = len(ready)
	}
	if len(obs.Items) != want {
		return fmt.Sprintf("dequeue returned %d item(s), want min(batch=%d, ready=%d)=%d (ready: %s)", len(obs.Items), batch, len(ready), want, keys(ready))
	}
	for id, got := range returned {
		it, ok := ready[id]
		if !ok {
			if cur, exists := m.Items[id]; exists {
				return fmt.Sprintf("dequeue returned %s which is not ready (state %s, next_run_at %d, now %d, lease_until %d)", id, cur.State, cur.NextRunAt, now, cur.LeaseUntil)
			}
			return fmt.Sprintf("dequeue returned unknown message %s", id)
		}
		base := fmt.Sprintf("%s#%d", id, it.Attempt+1)
		handle := HandleName(base, m.IssuedBase[base])
		if got.Lease != handle {
			return fmt.Sprintf("dequeue of %s: lease handle %q, want fresh %q (attempt must increase by exactly one and the lease id be new)", id, got.Lease, handle)
		}
		if m.Issued[handle] {
			return fmt.Sprintf("lease %s issued twice", handle)
		}
		exp := it.clone()
		exp.State = Leased
		exp.Attempt++
		exp.Lease = handle
		exp.LeaseUntil = now + int64(ttl)
		exp.NextRunAt = exp.LeaseUntil
		if d := sameStored(exp, got); d != "" {
			return fmt.Sprintf("dequeued item %s differs in %s (want %s got %s)", id, d, brief(exp), brief(got))
		}
		if got.LeaseUntil != exp.LeaseUntil {
			return fmt.Sprintf("dequeued item %s lease_until %d, want %d", id, got.LeaseUntil, exp.LeaseUntil)
		}
		m.edge(Queued, "dequeue", Leased)
		m.Issued[handle] = true
		m.IssuedBase[base]++
		*it = *exp
	}
	return ""
}

// HandleName names the (n+1)-th grant of "<id>#<attempt>": the first is the base itself, later incarnations of
// the same id get a "~k" suffix. Driver and model apply the same rule.
func HandleName(base string, issuedBefore int) string {
	if issuedBefore == 0 {
		return base
	}
	return fmt.Sprintf("%s~%d", base, issuedBefore+1)
}

func keys(m map[string]*Msg) string {
	ks := make([]string, 0, len(m))
	for k := range m {
		ks = append(ks, k)
	}
	sort.Strings(ks)
	return strings.Join(ks, ",")
}

func (m *Model) requeueExpired(it *Msg, now int64, why string) {
	m.edge(Leased, why, Queued)
	it.State = Queued
	it.Lease = ""
	it.LeaseUntil = 0
	it.NextRunAt = now
	it.DeadReason = ""
}

// ---- lease operations ----------------------------------------------------------

func (m *Model) findLease(h string) *Msg {
	if h == "" {
		return nil
	}
	for _, it := range m.Items {
		if it.State == Leased && it.Lease == h {
			return it
		}
	}
	return nil
}

// leaseEffect applies a valid lease mutation.
func (m *Model) leaseEffect(kind string, it *Msg, op Op, now int64) {
	switch kind {
	case "ack":
		if m.Cfg.DeliveredMaxAge > 0 {
			m.edge(Leased, "ack", Delivered)
			it.State = Delivered
			it.Lease, it.LeaseUntil = "", 0
			it.NextRunAt = now
			it.DeadReason = ""
		} else {
			m.edge(Leased, "ack", "removed")
			delete(m.Items, it.ID)
		}
	case "nack":
		d := op.Delay
		if d < 0 {
			d = 0
		}
		m.edge(Leased, "nack", Queued)
		it.State = Queued
		it.Lease, it.LeaseUntil = "", 0
		it.NextRunAt = now + int64(d)
		it.DeadReason = ""
	case "dead":
		m.edge(Leased, "mark_dead", Dead)
		it.State = Dead
		it.Lease, it.LeaseUntil = "", 0
		it.NextRunAt = now
		it.DeadReason = op.Reason
	case "ext":
		m.edge(Leased, "extend", Leased)
		it.LeaseUntil += int64(op.Delay)
		it.NextRunAt = it.LeaseUntil
	}
}

func (m *Model) applyLeaseOp(op Op, obs *Obs) string {
	now := m.Now
	if op.Kind == "ext" && op.Delay <= 0 {
		if obs.Err != OK {
			return fmt.Sprintf("extend by %s: got %s, want ok/no-op", op.Delay, obs.Err)
		}
		return ""
	}
	it := m.findLease(strings.TrimSpace(op.Lease))
	if it == nil {
		if !isErr(obs.Err, NotFound) {
			return fmt.Sprintf("%s with stale/unknown lease %q: got %s, want a conflict (lease not found)", op.Kind, op.Lease, obs.Err)
		}
		return ""
	}
	if now >= it.LeaseUntil {
		if !isErr(obs.Err, Expired) {
			return fmt.Sprintf("%s with expired lease %q (until %d, now %d): got %s, want lease-expired", op.Kind, op.Lease, it.LeaseUntil, now, obs.Err)
		}
		m.requeueExpired(it, now, "expiry")
		return ""
	}
	if obs.Err != OK {
		return fmt.Sprintf("%s with the current lease %q: got %s (%s), want ok", op.Kind, op.Lease, obs.Err, obs.ErrText)
	}
	m.leaseEffect(op.Kind, it, op, now)
	return ""
}

func (m *Model) applyLeaseBatch(op Op, obs *Obs) string {
	now := m.Now
	if obs.Err != OK {
		return fmt.Sprintf("%s failed: %s %s", op.Kind, obs.Err, obs.ErrText)
	}
	kind := strings.TrimSuffix(op.Kind, "b")
	var want []Conflict
	succeeded := 0
	processed := map[string]bool{}
	for _, raw := range op.Leases {
		h := strings.TrimSpace(raw)
		if h == "" {
			want = append(want, Conflict{Lease: raw})
			continue
		}
		if processed[h] {
			want = append(want, Conflict{Lease: h})
			continue
		}
		processed[h] = true
		it := m.findLease(h)
		if it == nil {
			want = append(want, Conflict{Lease: h})
			continue
		}
		if now >= it.LeaseUntil {
			want = append(want, Conflict{Lease: h, Expired: true})
			m.requeueExpired(it, now, "expiry")
			continue
		}
		m.leaseEffect(kind, it, op, now)
		succeeded++
	}
	if obs.N != succeeded {
		return fmt.Sprintf("%s succeeded=%d, want %d", op.Kind, obs.N, succeeded)
	}
	if !sameConflicts(want, obs.Conflicts) {
		return fmt.Sprintf("%s conflicts %v, want %v (as multisets)", op.Kind, obs.Conflicts, want)
	}
	return ""
}

func sameConflicts(a, b []Conflict) bool {
	if len(a) != len(b) {
		return false
	}
	cnt := map[Conflict]int{}
	for _, c := range a {
		cnt[c]++
	}
	for _, c := range b {
		cnt[c]--
	}
	for _, v := range cnt {
		if v != 0 {
			return false
		}
	}
	return true
}

// ---- operator mutations ----------------------------------------------------------

func normIDs(ids []string) []string {
	seen := map[string]bool{}
	var out []string
	for _, raw := range ids {
		id := strings.TrimSpace(raw)
		if id == "" || seen[id] {
			continue
		}
		seen[id] = true
		out = append(out, id)
	}
	return out
}

func allowedStates(kind string) []string {
	switch kind {
	case "cancel", "cancelf":
		return []string{Queued, Leased, Dead}
	case "requeue", "requeuef":
		return []string{Dead, Canceled}
	case "resume", "resumef":
		return []string{Canceled}
	case "rqdead", "deldead":
		return []string{Dead}
	}
	return nil
}

func in(s string, set []string) bool {
	for _, x := range set {
		if x == s {
			return true
		}
	}
	return false
}

func (m *Model) mutate(kind string, it *Msg, now int64) {
	switch kind {
	case "cancel", "cancelf":
		m.edge(it.State, "cancel", Canceled)
		it.State = Canceled
	case "requeue", "requeuef", "rqdead":
		m.edge(it.State, "requeue", Queued)
		it.State = Queued
	case "resume", "resumef":
		m.edge(it.State, "resume", Queued)
		it.State = Queued
	case "deldead":
		m.edge(it.State, "dlq_delete", "removed")
		delete(m.Items, it.ID)
		return
	}
	it.Lease, it.LeaseUntil = "", 0
	it.NextRunAt = now
	it.DeadReason = ""
}

func (m *Model) applyByID(op Op, obs *Obs) string {
	if obs.Err != OK {
		return fmt.Sprintf("%s failed: %s %s", op.Kind, obs.Err, obs.ErrText)
	}
	allowed := allowedStates(op.Kind)
	n := 0
	for _, id := range normIDs(op.IDs) {
		it := m.Items[id]
		if it == nil || !in(it.State, allowed) {
			continue
		}
		m.mutate(op.Kind, it, m.Now)
		n++
	}
	if obs.N != n {
		return fmt.Sprintf("%s reported %d changed, want %d", op.Kind, obs.N, n)
	}
	if op.Kind != "rqdead" && op.Kind != "deldead" && obs.Matched != n {
		return fmt.Sprintf("%s reported matched=%d, want %d", op.Kind, obs.Matched, n)
	}
	return ""
}

func (m *Model) selectByFilter(f Filter, allowed []string) []*Msg {
	limit := f.Limit
	if limit <= 0 {
		limit = 100
	}
	if limit > 1000 {
		limit = 1000
	}
	if f.State != "" {
		if !in(f.State, allowed) {
			return nil
		}
		allowed = []string{f.State}
	}
	var c []*Msg
	for _, it := range m.Items {
		if !in(it.State, allowed) {
			continue
		}
		if f.Route != "" && it.Route != f.Route {
			continue
		}
		if f.Target != "" && it.Target != f.Target {
			continue
		}
		if f.Before != 0 && !(it.ReceivedAt < f.Before) {
			continue
		}
		c = append(c, it)
	}
	sort.Slice(c, func(i, j int) bool {
		if c[i].ReceivedAt != c[j].ReceivedAt {
			return c[i].ReceivedAt > c[j].ReceivedAt
		}
		return c[i].ID > c[j].ID
	})
	if len(c) > limit {
		c = c[:limit]
	}
	return c
}

func (m *Model) applyByFilter(op Op, obs *Obs) string {
	if obs.Err != OK {
		return fmt.Sprintf("%s failed: %s %s", op.Kind, obs.Err, obs.ErrText)
	}
	sel := m.selectByFilter(op.Filter, allowedStates(op.Kind))
	if obs.Matched != len(sel) {
		return fmt.Sprintf("%s matched=%d, want %d", op.Kind, obs.Matched, len(sel))
	}
	if op.Filter.Preview {
		if obs.N != 0 || !obs.Preview {
			return fmt.Sprintf("%s preview reported changed=%d preview=%v", op.Kind, obs.N, obs.Preview)
		}
		return ""
	}
	for _, it := range sel {
		m.mutate(op.Kind, it, m.Now)
	}
	if obs.N != len(sel) {
		return fmt.Sprintf("%s changed=%d, want %d", op.Kind, obs.N, len(sel))
	}
	if obs.Preview {
		return op.Kind + " reported preview_only on a real run"
	}
	return ""
}

// ---- read operations ---------------------------------------------------------------

func (m *Model) checkList(op Op, obs *Obs) string {
	l := op.List
	order := strings.ToLower(strings.TrimSpace(l.Order))
	if order == "" {
		order = "desc"
	}
	if order != "asc" && order != "desc" {
		if obs.Err == OK {
			return fmt.Sprintf("list with order %q succeeded", l.Order)
		}
		return ""
	}
	if obs.Err != OK {
		return fmt.Sprintf("list failed: %s %s", obs.Err, obs.ErrText)
	}
	limit := l.Limit
	if limit <= 0 {
		limit = 100
	}
	if limit > 1000 {
		limit = 1000
	}
	var c []*Msg
	for _, it := range m.Items {
		if l.Route != "" && it.Route != l.Route {
			continue
		}
		if l.Target != "" && it.Target != l.Target {
			continue
		}
		if l.State != "" && it.State != l.State {
			continue
		}
		if l.Before != 0 && !(it.ReceivedAt < l.Before) {
			continue
		}
		c = append(c, it)
	}
	sort.Slice(c, func(i, j int) bool {
		if c[i].ReceivedAt != c[j].ReceivedAt {
			if order == "asc" {
				return c[i].ReceivedAt < c[j].ReceivedAt
			}
			return c[i].ReceivedAt > c[j].ReceivedAt
		}
		if order == "asc" {
			return c[i].ID < c[j].ID
		}
		return c[i].ID > c[j].ID
	})
	if len(c) > limit {
		c = c[:limit]
	}
	// the implementation may have pruned eligible rows at the start of this call: tolerate their absence
	got := obs.Items
	gi := 0
	for _, it := range c {
		if gi < len(got) && got[gi].ID == it.ID {
			if d := sameStored(it, &got[gi]); d != "" {
				return fmt.Sprintf("list item %s differs in %s", it.ID, d)
			}
			gi++
			continue
		}
		if m.Cfg.PruneInterval > 0 && m.pruneEligible(it, m.Now, false) {
			continue
		}
		return fmt.Sprintf("list(%+v): expected %s at position %d, got %s", l, it.ID, gi, listIDs(got))
	}
	if gi != len(got) {
		// with pruned rows skipped the limit window may extend further; accept only rows that exist and match the filter order
		if m.Cfg.PruneInterval > 0 {
			return ""
		}
		return fmt.Sprintf("list(%+v) returned extra items: %s", l, listIDs(got))
	}
	return ""
}

func listIDs(items []Msg) string {
	var s []string
	for _, it := range items {
		s = append(s, it.ID)
	}
	return "[" + strings.Join(s, ",") + "]"
}

func (m *Model) checkListDead(op Op, obs *Obs) string {
	if obs.Err != OK {
		return fmt.Sprintf("listdead failed: %s %s", obs.Err, obs.ErrText)
	}
	l := op.List
	limit := l.Limit
	if limit <= 0 {
		limit = 100
	}
	if limit > 1000 {
		limit = 1000
	}
	var c []*Msg
	for _, it := range m.Items {
		if it.State != Dead {
			continue
		}
		if l.Route != "" && it.Route != l.Route {
			continue
		}
		if l.Before != 0 && !(it.ReceivedAt < l.Before) {
			continue
		}
		if m.Cfg.PruneInterval > 0 && m.pruneEligible(it, m.Now, false) {
			if !containsID(obs.Items, it.ID) {
				continue
			}
		}
		c = append(c, it)
	}
	want := len(c)
	if want > limit {
		want = limit
	}
	if len(obs.Items) != want {
		return fmt.Sprintf("listdead(%+v) returned %d items, want %d", l, len(obs.Items), want)
	}
	// order: received_at desc, order inside a tie group free
	for i := 1; i < len(obs.Items); i++ {
		if obs.Items[i-1].ReceivedAt < obs.Items[i].ReceivedAt {
			return "listdead not ordered by received_at desc"
		}
	}
	seen := map[string]bool{}
	var minGot int64 = 1<<63 - 1
	for i := range obs.Items {
		g := &obs.Items[i]
		it := m.Items[g.ID]
		if it == nil || it.State != Dead || seen[g.ID] {
			return fmt.Sprintf("listdead returned %s which is not a (distinct) dead message", g.ID)
		}
		seen[g.ID] = true
		if d := sameStored(it, g); d != "" {
			return fmt.Sprintf("listdead item %s differs in %s", g.ID, d)
		}
		if g.ReceivedAt < minGot {
			minGot = g.ReceivedAt
		}
	}
	for _, it := range c {
		if !seen[it.ID] && it.ReceivedAt > minGot {
			return fmt.Sprintf("listdead skipped %s (received_at %d) but returned an older one (%d)", it.ID, it.ReceivedAt, minGot)
		}
	}
	return ""
}

func containsID(items []Msg, id string) bool {
	for i := range items {
		if items[i].ID == id {
			return true
		}
	}
	return false
}

func (m *Model) checkLookup(op Op, obs *Obs) string {
	if obs.Err != OK {
		return fmt.Sprintf("lookup failed: %s", obs.Err)
	}
	var want []*Msg
	for _, id := range normIDs(op.IDs) {
		if it := m.Items[id]; it != nil {
			want = append(want, it)
		}
	}
	if len(want) != len(obs.Items) {
		return fmt.Sprintf("lookup returned %d items, want %d", len(obs.Items), len(want))
	}
	for i, it := range want {
		g := obs.Items[i]
		if g.ID != it.ID || g.Route != it.Route || g.State != it.State {
			return fmt.Sprintf("lookup item %d = {%s %s %s}, want {%s %s %s}", i, g.ID, g.Route, g.State, it.ID, it.Route, it.State)
		}
	}
	return ""
}

func (m *Model) checkStats(obs *Obs) string {
	if obs.Err != OK || obs.Stats == nil {
		return fmt.Sprintf("stats failed: %s", obs.Err)
	}
	// rows pruned at the start of the call are unknown here; compare against the contents minus eligible rows when counts differ
	by := map[string]int{Queued: 0, Leased: 0, Delivered: 0, Dead: 0, Canceled: 0}
	elig := map[string]int{}
	for _, it := range m.Items {
		by[it.State]++
		if m.Cfg.PruneInterval > 0 && m.pruneEligible(it, m.Now, false) {
			elig[it.State]++
		}
	}
	total := 0
	for st, n := range by {
		g := obs.Stats.ByState[st]
		if g > n || g < n-elig[st] {
			return fmt.Sprintf("stats by_state[%s]=%d, want %d (prunable %d)", st, g, n, elig[st])
		}
		total += g
	}
	if obs.Stats.Total != total {
		return fmt.Sprintf("stats total=%d, want %d", obs.Stats.Total, total)
	}
	return ""
}
