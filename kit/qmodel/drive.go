package qmodel

import (
	"errors"
	"fmt"
	"sort"
	"strings"
	"time"

	"github.com/nuetzliches/hookaido/internal/queue"
)

// Driver applies model-level operations to a real Store, translating lease
// handles ("<id>#<attempt>") to the lease ids the store issued.
type Driver struct {
	Store   queue.Store
	Clock   *int64 // the store's clock (ns); tick advances it
	handles map[string]string
	reverse map[string]string
	bases   map[string]int
}

func NewDriver(st queue.Store, clock *int64) *Driver {
	return &Driver{Store: st, Clock: clock, handles: map[string]string{}, reverse: map[string]string{}, bases: map[string]int{}}
}

// On returns a driver for another handle onto the same queue (e.g. a second SQLiteStore on the same file): the lease
// handle tables are shared.
func (d *Driver) On(st queue.Store) *Driver {
	return &Driver{Store: st, Clock: d.Clock, handles: d.handles, reverse: d.reverse, bases: d.bases}
}

func (d *Driver) Reset() {
	d.handles = map[string]string{}
	d.reverse = map[string]string{}
	d.bases = map[string]int{}
}

func T(ns int64) time.Time {
	if ns == 0 {
		return time.Time{}
	}
	return time.Unix(0, ns).UTC()
}

func ns(t time.Time) int64 {
	if t.IsZero() {
		return 0
	}
	return t.UnixNano()
}

func ErrClass(err error) string {
	switch {
	case err == nil:
		return OK
	case errors.Is(err, queue.ErrQueueFull):
		return Full
	case errors.Is(err, queue.ErrEnvelopeExists):
		return Exists
	case errors.Is(err, queue.ErrLeaseNotFound):
		return NotFound
	case errors.Is(err, queue.ErrLeaseExpired):
		return Expired
	}
	return Other
}

func errText(err error) string {
	if err == nil {
		return ""
	}
	return err.Error()
}

// real lease id for a handle: unknown handles are passed through verbatim (they are unknown to the store too)
func (d *Driver) real(h string) string {
	t := strings.TrimSpace(h)
	if r, ok := d.handles[t]; ok {
		return strings.Replace(h, t, r, 1)
	}
	return h
}

// HandleOf translates a real lease id to its handle (unknown ids pass through).
func (d *Driver) HandleOf(realID string) string { return d.handleOf(realID) }

func (d *Driver) handleOf(realID string) string {
	t := strings.TrimSpace(realID)
	if h, ok := d.reverse[t]; ok {
		return strings.Replace(realID, t, h, 1)
	}
	return realID
}

func FromEnvelope(e queue.Envelope) Msg {
	m := Msg{ID: e.ID, Route: e.Route, Target: e.Target, State: string(e.State), ReceivedAt: ns(e.ReceivedAt), NextRunAt: ns(e.NextRunAt),
		Attempt: e.Attempt, Payload: e.Payload, Headers: e.Headers, Trace: e.Trace, DeadReason: e.DeadReason, SchemaVersion: e.SchemaVersion,
		LeaseUntil: ns(e.LeaseUntil)}
	return m
}

func toEnvelope(e EnvSpec) queue.Envelope {
	return queue.Envelope{ID: e.ID, Route: e.Route, Target: e.Target, ReceivedAt: T(e.ReceivedAt), NextRunAt: T(e.NextRunAt),
		Payload: e.Payload, Headers: e.Headers, Trace: e.Trace}
}

// Listing returns every message (ascending) with payload, headers and trace, without triggering anything but the
// store's own prune hook (the caller accounts for that by listing right after the operation at the same clock).
func (d *Driver) Listing() ([]Msg, error) {
	resp, err := d.Store.ListMessages(queue.MessageListRequest{Order: "asc", Limit: 1000, IncludePayload: true, IncludeHeaders: true, IncludeTrace: true})
	if err != nil {
		return nil, err
	}
	out := make([]Msg, len(resp.Items))
	for i, e := range resp.Items {
		out[i] = FromEnvelope(e)
	}
	return out, nil
}

// Do executes op against the store.
func (d *Driver) Do(op Op) *Obs {
	o := &Obs{Err: OK}
	set := func(err error) {
		o.Err = ErrClass(err)
		o.ErrText = errText(err)
	}
	switch op.Kind {
	case "tick":
		*d.Clock += int64(op.Dur)
	case "enq":
		set(d.Store.Enqueue(toEnvelope(op.Envs[0])))
	case "enqb":
		be, ok := d.Store.(queue.BatchEnqueuer)
		if !ok {
			o.Err, o.ErrText = Other, "store is not a BatchEnqueuer"
			return o
		}
		items := make([]queue.Envelope, len(op.Envs))
		for i, e := range op.Envs {
			items[i] = toEnvelope(e)
		}
		n, err := be.EnqueueBatch(items)
		set(err)
		o.N = n
	case "deq":
		resp, err := d.Store.Dequeue(queue.DequeueRequest{Route: op.Route, Target: op.Target, Batch: op.Batch, LeaseTTL: op.TTL})
		set(err)
		for _, e := range resp.Items {
			m := FromEnvelope(e)
			base := fmt.Sprintf("%s#%d", e.ID, e.Attempt)
			h := HandleName(base, d.bases[base])
			if _, used := d.reverse[e.LeaseID]; used || e.LeaseID == "" {
				h = "REUSED:" + e.LeaseID // a lease id that is not fresh can never match the model's expectation
			} else {
				d.bases[base]++
				d.handles[h] = e.LeaseID
				d.reverse[e.LeaseID] = h
			}
			m.Lease = h
			o.Items = append(o.Items, m)
		}
	case "churn":
		// op.Batch messages pass through a route of their own: enqueue, dequeue, ack, one after the other. The queue is
		// the same afterwards; what the store did to its internal bookkeeping on the way (compaction, caches) is the point.
		for i := 0; i < op.Batch; i++ {
			id := fmt.Sprintf("zz-churn-%d", i)
			if err := d.Store.Enqueue(queue.Envelope{ID: id, Route: "/zz-churn", Target: "zz", Payload: []byte("z")}); err != nil {
				o.Err, o.ErrText = Other, fmt.Sprintf("churn: enqueue %d: %v", i, err)
				return o
			}
			resp, err := d.Store.Dequeue(queue.DequeueRequest{Route: "/zz-churn", Target: "zz", Batch: 1, LeaseTTL: time.Minute})
			if err != nil || len(resp.Items) != 1 || resp.Items[0].ID != id {
				o.Err, o.ErrText = Other, fmt.Sprintf("churn: dequeue %d returned %d item(s) (%v)", i, len(resp.Items), err)
				return o
			}
			if err := d.Store.Ack(resp.Items[0].LeaseID); err != nil {
				o.Err, o.ErrText = Other, fmt.Sprintf("churn: ack %d: %v", i, err)
				return o
			}
		}
	case "ack":
		set(d.Store.Ack(d.real(op.Lease)))
	case "nack":
		set(d.Store.Nack(d.real(op.Lease), op.Delay))
	case "ext":
		set(d.Store.Extend(d.real(op.Lease), op.Delay))
	case "dead":
		set(d.Store.MarkDead(d.real(op.Lease), op.Reason))
	case "ackb", "nackb", "deadb":
		lb, ok := d.Store.(queue.LeaseBatchStore)
		if !ok {
			o.Err, o.ErrText = Other, "store is not a LeaseBatchStore"
			return o
		}
		ids := make([]string, len(op.Leases))
		for i, h := range op.Leases {
			ids[i] = d.real(h)
		}
		var res queue.LeaseBatchResult
		var err error
		switch op.Kind {
		case "ackb":
			res, err = lb.AckBatch(ids)
		case "nackb":
			res, err = lb.NackBatch(ids, op.Delay)
		default:
			res, err = lb.MarkDeadBatch(ids, op.Reason)
		}
		set(err)
		o.N = res.Succeeded
		for _, c := range res.Conflicts {
			o.Conflicts = append(o.Conflicts, Conflict{Lease: d.handleOf(c.LeaseID), Expired: c.Expired})
		}
	case "cancel":
		r, err := d.Store.CancelMessages(queue.MessageCancelRequest{IDs: op.IDs})
		set(err)
		o.N, o.Matched, o.Preview = r.Canceled, r.Matched, r.PreviewOnly
	case "requeue":
		r, err := d.Store.RequeueMessages(queue.MessageRequeueRequest{IDs: op.IDs})
		set(err)
		o.N, o.Matched, o.Preview = r.Requeued, r.Matched, r.PreviewOnly
	case "resume":
		r, err := d.Store.ResumeMessages(queue.MessageResumeRequest{IDs: op.IDs})
		set(err)
		o.N, o.Matched, o.Preview = r.Resumed, r.Matched, r.PreviewOnly
	case "rqdead":
		r, err := d.Store.RequeueDead(queue.DeadRequeueRequest{IDs: op.IDs})
		set(err)
		o.N = r.Requeued
	case "deldead":
		r, err := d.Store.DeleteDead(queue.DeadDeleteRequest{IDs: op.IDs})
		set(err)
		o.N = r.Deleted
	case "cancelf", "requeuef", "resumef":
		f := queue.MessageManageFilterRequest{Route: op.Filter.Route, Target: op.Filter.Target, State: queue.State(op.Filter.State),
			Limit: op.Filter.Limit, Before: T(op.Filter.Before), PreviewOnly: op.Filter.Preview}
		switch op.Kind {
		case "cancelf":
			r, err := d.Store.CancelMessagesByFilter(f)
			set(err)
			o.N, o.Matched, o.Preview = r.Canceled, r.Matched, r.PreviewOnly
		case "requeuef":
			r, err := d.Store.RequeueMessagesByFilter(f)
			set(err)
			o.N, o.Matched, o.Preview = r.Requeued, r.Matched, r.PreviewOnly
		default:
			r, err := d.Store.ResumeMessagesByFilter(f)
			set(err)
			o.N, o.Matched, o.Preview = r.Resumed, r.Matched, r.PreviewOnly
		}
	case "list":
		l := op.List
		r, err := d.Store.ListMessages(queue.MessageListRequest{Route: l.Route, Target: l.Target, State: queue.State(l.State), Order: l.Order,
			Limit: l.Limit, Before: T(l.Before), IncludePayload: true, IncludeHeaders: true, IncludeTrace: true})
		set(err)
		for _, e := range r.Items {
			o.Items = append(o.Items, FromEnvelope(e))
		}
	case "listdead":
		l := op.List
		r, err := d.Store.ListDead(queue.DeadListRequest{Route: l.Route, Limit: l.Limit, Before: T(l.Before), IncludePayload: true, IncludeHeaders: true, IncludeTrace: true})
		set(err)
		for _, e := range r.Items {
			o.Items = append(o.Items, FromEnvelope(e))
		}
	case "lookup":
		r, err := d.Store.LookupMessages(queue.MessageLookupRequest{IDs: op.IDs})
		set(err)
		for _, it := range r.Items {
			o.Items = append(o.Items, Msg{ID: it.ID, Route: it.Route, State: string(it.State)})
		}
	case "stats":
		st, err := d.Store.Stats()
		set(err)
		so := &StatsObs{Total: st.Total, ByState: map[string]int{}, OldestQueuedReceivedAt: ns(st.OldestQueuedReceivedAt),
			EarliestQueuedNextRun: ns(st.EarliestQueuedNextRun), OldestQueuedAge: st.OldestQueuedAge, ReadyLag: st.ReadyLag}
		for k, v := range st.ByState {
			so.ByState[string(k)] = v
		}
		for _, b := range st.TopQueued {
			so.Top = append(so.Top, Bucket{Route: b.Route, Target: b.Target, Queued: b.Queued, Oldest: ns(b.OldestQueuedReceivedAt),
				Earliest: ns(b.EarliestQueuedNextRun), OldestAge: b.OldestQueuedAge, ReadyLag: b.ReadyLag})
		}
		o.Stats = so
	default:
		o.Err, o.ErrText = Other, "driver: unknown op "+op.Kind
	}
	return o
}

// Handles returns the lease handles issued so far, sorted.
func (d *Driver) Handles() []string {
	out := make([]string, 0, len(d.handles))
	for h := range d.handles {
		out = append(out, h)
	}
	sort.Strings(out)
	return out
}
