// Package vnet replaces "net" in internal/app/run.go: Listen returns an
// in-memory listener (Accept blocks on a channel, connections are net.Pipe
// pairs), so the production startServers runs without sockets — also inside a
// testing/synctest bubble, where a real Accept would never be "durably
// blocked". Harnesses reach the servers through their http.Handler or, for
// gRPC, through Dial.
package vnet

import (
	"errors"
	"net"
	"sync"
)

type (
	Listener = net.Listener
	Conn     = net.Conn
	Addr     = net.Addr
	IP       = net.IP
	IPNet    = net.IPNet
	TCPAddr  = net.TCPAddr
	OpError  = net.OpError
	Error    = net.Error
)

var ErrClosed = net.ErrClosed

func SplitHostPort(hp string) (string, string, error) { return net.SplitHostPort(hp) }
func JoinHostPort(h, p string) string                 { return net.JoinHostPort(h, p) }
func ParseIP(s string) net.IP                         { return net.ParseIP(s) }
func ParseCIDR(s string) (net.IP, *net.IPNet, error)  { return net.ParseCIDR(s) }

type addr string

func (a addr) Network() string { return "mem" }
func (a addr) String() string  { return string(a) }

type memListener struct {
	a      addr
	conns  chan net.Conn
	closed chan struct{}
	once   sync.Once
}

var (
	mu        sync.Mutex
	listeners = map[string]*memListener{}
)

// Listen never fails except for an address that is already listening.
func Listen(network, address string) (net.Listener, error) {
	mu.Lock()
	defer mu.Unlock()
	if _, ok := listeners[address]; ok {
		return nil, &net.OpError{Op: "listen", Net: network, Err: errors.New("address already in use")}
	}
	l := &memListener{a: addr(address), conns: make(chan net.Conn), closed: make(chan struct{})}
	listeners[address] = l
	return l, nil
}

func (l *memListener) Accept() (net.Conn, error) {
	select {
	case c := <-l.conns:
		return c, nil
	case <-l.closed:
		return nil, net.ErrClosed
	}
}

func (l *memListener) Close() error {
	l.once.Do(func() {
		close(l.closed)
		mu.Lock()
		if listeners[string(l.a)] == l {
			delete(listeners, string(l.a))
		}
		mu.Unlock()
	})
	return nil
}

func (l *memListener) Addr() net.Addr { return l.a }

// Dial connects to an in-memory listener (harness side).
func Dial(address string) (net.Conn, error) {
	mu.Lock()
	l := listeners[address]
	mu.Unlock()
	if l == nil {
		return nil, &net.OpError{Op: "dial", Net: "mem", Err: errors.New("connection refused")}
	}
	c, s := net.Pipe()
	select {
	case l.conns <- s:
		return c, nil
	case <-l.closed:
		return nil, net.ErrClosed
	}
}

// Listening lists the addresses currently bound (leak check).
func Listening() []string {
	mu.Lock()
	defer mu.Unlock()
	out := make([]string, 0, len(listeners))
	for a := range listeners {
		out = append(out, a)
	}
	return out
}
