// Package qsys wraps one real queue backend (MemoryStore or SQLiteStore on a
// tmpfs file) behind the small interface the explicit-state search needs:
// reset to empty, replay a history, apply one operation, list, and a canonical
// key of the implementation state (rows + private fields + issued leases).
package qsys

import (
	"database/sql"
	"encoding/json"
	"fmt"
	"reflect"
	"unsafe"
	"os"
	"path/filepath"
	"sort"
	"strings"
	"time"

	_ "modernc.org/sqlite"

	"github.com/nuetzliches/hookaido/internal/queue"
	"github.com/nuetzliches/hookaido/internal/verifkit/dump"
	"github.com/nuetzliches/hookaido/internal/verifkit/qmodel"
)

// T0 is the fixed start of the harness clock.
var T0 = time.Date(2026, 1, 1, 0, 0, 0, 0, time.UTC).UnixNano()

type Sys struct {
	Backend string
	Cfg     qmodel.Config
	Clk     int64
	Store   queue.Store
	Drv     *qmodel.Driver
	dir     string
	path    string
	aux     *sql.DB
	resets  int
	// FastResets / Reopens count how the SQLite instance was reset (evidence).
	FastResets, Reopens int
}

func New(backend string, cfg qmodel.Config, dir string) *Sys {
	s := &Sys{Backend: backend, Cfg: cfg, dir: dir}
	s.Reset()
	return s
}

func (s *Sys) now() time.Time { return time.Unix(0, s.Clk).UTC() }

func (s *Sys) Close() {
	if c, ok := s.Store.(interface{ Close() error }); ok && s.Store != nil {
		c.Close()
	}
	if s.aux != nil {
		s.aux.Close()
		s.aux = nil
	}
	s.Store = nil
}

func policy(c qmodel.Config) string {
	if c.DropOldest {
		return "drop_oldest"
	}
	return "reject"
}

func (s *Sys) open() {
	c := s.Cfg
	switch s.Backend {
	case "memory":
		s.Store = queue.NewMemoryStore(
			queue.WithNowFunc(s.now),
			queue.WithQueueLimits(c.MaxDepth, policy(c)),
			queue.WithQueueRetention(c.RetentionMaxAge, c.PruneInterval),
			queue.WithDeliveredRetention(c.DeliveredMaxAge),
			queue.WithDLQRetention(c.DLQMaxAge, c.DLQMaxDepth),
		)
	case "sqlite":
		os.MkdirAll(s.dir, 0o755)
		s.path = filepath.Join(s.dir, "q.db")
		for _, suf := range []string{"", "-wal", "-shm"} {
			os.Remove(s.path + suf)
		}
		st, err := queue.NewSQLiteStore(s.path, s.sqliteOpts()...)
		if err != nil {
			panic(fmt.Sprintf("qsys: open sqlite: %v", err))
		}
		s.Store = st
		aux, err := sql.Open("sqlite", s.path)
		if err != nil {
			panic(err)
		}
		aux.SetMaxOpenConns(1)
		if _, err := aux.Exec("PRAGMA busy_timeout=5000;"); err != nil {
			panic(err)
		}
		s.aux = aux
		s.Reopens++
	default:
		panic("qsys: unknown backend " + s.Backend)
	}
}

func (s *Sys) sqliteOpts() []queue.SQLiteOption {
	c := s.Cfg
	return []queue.SQLiteOption{
		queue.WithSQLiteNowFunc(s.now),
		queue.WithSQLiteQueueLimits(c.MaxDepth, policy(c)),
		queue.WithSQLiteRetention(c.RetentionMaxAge, c.PruneInterval),
		queue.WithSQLiteDeliveredRetention(c.DeliveredMaxAge),
		queue.WithSQLiteDLQRetention(c.DLQMaxAge, c.DLQMaxDepth),
		queue.WithSQLiteCheckpointInterval(0),
	}
}

// reopen models a restart of the process on the same database file: the store is closed and opened again with the
// same options; the driver keeps its lease-handle table (the workers outside the process keep their lease ids).
func (s *Sys) reopen() *qmodel.Obs {
	if s.Backend != "sqlite" {
		return &qmodel.Obs{Err: qmodel.OK}
	}
	if c, ok := s.Store.(interface{ Close() error }); ok {
		c.Close()
	}
	st, err := queue.NewSQLiteStore(s.path, s.sqliteOpts()...)
	if err != nil {
		return &qmodel.Obs{Err: qmodel.Other, ErrText: "reopen: " + err.Error()}
	}
	s.Store = st
	s.Drv.Store = st
	s.Reopens++
	return &qmodel.Obs{Err: qmodel.OK}
}

// Reset returns the instance to "freshly opened, empty, clock T0".
func (s *Sys) Reset() {
	s.Clk = T0
	s.resets++
	if s.Backend == "sqlite" && s.Store != nil && s.resets%2000 != 0 {
		if s.fastReset() {
			s.Drv.Reset()
			s.FastResets++
			return
		}
	}
	s.Close()
	s.open()
	s.Drv = qmodel.NewDriver(s.Store, &s.Clk)
}

func (s *Sys) fastReset() bool {
	for _, q := range []string{"DELETE FROM queue_items;", "DELETE FROM delivery_attempts;", "DELETE FROM backlog_trend_samples;"} {
		if _, err := s.aux.Exec(q); err != nil {
			return false
		}
	}
	var q, l int
	if err := s.aux.QueryRow("SELECT queued, leased FROM queue_counters WHERE id=1").Scan(&q, &l); err != nil || q != 0 || l != 0 {
		return false
	}
	if !dump.SetField(s.Store, "lastPrune", time.Time{}) || !dump.SetField(s.Store, "lastLeaseSweepNanos", int64(0)) {
		return false
	}
	f := dump.Field(s.Store, "queueLikelyFull")
	st, ok := f.(interface{ Store(bool) })
	if !ok {
		return false
	}
	st.Store(false)
	if s.resets%500 == 0 {
		s.aux.Exec("PRAGMA wal_checkpoint(TRUNCATE);")
	}
	return true
}

// ForceReopen makes the next Reset open a fresh database (self-check of the fast reset).
func (s *Sys) ForceReopen() {
	s.Close()
}

func (s *Sys) Replay(hist []qmodel.Op) {
	for _, op := range hist {
		s.Do(op)
	}
}

func (s *Sys) Do(op qmodel.Op) *qmodel.Obs {
	if op.Kind == "reopen" {
		return s.reopen()
	}
	return s.Drv.Do(op)
}

func (s *Sys) Listing() []qmodel.Msg {
	l, err := s.Drv.Listing()
	if err != nil {
		panic(fmt.Sprintf("qsys: listing: %v", err))
	}
	return l
}

// Snapshot reads the stored messages without going through the Store API (no prune hook, no lock-step side
// effects): the memory store's id->envelope map is found by type, SQLite rows are read on the auxiliary connection.
func (s *Sys) Snapshot() []qmodel.Msg {
	out := []qmodel.Msg{}
	if s.Backend == "memory" {
		items := findEnvelopeMap(s.Store)
		for _, e := range items {
			m := qmodel.FromEnvelope(*e)
			m.Lease = s.rename(e.LeaseID)
			out = append(out, m)
		}
		sort.Slice(out, func(i, j int) bool { return out[i].ID < out[j].ID })
		return out
	}
	rows, err := s.aux.Query(`SELECT id, route, target, state, received_at, attempt, next_run_at, payload,
 headers_json, trace_json, schema_version, dead_reason, lease_id, lease_until FROM queue_items ORDER BY id`)
	if err != nil {
		panic(fmt.Sprintf("qsys: snapshot: %v", err))
	}
	defer rows.Close()
	for rows.Next() {
		var m qmodel.Msg
		var hj, tj, dead, lease sql.NullString
		var until sql.NullInt64
		if err := rows.Scan(&m.ID, &m.Route, &m.Target, &m.State, &m.ReceivedAt, &m.Attempt, &m.NextRunAt, &m.Payload, &hj, &tj, &m.SchemaVersion, &dead, &lease, &until); err != nil {
			panic(err)
		}
		m.Headers = jsonMap(hj)
		m.Trace = jsonMap(tj)
		if dead.Valid {
			m.DeadReason = dead.String
		}
		if lease.Valid {
			m.Lease = s.rename(lease.String)
		}
		if until.Valid {
			m.LeaseUntil = until.Int64
		}
		out = append(out, m)
	}
	return out
}

func jsonMap(in sql.NullString) map[string]string {
	if !in.Valid || strings.TrimSpace(in.String) == "" {
		return nil
	}
	var out map[string]string
	if err := json.Unmarshal([]byte(in.String), &out); err != nil {
		return map[string]string{"<invalid json>": in.String}
	}
	if len(out) == 0 {
		return nil
	}
	return out
}

func findEnvelopeMap(st any) map[string]*queue.Envelope {
	v := reflect.ValueOf(st).Elem()
	want := reflect.TypeOf(map[string]*queue.Envelope{})
	for i := 0; i < v.NumField(); i++ {
		f := v.Field(i)
		if f.Type() == want {
			f = reflect.NewAt(f.Type(), unsafe.Pointer(f.UnsafeAddr())).Elem()
			return f.Interface().(map[string]*queue.Envelope)
		}
	}
	panic("qsys: MemoryStore has no map[string]*Envelope field")
}

var skipFields = map[string]bool{
	"mu": true, "nowFn": true, "notify": true, "db": true, "metrics": true, "pruneMu": true,
	"checkpointStop": true, "checkpointDone": true, "checkpointInterval": true,
	"evictionsTotalByReason": true, "memoryPressureRejects": true, "pollInterval": true,
}

// Key is the canonical implementation state.
func (s *Sys) Key() string {
	var b strings.Builder
	fmt.Fprintf(&b, "clk=%d|", s.Clk-T0)
	b.WriteString(dump.Canonical(s.Store, dump.Options{Rename: s.rename, Skip: skipFields}))
	if s.Backend == "sqlite" {
		rows, err := s.aux.Query(`SELECT id, route, target, state, received_at, attempt, next_run_at, hex(payload),
 COALESCE(headers_json,'-'), COALESCE(trace_json,'-'), schema_version, COALESCE(dead_reason,'-'), COALESCE(lease_id,'-'), COALESCE(lease_until,0)
 FROM queue_items ORDER BY rowid`)
		if err != nil {
			panic(fmt.Sprintf("qsys: dump: %v", err))
		}
		for rows.Next() {
			var id, route, target, state, payload, hj, tj, dead, lease string
			var rcv, next, until int64
			var attempt, schema int
			if err := rows.Scan(&id, &route, &target, &state, &rcv, &attempt, &next, &payload, &hj, &tj, &schema, &dead, &lease, &until); err != nil {
				panic(err)
			}
			fmt.Fprintf(&b, "|%s,%s,%s,%s,%d,%d,%d,%s,%s,%s,%d,%s,%s,%d", id, route, target, state, rcv, attempt, next, payload, hj, tj, schema, dead, s.rename(lease), until)
		}
		rows.Close()
		var q, l int
		s.aux.QueryRow("SELECT queued, leased FROM queue_counters WHERE id=1").Scan(&q, &l)
		fmt.Fprintf(&b, "|ctr=%d,%d", q, l)
		var na int
		s.aux.QueryRow("SELECT COUNT(*) FROM delivery_attempts").Scan(&na)
		fmt.Fprintf(&b, "|att=%d", na)
	}
	b.WriteString("|h=")
	b.WriteString(strings.Join(s.Drv.Handles(), ","))
	return b.String()
}

func (s *Sys) rename(x string) string {
	if strings.HasPrefix(x, "lease_") {
		return s.Drv.HandleOf(x)
	}
	return x
}

// Counters reads the trigger-maintained SQLite counters next to the real counts (invariant used by several checks).
func (s *Sys) Counters() (ctrQueued, ctrLeased, realQueued, realLeased int, ok bool) {
	if s.Backend != "sqlite" {
		return 0, 0, 0, 0, false
	}
	s.aux.QueryRow("SELECT queued, leased FROM queue_counters WHERE id=1").Scan(&ctrQueued, &ctrLeased)
	s.aux.QueryRow("SELECT COUNT(*) FROM queue_items WHERE state='queued'").Scan(&realQueued)
	s.aux.QueryRow("SELECT COUNT(*) FROM queue_items WHERE state='leased'").Scan(&realLeased)
	return ctrQueued, ctrLeased, realQueued, realLeased, true
}

// SortedKeys helper for evidence.
func SortedKeys[V any](m map[string]V) []string {
	ks := make([]string, 0, len(m))
	for k := range m {
		ks = append(ks, k)
	}
	sort.Strings(ks)
	return ks
}
