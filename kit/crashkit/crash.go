package crashkit

import (
	"bufio"
	"database/sql"
	"encoding/base64"
	"encoding/json"
	"fmt"
	"net/http"
	"net/http/httptest"
	"os"
	"os/exec"
	"path/filepath"
	"sort"
	"strconv"
	"strings"
	"sync"
	"syscall"
	"testing"
	"time"

	_ "modernc.org/sqlite"

	"github.com/nuetzliches/hookaido/internal/app"
	"github.com/nuetzliches/hookaido/internal/queue"
	"github.com/nuetzliches/hookaido/internal/verifkit/runner"
	"github.com/nuetzliches/hookaido/internal/verifkit/sched"
	"github.com/nuetzliches/hookaido/internal/verifkit/verifcrash"
	"github.com/nuetzliches/hookaido/internal/verifkit/verifcrashlibc"
)

var scripts = map[string]func() []step{"app": scriptApp, "wal": scriptWAL, "lease": scriptLease, "limits": scriptLimits}

// ---- child: runs the scripted history and dies at the configured crash point -------------------------------

func runChild(scn string) {
	verifcrash.Init()
	verifcrashlibc.Install()
	dir := os.Getenv("VERIF_CRASH_DIR")
	armEarly := os.Getenv("VERIF_CRASH_ARM_EARLY") != "" // scenario "open": crash points inside open + migrate
	if armEarly {
		verifcrash.Arm()
	}
	a, err := app.VerifBoot(app.VerifBootOptions{Dir: dir, ConfigText: configTextFor(scn, 18080)})
	if err != nil {
		fmt.Fprintln(os.Stderr, "child boot:", err)
		os.Exit(4)
	}
	steps := scriptFor(scn)
	cs := &childState{a: a, used: map[int]bool{}}
	verifcrash.Arm()
	for i, st := range steps {
		cs.do(i, st)
	}
	verifcrash.Disarm()
	verifcrash.Log(fmt.Sprintf("DONE %d", verifcrash.Count()))
	if os.Getenv("VERIF_CRASH_LABELS") != "" {
		verifcrash.Log("LABELS " + strings.Join(verifcrash.Labels(), ","))
	}
	os.Exit(0) // no orderly shutdown: even the "clean" run abandons the database like a killed process
}


// childState is what one scripted client remembers between its steps.
type childState struct {
	a      *app.VerifApp
	leases []leaseRef
	used   map[int]bool
	onAck  func(i, code int) // optional observer (concurrent scenarios log outcomes)
	// advance moves the virtual clock (concurrent scenarios run in a bubble; the step is a scheduling choice)
	advance func(d time.Duration)
}

// do performs step i of the history through the real handlers and writes START/ACK/BODY/SKIP lines to the side log.
// progress: which steps have started / been acknowledged so far (explore mode of the concurrent scenarios: part of the
// equivalence key of a crash point - the admissible outcomes depend on it).
var progress []string

func (cs *childState) do(i int, st step) {
	a := cs.a
	verifcrash.Log(fmt.Sprintf("START %d", i))
	progress = append(progress, fmt.Sprintf("S%d", i))
	w := &ackWriter{ResponseRecorder: httptest.NewRecorder(), onAck: func(code int) {
		verifcrash.Log(fmt.Sprintf("ACK %d %d", i, code))
		progress = append(progress, fmt.Sprintf("A%d=%d", i, code))
		if cs.onAck != nil {
			cs.onAck(i, code)
		}
	}}
	lease := func(ix int) (string, bool) {
		if ix < 0 {
			for j := range cs.leases {
				if !cs.used[j] {
					ix = j
					break
				}
			}
			if ix < 0 {
				return "", false
			}
		}
		if ix >= len(cs.leases) {
			return "", false
		}
		cs.used[ix] = true
		return cs.leases[ix].Lease, true
	}
	pull := func(op string, body any) {
		b, _ := json.Marshal(body)
		a.Pull.ServeHTTP(w, rawPost("/e/"+op, "Authorization: Bearer g1\nContent-Type: application/json", b))
	}
	switch st.Kind {
	case "ingress":
		a.Ingress.ServeHTTP(w, rawPost(st.Route, "X-Req: "+st.Payload, []byte(st.Payload)))
	case "publish":
		a.Admin.ServeHTTP(w, rawPost("/messages/publish", "X-Hookaido-Audit-Reason: verif\nContent-Type: application/json", publishBody(st.Items)))
	case "dequeue":
		pull("dequeue", map[string]any{"batch": st.Batch, "lease_ttl": "20m"})
		var db dequeueBody
		if json.Unmarshal(w.Body.Bytes(), &db) == nil {
			for _, it := range db.Items {
				p, _ := base64.StdEncoding.DecodeString(it.PayloadB64)
				cs.leases = append(cs.leases, leaseRef{ID: it.ID, Lease: it.LeaseID, Route: it.Route, Payload: p, Attempt: it.Attempt})
			}
			verifcrash.Log(fmt.Sprintf("BODY %d %s", i, strings.TrimSpace(w.Body.String())))
		}
	case "ack", "nack", "nackdead", "extend":
		l, ok := lease(st.Lease)
		if !ok && st.Lease < 0 {
			verifcrash.Log(fmt.Sprintf("SKIP %d", i))
			return
		}
		if !ok {
			verifcrash.Log(fmt.Sprintf("SCRIPT-ERROR %d lease index %d not available", i, st.Lease))
			os.Exit(5)
		}
		switch st.Kind {
		case "ack":
			pull("ack", map[string]any{"lease_id": l})
		case "nack":
			pull("nack", map[string]any{"lease_id": l, "delay": st.Delay})
		case "extend":
			pull("extend", map[string]any{"lease_id": l, "extend_by": "10s"})
		default:
			pull("nack", map[string]any{"lease_id": l, "dead": true, "reason": "boom"})
		}
	case "ackbatch":
		var ids []string
		for _, ix := range st.Leases {
			l, ok := lease(ix)
			if !ok {
				verifcrash.Log(fmt.Sprintf("SCRIPT-ERROR %d lease index %d not available", i, ix))
				os.Exit(5)
			}
			ids = append(ids, l)
		}
		pull("ack", map[string]any{"lease_ids": ids})
	case "checkpoint":
		if s, ok := a.Store.(*queue.SQLiteStore); ok {
			queue.VerifCheckpoint(s)
		}
		verifcrash.Log(fmt.Sprintf("ACK %d 0", i))
	case "clock":
		if cs.advance != nil {
			d, _ := time.ParseDuration(st.Delay)
			cs.advance(d)
		}
		verifcrash.Log(fmt.Sprintf("ACK %d 0", i))
	}
}

// ---- parent -----------------------------------------------------------------------------------------

type event struct {
	skipped bool
	started bool
	ack     int // 0 = none
	acked   bool
	body    string
}

func parseLog(path string, n int) ([]event, int, string) {
	evs := make([]event, n)
	done := -1
	labels := ""
	f, err := os.Open(path)
	if err != nil {
		return evs, done, labels
	}
	defer f.Close()
	sc := bufio.NewScanner(f)
	sc.Buffer(make([]byte, 1<<20), 1<<24)
	for sc.Scan() {
		fs := strings.SplitN(sc.Text(), " ", 3)
		if len(fs) < 2 {
			continue
		}
		i, _ := strconv.Atoi(fs[1])
		switch fs[0] {
		case "START":
			evs[i].started = true
		case "ACK":
			evs[i].acked = true
			if len(fs) > 2 {
				evs[i].ack, _ = strconv.Atoi(fs[2])
			}
		case "BODY":
			if len(fs) > 2 {
				evs[i].body = fs[2]
			}
		case "SKIP":
			evs[i].skipped = true
		case "DONE":
			done = i
		case "LABELS":
			labels = strings.TrimPrefix(sc.Text(), "LABELS ")
		}
	}
	return evs, done, labels
}

// msg is the expected state of one message in one admissible world.
type msg struct {
	Key, Route, Target string
	Payload            string
	ID                 string // known for published messages and after the first dequeue
	State              string
	Attempt            int
	Hdr                [2]string // a header that must be stored with the message
}

type world map[string]*msg

func (w world) clone() world {
	c := world{}
	for k, v := range w {
		m := *v
		c[k] = &m
	}
	return c
}

func ingressKey(route, target, payload string) string { return route + "|" + target + "|" + payload }

// admissible computes every world the property allows for the recorded log: acknowledged operations applied
// exactly, the one started-but-unacknowledged operation applied, not applied, or (fan-out ingress only) applied
// for a prefix of its targets; operations that never started not applied.
func admissible(steps []step, evs []event) ([]world, string) {
	worlds := []world{{}}
	var leases []string // message key per lease index, in order of appearance
	usedLease := map[int]bool{}
	applyDequeue := func(w world, body string) ([]string, string) {
		var db dequeueBody
		if err := json.Unmarshal([]byte(body), &db); err != nil {
			return nil, "dequeue body does not parse: " + err.Error()
		}
		var keys []string
		for _, it := range db.Items {
			p, _ := base64.StdEncoding.DecodeString(it.PayloadB64)
			var m *msg
			if x, ok := w["id:"+it.ID]; ok {
				m = x
			} else if x, ok := w[ingressKey(it.Route, "pull", string(p))]; ok {
				m = x
			}
			if m == nil {
				return nil, fmt.Sprintf("dequeue returned a message nobody sent (id %s route %s payload %q)", it.ID, it.Route, p)
			}
			if m.Payload != string(p) {
				return nil, fmt.Sprintf("dequeue returned %s with payload %q, want %q", m.Key, p, m.Payload)
			}
			m.State, m.Attempt, m.ID = "leased", it.Attempt, it.ID
			keys = append(keys, m.Key)
		}
		return keys, ""
	}
	stopped := map[int]bool{} // per client: its history ends at its first operation that never started or is in flight
	// application order: everything that only adds messages first (whoever sent them), then the operations that refer
	// to messages by what a dequeue returned; within each group the clients' own orders are kept. For a sequential
	// history the result is the same as applying the steps in order, because a dequeue names what it returned.
	var order []int
	for pass := 0; pass < 2; pass++ {
		for i, st := range steps {
			producer := st.Kind == "ingress" || st.Kind == "publish" || st.Kind == "clock" || st.Kind == "checkpoint"
			if producer == (pass == 0) {
				order = append(order, i)
			}
		}
	}
	// a client's later steps never started once one of its steps did not start or is in flight; that must be known
	// before the reordered application looks at them
	for i, st := range steps {
		ev := evs[i]
		if stopped[st.Thread] {
			evs[i].started = false
			continue
		}
		if !ev.started {
			stopped[st.Thread] = true
			continue
		}
		if !ev.skipped && (!ev.acked || (st.Kind == "dequeue" && ev.body == "")) {
			stopped[st.Thread] = true
		}
	}
	stopped = map[int]bool{}
	for _, i := range order {
		st := steps[i]
		ev := evs[i]
		if !ev.started {
			continue
		}
		if ev.skipped {
			continue
		}
		inflight := !ev.acked || (st.Kind == "dequeue" && ev.body == "")
		var next []world
		dequeueWhy := ""
		for _, w := range worlds {
			switch st.Kind {
			case "checkpoint", "clock":
				next = append(next, w)
			case "ingress":
				full := w.clone()
				prefixes := []world{}
				for k := 0; k <= len(st.Targets); k++ {
					p := w.clone()
					for _, t := range st.Targets[:k] {
						key := ingressKey(st.Route, t, st.Payload)
						p[key] = &msg{Key: key, Route: st.Route, Target: t, Payload: st.Payload, State: "queued", Hdr: [2]string{"X-Req", st.Payload}}
					}
					prefixes = append(prefixes, p)
					full = p
				}
				switch {
				case inflight:
					next = append(next, prefixes...)
				case ev.ack == http.StatusAccepted:
					next = append(next, full)
				default:
					// refused (e.g. 503): copies for earlier targets may stay (C12), nothing else
					next = append(next, prefixes[:len(prefixes)-1]...)
				}
			case "publish":
				all := w.clone()
				for _, it := range st.Items {
					key := "id:" + it.ID
					all[key] = &msg{Key: key, Route: it.Route, Target: "pull", Payload: it.Payload, ID: it.ID, State: "queued", Hdr: [2]string{"X-Pub", it.ID}}
				}
				switch {
				case inflight:
					next = append(next, w, all)
				case ev.ack == http.StatusOK:
					next = append(next, all)
				default:
					next = append(next, w)
				}
			case "dequeue":
				if !inflight {
					c := w.clone()
					_, why := applyDequeue(c, ev.body)
					if why != "" {
						// with concurrent clients a world in which another client's in-flight enqueue was not applied
						// cannot explain a dequeue that returned its message: that world is ruled out, not the run
						dequeueWhy = why
						continue
					}
					next = append(next, c)
					continue
				}
				// unacknowledged dequeue: any set of at most Batch ready pull messages may have been leased
				var ready []string
				for k, m := range w {
					if m.State == "queued" && m.Route == "/p" {
						ready = append(ready, k)
					}
				}
				sort.Strings(ready)
				for mask := 0; mask < 1<<len(ready); mask++ {
					c := w.clone()
					n := 0
					for j, k := range ready {
						if mask&(1<<j) != 0 {
							c[k].State = "leased"
							c[k].Attempt++
							n++
						}
					}
					if n <= st.Batch {
						next = append(next, c)
					}
				}
			case "extend":
				next = append(next, w) // an extension moves lease_until only; state and attempt stay
			case "ack", "nack", "nackdead", "ackbatch":
				idx := st.Leases
				if st.Kind != "ackbatch" {
					lx := st.Lease
					if lx < 0 {
						for j := range leases {
							if !usedLease[j] {
								lx = j
								break
							}
						}
					}
					if lx < 0 {
						return nil, fmt.Sprintf("step %d ran although no unused lease existed", i)
					}
					idx = []int{lx}
				}
				applied := w.clone()
				for _, ix := range idx {
					if ix >= len(leases) {
						return nil, fmt.Sprintf("step %d uses lease %d which no acknowledged dequeue returned", i, ix)
					}
					m := applied[leases[ix]]
					if m == nil {
						continue
					}
					switch st.Kind {
					case "ack", "ackbatch":
						delete(applied, leases[ix])
					case "nack":
						m.State = "queued"
					case "nackdead":
						m.State = "dead"
					}
				}
				ok := ev.ack == http.StatusNoContent || ev.ack == http.StatusOK
				switch {
				case inflight:
					next = append(next, w, applied)
				case ok:
					next = append(next, applied)
				default:
					next = append(next, w)
				}
			}
		}
		if len(next) == 0 {
			if dequeueWhy != "" {
				return nil, dequeueWhy
			}
			return nil, fmt.Sprintf("no admissible outcome left after step %d (%s)", i, st.Kind)
		}
		// lease bookkeeping is identical in all worlds (it comes from the acknowledged dequeue bodies)
		if st.Kind == "dequeue" && !inflight {
			var db dequeueBody
			json.Unmarshal([]byte(ev.body), &db)
			for _, it := range db.Items {
				p, _ := base64.StdEncoding.DecodeString(it.PayloadB64)
				if _, ok := next[0]["id:"+it.ID]; ok {
					leases = append(leases, "id:"+it.ID)
				} else {
					leases = append(leases, ingressKey(it.Route, "pull", string(p)))
				}
			}
		}
		switch st.Kind {
		case "ack", "nack", "nackdead", "extend":
			lx := st.Lease
			if lx < 0 {
				for j := range leases {
					if !usedLease[j] {
						lx = j
						break
					}
				}
			}
			if lx >= 0 {
				usedLease[lx] = true
			}
		}
		worlds = next
	}
	return worlds, ""
}

type row struct {
	ID, Route, Target, State string
	Attempt                  int
	Payload                  []byte
	Headers                  map[string]string
}

func readRows(dbPath string) ([]row, string) {
	db, err := sql.Open("sqlite", dbPath)
	if err != nil {
		return nil, "open: " + err.Error()
	}
	defer db.Close()
	var integ string
	if err := db.QueryRow("PRAGMA integrity_check").Scan(&integ); err != nil || integ != "ok" {
		return nil, fmt.Sprintf("integrity_check = %q %v", integ, err)
	}
	var cq, cl, rq, rl int
	db.QueryRow("SELECT queued, leased FROM queue_counters WHERE id=1").Scan(&cq, &cl)
	db.QueryRow("SELECT COUNT(*) FROM queue_items WHERE state='queued'").Scan(&rq)
	db.QueryRow("SELECT COUNT(*) FROM queue_items WHERE state='leased'").Scan(&rl)
	if cq != rq || cl != rl {
		return nil, fmt.Sprintf("queue_counters (queued=%d leased=%d) differ from the real counts (%d, %d)", cq, cl, rq, rl)
	}
	rs, err := db.Query("SELECT id, route, target, state, attempt, payload, COALESCE(headers_json,'') FROM queue_items ORDER BY rowid")
	if err != nil {
		return nil, "select: " + err.Error()
	}
	defer rs.Close()
	var out []row
	for rs.Next() {
		var r row
		var hj string
		if err := rs.Scan(&r.ID, &r.Route, &r.Target, &r.State, &r.Attempt, &r.Payload, &hj); err != nil {
			return nil, "scan: " + err.Error()
		}
		if hj != "" {
			if err := json.Unmarshal([]byte(hj), &r.Headers); err != nil {
				return nil, fmt.Sprintf("half-written message %s: headers_json does not parse", r.ID)
			}
		}
		out = append(out, r)
	}
	return out, ""
}

func rowKey(r row, w world) string {
	if _, ok := w["id:"+r.ID]; ok {
		return "id:" + r.ID
	}
	return ingressKey(r.Route, r.Target, string(r.Payload))
}

func matches(rows []row, w world) string {
	seen := map[string]bool{}
	for _, r := range rows {
		k := rowKey(r, w)
		m := w[k]
		if m == nil {
			return fmt.Sprintf("stored message %s (%s %s %q %s) is not expected", r.ID, r.Route, r.Target, r.Payload, r.State)
		}
		if seen[k] {
			return fmt.Sprintf("message %s stored twice", k)
		}
		seen[k] = true
		if m.Route != r.Route || m.Target != r.Target || m.Payload != string(r.Payload) {
			return fmt.Sprintf("message %s has fields of another request (%s %s %q)", k, r.Route, r.Target, r.Payload)
		}
		if m.State != r.State || m.Attempt != r.Attempt {
			return fmt.Sprintf("message %s is %s/attempt %d, expected %s/attempt %d", k, r.State, r.Attempt, m.State, m.Attempt)
		}
		if m.Hdr[0] != "" && r.Headers[m.Hdr[0]] != m.Hdr[1] {
			return fmt.Sprintf("message %s lost header %s", k, m.Hdr[0])
		}
	}
	for k := range w {
		if !seen[k] {
			return fmt.Sprintf("message %s is missing", k)
		}
	}
	return ""
}

// judge recovers the database the dead child left behind through the production boot path and checks it.
func judge(dir string, steps []step, evs []event, portBase int) string {
	return judgeScn("", dir, steps, evs, portBase)
}

func judgeScn(scn, dir string, steps []step, evs []event, portBase int) string {
	worlds, why := admissible(steps, evs)
	if why != "" {
		return why
	}
	a, err := app.VerifBoot(app.VerifBootOptions{Dir: dir, ConfigText: configTextFor(scn, portBase)})
	if err != nil {
		return "queue refuses to open after the crash: " + err.Error()
	}
	rows, why := readRows(filepath.Join(dir, "hookaido.db"))
	if why != "" {
		a.Shutdown()
		return why
	}
	var matched world
	first := ""
	for _, w := range worlds {
		d := matches(rows, w)
		if d == "" {
			matched = w
			break
		}
		if first == "" {
			first = d
		}
	}
	if matched == nil {
		a.Shutdown()
		return fmt.Sprintf("contents after restart match none of the %d admissible outcomes (e.g. %s); rows: %s", len(worlds), first, rowsText(rows))
	}
	// a lease that was acknowledged to a worker before the crash is still that worker's lease after the restart: right
	// now (the leases of the history run 20 minutes) no leased message may be offered to anybody else. This is looked at
	// on a COPY of the directory (second restart), because handing out leases here would change what the restarted
	// store knows about outstanding leases before the redelivery check below.
	{
		dir2 := dir + "-now"
		os.RemoveAll(dir2)
		if err := copyDir(dir, dir2); err == nil {
			a.Shutdown() // the copy was taken from a quiescent directory; boot the original again below
			if a2, err := app.VerifBoot(app.VerifBootOptions{Dir: dir2, ConfigText: configTextFor(scn, portBase)}); err == nil {
				for _, rt := range [][2]string{{"/p", "pull"}, {"/f", fanTargets[0]}, {"/f", fanTargets[1]}} {
					resp, err := a2.Store.Dequeue(queue.DequeueRequest{Route: rt[0], Target: rt[1], Batch: 100, LeaseTTL: time.Second})
					if err != nil {
						a2.Shutdown()
						return "dequeue after restart failed: " + err.Error()
					}
					for _, e := range resp.Items {
						k := rowKey(row{ID: e.ID, Route: e.Route, Target: e.Target, Payload: e.Payload}, matched)
						if m := matched[k]; m != nil && m.State == "leased" {
							a2.Shutdown()
							return fmt.Sprintf("message %s is leased to a worker (unexpired) but was offered again right after the restart", k)
						}
					}
				}
				a2.Shutdown()
			}
			os.RemoveAll(dir2)
			a, err = app.VerifBoot(app.VerifBootOptions{Dir: dir, ConfigText: configTextFor(scn, portBase)})
			if err != nil {
				return "queue refuses to open a second time after the crash: " + err.Error()
			}
		}
	}
	// an idle poll while the old leases are still running (a consumer asking for a target nobody uses): it hands out
	// nothing, but whatever the store decides to remember about "nothing to sweep" must not survive the lease expiry
	if _, err := a.Store.Dequeue(queue.DequeueRequest{Route: "/p", Target: "verif-no-such-target", Batch: 1, LeaseTTL: time.Second}); err != nil {
		a.Shutdown()
		return "idle dequeue after restart failed: " + err.Error()
	}
	// offered for delivery again: once every lease has expired each unsettled message is dequeued exactly once
	future := time.Now().Add(2 * time.Hour)
	got := map[string]int{}
	for _, rt := range [][2]string{{"/p", "pull"}, {"/f", fanTargets[0]}, {"/f", fanTargets[1]}} {
		resp, err := a.Store.Dequeue(queue.DequeueRequest{Route: rt[0], Target: rt[1], Batch: 100, Now: future, LeaseTTL: time.Second})
		if err != nil {
			a.Shutdown()
			return "dequeue after restart failed: " + err.Error()
		}
		for _, e := range resp.Items {
			k := rowKey(row{ID: e.ID, Route: e.Route, Target: e.Target, Payload: e.Payload}, matched)
			got[k]++
			m := matched[k]
			if m == nil || m.Payload != string(e.Payload) || (m.Hdr[0] != "" && e.Headers[m.Hdr[0]] != m.Hdr[1]) {
				a.Shutdown()
				return fmt.Sprintf("redelivery after restart returned %s with altered content", k)
			}
		}
	}
	a.Shutdown()
	for k, m := range matched {
		want := 1
		if m.State == "dead" {
			want = 0
		}
		if got[k] != want {
			return fmt.Sprintf("message %s (%s) was offered %d time(s) after restart and lease expiry, want %d", k, m.State, got[k], want)
		}
	}
	return ""
}

func copyDir(src, dst string) error {
	if err := os.MkdirAll(dst, 0o755); err != nil {
		return err
	}
	ents, err := os.ReadDir(src)
	if err != nil {
		return err
	}
	for _, e := range ents {
		if e.IsDir() {
			continue
		}
		b, err := os.ReadFile(filepath.Join(src, e.Name()))
		if err != nil {
			return err
		}
		if err := os.WriteFile(filepath.Join(dst, e.Name()), b, 0o644); err != nil {
			return err
		}
	}
	return nil
}

func rowsText(rows []row) string {
	var s []string
	for _, r := range rows {
		s = append(s, fmt.Sprintf("%s|%s|%q|%s|%d", r.Route, r.Target, r.Payload, r.State, r.Attempt))
	}
	return strings.Join(s, " ; ")
}

func spawn(scn, dir string, at int, extra ...string) (killed bool, out string, err error) {
	return spawnT(scn, dir, at, 4*time.Minute, extra...)
}

func spawnT(scn, dir string, at int, limit time.Duration, extra ...string) (killed bool, out string, err error) {
	os.RemoveAll(dir)
	os.MkdirAll(dir, 0o755)
	cmd := exec.Command(os.Args[0], "-test.run", "^TestCheck$", "-test.timeout", "0")
	cmd.Env = append(os.Environ(), "VERIF_CRASH_CHILD="+scn, "VERIF_CRASH_DIR="+dir, fmt.Sprintf("VERIF_CRASH_AT=%d", at), "VERIF_CRASH_LOG="+filepath.Join(dir, "side.log"))
	cmd.Env = append(cmd.Env, extra...)
	var buf strings.Builder
	cmd.Stdout, cmd.Stderr = &buf, &buf
	done := make(chan error, 1)
	if err := cmd.Start(); err != nil {
		return false, "", err
	}
	go func() { done <- cmd.Wait() }()
	select {
	case e := <-done:
		if e == nil {
			return false, buf.String(), nil
		}
		if ee, ok := e.(*exec.ExitError); ok {
			if ws, ok := ee.Sys().(syscall.WaitStatus); ok && ws.Signaled() && ws.Signal() == syscall.SIGKILL {
				return true, buf.String(), nil
			}
		}
		return false, buf.String(), e
	case <-time.After(limit):
		cmd.Process.Kill()
		return false, buf.String(), fmt.Errorf("child hung")
	}
}

// Scenario names a script and whether crash points inside open+migrate are included.
type Scenario struct {
	Name, Script string
	ArmEarly     bool
}

// MaybeChild must be called first in TestCheck: in a crash child it runs the script and never returns.
func MaybeChild() {
	if scn := os.Getenv("VERIF_CRASH_CHILD"); scn != "" {
		runChild(scn)
	}
}

// MaybeChildT is MaybeChild for harnesses that also use concurrent scenarios (their children need the *testing.T
// for the scheduler's bubble).
func MaybeChildT(t *testing.T) {
	if scn := os.Getenv("VERIF_CRASH_CHILD"); strings.HasPrefix(scn, "conc:") {
		runConcChild(t, strings.TrimPrefix(scn, "conc:"))
	}
	MaybeChild()
}

type concSchedule struct {
	Schedule []int
	K        int
	Outcome  string
	// Points: the crash points of this schedule that are not equivalent to one already listed: two crash points are
	// equivalent when the file mutations performed so far (syscall, descriptor, offset, bytes) and the sets of steps
	// started and acknowledged are the same - the crash then leaves the same files and the same admissible outcomes.
	Points []int
	Keys   []string // equivalence key of each listed point (the parent de-duplicates between explore shards)
}

// runConcChild: mode "explore" enumerates the schedules of the concurrent scenario (no crash) and writes them with
// their number of crash points; mode "run" replays one schedule and dies at the configured crash point.
func runConcChild(t *testing.T, name string) {
	verifcrash.Init()
	verifcrashlibc.Install()
	dir := os.Getenv("VERIF_CRASH_DIR")
	steps, off := concSteps(name)
	threads := concScripts[name]()
	mode := os.Getenv("VERIF_CRASH_MODE")
	execN := 0
	var hitAt []int     // explore mode: number of scheduled operations before each crash point of the current execution
	var hitKey []string // explore mode: equivalence key of each crash point (files written so far + steps started/acknowledged)
	body := func(x *sched.Exec) {
		if ns, err := strconv.ParseInt(os.Getenv("VERIF_CRASH_NOW"), 10, 64); err == nil {
			// the bubble's clock starts in the year 2000; move it to the parent's present so that the restarted
			// process (real clock) does not see the stored messages as older than the retention limits
			if d := time.Unix(0, ns).Sub(time.Now()); d > 0 {
				time.Sleep(d)
			}
		}
		hitAt = hitAt[:0]
		hitKey = hitKey[:0]
		progress = progress[:0]
		if mode == "explore" {
			verifcrash.TrackSig = true
			verifcrash.Who = sched.CurrentThread
			verifcrash.OnHit = func(n int) {
				hitAt = append(hitAt, len(x.Trace))
				p := append([]string{}, progress...)
				sort.Strings(p)
				hitKey = append(hitKey, fmt.Sprintf("%x|%s", verifcrash.Sig(), strings.Join(p, ",")))
			}
		}
		d := dir
		if mode == "explore" {
			execN++
			d = filepath.Join(dir, "x")
			os.RemoveAll(d)
			os.MkdirAll(d, 0o755)
		}
		a, err := app.VerifBoot(app.VerifBootOptions{Dir: d, ConfigText: configText(18080)})
		if err != nil {
			x.Err = fmt.Errorf("child boot: %w", err)
			return
		}
		if s, ok := a.Store.(*queue.SQLiteStore); ok {
			for _, l := range queue.VerifSilentLocks(s) {
				x.Silence(l)
			}
		}
		verifcrash.Reset()
		verifcrash.Arm()
		for ti := range threads {
			ti := ti
			x.Go(fmt.Sprintf("client%d", ti), func() {
				cs := &childState{a: a, used: map[int]bool{}, onAck: func(i, code int) { x.Logf("%d:%s=%d", i, steps[i].Kind, code) },
					advance: func(d time.Duration) { x.Advance(d) }}
				for j, st := range threads[ti] {
					cs.do(off[ti]+j, st)
				}
			})
		}
		x.Run()
		x.Finish()
		// one more crash point AFTER every client finished: death right after the last acknowledgement (an answer is only
		// judged at a crash point that follows it, and the last operation of a scenario has no file mutation behind it)
		verifcrash.Point("end-of-scenario")
		verifcrash.Disarm()
		if mode == "explore" {
			x.Logf("K=%d", verifcrash.Count())
			a.Shutdown()
		}
	}
	if mode == "explore" {
		var out []concSchedule
		seenPrefix := map[string]bool{}
		bound, _ := strconv.Atoi(os.Getenv("VERIF_CRASH_BOUND"))
		opt := sched.Options{Name: name, Bound: bound, Sleep: bound < 0, OnExecution: func(x *sched.Exec) {
			sch := make([]int, len(x.Trace))
			for i, p := range x.Trace {
				sch[i] = p.Chosen
			}
			k := 0
			for _, l := range x.Log {
				fmt.Sscanf(l, "K=%d", &k)
			}
			// per shard: only crash points whose key this shard has not seen (the parent removes the duplicates
			// between shards)
			var pts []int
			var keys []string
			for n := range hitAt {
				key := hitKey[n]
				if !seenPrefix[key] {
					seenPrefix[key] = true
					pts = append(pts, n+1)
					keys = append(keys, key)
				}
			}
			out = append(out, concSchedule{Schedule: sch, K: k, Outcome: strings.Join(x.Log, " "), Points: pts, Keys: keys})
		}}
		opt.Shard, opt.Shards = sched.ShardFromEnv()
		if dl := os.Getenv("VERIF_CRASH_EXPLORE_DEADLINE"); dl != "" {
			if ns, err := strconv.ParseInt(dl, 10, 64); err == nil {
				opt.Deadline = time.Unix(0, ns)
			}
		}
		res := sched.Explore(t, opt, body)
		if res.InfraErr != nil {
			fmt.Fprintln(os.Stderr, "conc explore:", res.InfraErr)
			os.Exit(4)
		}
		if res.Failure != nil {
			fmt.Fprintln(os.Stderr, "conc explore: deadlock:", res.Failure.Message, res.Failure.Trace)
			os.Exit(4)
		}
		b, _ := json.Marshal(map[string]any{"schedules": out, "exhaustive": res.Exhaustive, "executions": res.Executions, "cut": res.SleepCut})
		os.WriteFile(os.Getenv("VERIF_CRASH_SCHEDULES_OUT"), b, 0o644)
		os.Exit(0)
	}
	var schedule []int
	json.Unmarshal([]byte(os.Getenv("VERIF_CRASH_SCHEDULE")), &schedule)
	res := sched.Explore(t, sched.Options{Name: name, Bound: -1, Replay: schedule, Once: true}, body)
	if res.InfraErr != nil {
		fmt.Fprintln(os.Stderr, "conc run:", res.InfraErr)
		os.Exit(4)
	}
	verifcrash.Log(fmt.Sprintf("DONE %d", verifcrash.Count()))
	os.Exit(0)
}

// EnumerateConc: for every schedule of the concurrent scenario (preemption bound, or unbounded under sleep sets when
// bound < 0) and every crash point of that schedule, kill the child there and judge the restart.
func EnumerateConc(r *runner.Run, name string, bound int, budget time.Duration) {
	scratch := runner.Scratch()
	steps, _ := concSteps(name)
	deadline := time.Now().Add(budget)
	nowEnv := fmt.Sprintf("VERIF_CRASH_NOW=%d", time.Now().UnixNano())
	var doc struct {
		Schedules  []concSchedule
		Exhaustive bool
		Executions int
		Cut        int
	}
	doc.Exhaustive = true
	{
		// schedule enumeration, split over processes (subtrees of the schedule tree are dealt round-robin)
		const xshards = 8
		type part struct {
			Schedules  []concSchedule
			Exhaustive bool
			Executions int
			Cut        int
		}
		parts := make([]part, xshards)
		errs := make([]string, xshards)
		var xwg sync.WaitGroup
		dl := time.Now().Add(budget / 2).UnixNano()
		for i := 0; i < xshards; i++ {
			xwg.Add(1)
			go func(i int) {
				defer xwg.Done()
				d := filepath.Join(scratch, fmt.Sprintf("conc-%s-explore-%d", name, i))
				of := filepath.Join(scratch, fmt.Sprintf("conc-%s-schedules-%d.json", name, i))
				os.Remove(of)
				_, out, err := spawnT("conc:"+name, d, 0, budget/2+2*time.Minute, "VERIF_CRASH_MODE=explore", nowEnv, fmt.Sprintf("VERIF_CRASH_BOUND=%d", bound),
					fmt.Sprintf("VERIF_CRASH_EXPLORE_DEADLINE=%d", dl), "GOMAXPROCS=1", fmt.Sprintf("VERIF_SHARD=%d/%d", i, xshards), "VERIF_CRASH_SCHEDULES_OUT="+of)
				if err != nil {
					errs[i] = fmt.Sprintf("%v %s", err, out)
					return
				}
				b, err := os.ReadFile(of)
				if err != nil || json.Unmarshal(b, &parts[i]) != nil {
					errs[i] = fmt.Sprintf("no schedules file: %v %s", err, out)
				}
				os.Remove(of)
			}(i)
		}
		xwg.Wait()
		seen := map[string]bool{}
		for i, p := range parts {
			if errs[i] != "" {
				r.Infra("%s: schedule enumeration (shard %d) failed: %s", name, i, errs[i])
				return
			}
			doc.Exhaustive = doc.Exhaustive && p.Exhaustive
			doc.Executions += p.Executions
			doc.Cut += p.Cut
			for _, sc := range p.Schedules {
				sk := fmt.Sprint("S", sc.Schedule)
				if seen[sk] {
					continue // an inner node of the schedule tree, run by every shard
				}
				seen[sk] = true
				var pts []int
				for j, n := range sc.Points {
					if !seen[sc.Keys[j]] {
						seen[sc.Keys[j]] = true
						pts = append(pts, n)
					}
				}
				sc.Points, sc.Keys = pts, nil
				doc.Schedules = append(doc.Schedules, sc)
			}
		}
		if len(doc.Schedules) == 0 {
			r.Infra("%s: no schedules enumerated", name)
			return
		}
	}
	outcomes := map[string]bool{}
	total, allPairs := 0, 0
	for _, s := range doc.Schedules {
		outcomes[s.Outcome] = true
		total += len(s.Points)
		allPairs += s.K
	}
	if !doc.Exhaustive {
		r.NotExhaustive(name + ": schedule enumeration hit its time budget")
	}
	type job struct{ si, n int }
	jobs := make(chan job, total)
	for si, s := range doc.Schedules {
		for _, n := range s.Points {
			jobs <- job{si, n}
		}
	}
	close(jobs)
	var mu sync.Mutex
	var wg sync.WaitGroup
	done, skipped := 0, 0
	classes := map[string]int{}
	for w := 0; w < 16; w++ {
		wg.Add(1)
		go func(w int) {
			defer wg.Done()
			for j := range jobs {
				if time.Now().After(deadline) {
					mu.Lock()
					skipped++
					mu.Unlock()
					continue
				}
				sch, _ := json.Marshal(doc.Schedules[j.si].Schedule)
				extra := []string{"VERIF_CRASH_MODE=run", "VERIF_CRASH_SCHEDULE=" + string(sch), "GOMAXPROCS=1", nowEnv}
				dir := filepath.Join(scratch, fmt.Sprintf("conc-%s-w%d", name, w))
				killed, out, err := spawn("conc:"+name, dir, j.n, extra...)
				if err != nil || !killed {
					r.Infra("%s: schedule %d crash point %d: child was not killed (%v) %s", name, j.si, j.n, err, out)
					continue
				}
				evs, _, _ := parseLog(filepath.Join(dir, "side.log"), len(steps))
				why := judge(dir, steps, evs, 22003+3*w)
				var fl []string
				for i, e := range evs {
					if e.started && !e.acked && !e.skipped {
						fl = append(fl, steps[i].Kind)
					}
				}
				sort.Strings(fl)
				cls := "in-flight:" + strings.Join(fl, "+")
				mu.Lock()
				done++
				classes[cls]++
				mu.Unlock()
				r.Add("evaluations", 1)
				r.Distinct(name + ":" + cls)
				if why != "" {
					r.Violation("crash:"+name+":"+cls, fmt.Sprintf("[%s] schedule %v, killed before crash point %d/%d (%s): %s", name, doc.Schedules[j.si].Schedule, j.n, doc.Schedules[j.si].K, cls, why),
						map[string]any{"engine": "crash+sched", "scenario": name, "schedule": doc.Schedules[j.si].Schedule, "crash_at": j.n},
						func() bool {
							d2 := filepath.Join(scratch, fmt.Sprintf("conc-%s-recheck-w%d", name, w))
							k2, _, e2 := spawn("conc:"+name, d2, j.n, extra...)
							if e2 != nil || !k2 {
								return false
							}
							ev2, _, _ := parseLog(filepath.Join(d2, "side.log"), len(steps))
							return judge(d2, steps, ev2, 22003+3*w) != ""
						})
				}
			}
		}(w)
	}
	wg.Wait()
	if skipped > 0 {
		r.NotExhaustive(fmt.Sprintf("%s: time budget reached, %d of %d (schedule, crash point) pairs not run", name, skipped, total))
	}
	r.Add("states", int64(done))
	red := fmt.Sprintf("preemption bound %d", bound)
	if bound < 0 {
		red = "unbounded, sleep-set reduced"
	}
	r.Set("concurrent:"+name, map[string]any{"clients": len(concScripts[name]()), "schedules": len(doc.Schedules), "schedule_space": red,
		"executions_cut_as_redundant": doc.Cut, "distinct_schedule_outcomes": len(outcomes), "schedule_crash_pairs": allPairs, "pairs_not_equivalent_to_an_earlier_one": total, "pairs_run": done, "in_flight_classes": classes})
}

// Deadline, when set, ends the enumeration between scenarios (reported as not exhaustive, never as a failure).
var Deadline time.Time

// Enumerate takes every crash point of every scenario and reports to r.
func Enumerate(r *runner.Run, scens []Scenario) {
	scratch := runner.Scratch()
	for si, sc := range scens {
		if !Deadline.IsZero() && time.Now().After(Deadline) {
			r.NotExhaustive(fmt.Sprintf("crash enumeration: time budget reached after %d of %d histories", si, len(scens)))
			break
		}
		steps := scriptFor(sc.Script)
		var extra []string
		if sc.ArmEarly {
			extra = append(extra, "VERIF_CRASH_ARM_EARLY=1")
		}
		// 1. measure K (and check the uncrashed run: every operation acknowledged, contents as expected)
		d0 := filepath.Join(scratch, "crash-"+sc.Name+"-count")
		killed, out, err := spawn(sc.Script, d0, 0, append(extra, "VERIF_CRASH_LABELS=1")...)
		if err != nil || killed {
			r.Infra("%s: counting run failed: %v %s", sc.Name, err, out)
			continue
		}
		evs, K, labels := parseLog(filepath.Join(d0, "side.log"), len(steps))
		if K == 0 && strings.HasPrefix(sc.Script, "gen:") {
			// e.g. dequeue on an empty queue: the history writes nothing, so there is no instant that differs from "before"
			r.Add("generated_histories_without_file_mutation", 1)
			if why := judgeScn(sc.Script, d0, steps, evs, 21000); why != "" {
				r.Violation("crash:gen:no-crash", fmt.Sprintf("[%s] after the complete history: %s", sc.Script, why), map[string]any{"scenario": sc.Script, "crash_at": 0}, nil)
			}
			continue
		}
		if K <= 0 {
			r.Infra("%s: counting run reported no crash points: %s", sc.Name, out)
			continue
		}
		if why := judgeScn(sc.Script, d0, steps, evs, 21000); why != "" {
			r.Violation("crash:"+sc.Name+":no-crash", fmt.Sprintf("[%s] after the complete history (process abandoned without shutdown): %s", sc.Name, why), map[string]any{"scenario": sc.Name, "crash_at": 0}, nil)
		}
		kinds := map[string]int{}
		for _, l := range strings.Split(labels, ",") {
			kinds[l]++
		}
		gen := strings.HasPrefix(sc.Script, "gen:")
		if gen {
			r.Add("generated_histories", 1)
			r.Add("generated_crash_points", int64(K))
		} else {
			r.Set("scenario:"+sc.Name, map[string]any{"crash_points": K, "steps": len(steps), "crash_point_kinds": kinds})
		}
		// 2. every crash point
		var mu sync.Mutex
		var wg sync.WaitGroup
		jobs := make(chan int, K)
		for n := 1; n <= K; n++ {
			jobs <- n
		}
		close(jobs)
		classes := map[string]int{}
		for w := 0; w < 16; w++ {
			wg.Add(1)
			go func(w int) {
				defer wg.Done()
				for n := range jobs {
					dir := filepath.Join(scratch, fmt.Sprintf("crash-%s-w%d", sc.Name, w))
					killed, out, err := spawn(sc.Script, dir, n, extra...)
					if err != nil || !killed {
						r.Infra("%s: crash point %d: child was not killed (%v) %s", sc.Name, n, err, out)
						continue
					}
					evs, _, _ := parseLog(filepath.Join(dir, "side.log"), len(steps))
					why := judgeScn(sc.Script, dir, steps, evs, 21003+3*w)
					last, acked := -1, 0
					for i, e := range evs {
						if e.started {
							last = i
						}
						if e.acked {
							acked++
						}
					}
					mu.Lock()
					inflight := "between-operations"
					if last >= 0 && !evs[last].acked {
						inflight = "inside:" + steps[last].Kind
					}
					classes[inflight]++
					mu.Unlock()
					r.Add("evaluations", 1)
					r.Distinct(fmt.Sprintf("%s:step%d:%s", sc.Name, last, inflight))
					if why != "" {
						kind := "boot"
						if last >= 0 {
							kind = steps[last].Kind
						}
						r.Violation(fmt.Sprintf("crash:%s:%s", sc.Name, kind), fmt.Sprintf("[%s] killed before crash point %d/%d (last started operation %d %s, %d acknowledged): %s", sc.Name, n, K, last, kind, acked, why),
							map[string]any{"engine": "crash", "scenario": sc.Name, "crash_at": n, "of": K},
							func() bool {
								d2 := filepath.Join(scratch, fmt.Sprintf("crash-%s-recheck-w%d", sc.Name, w))
								k2, _, e2 := spawn(sc.Script, d2, n, extra...)
								if e2 != nil || !k2 {
									return false
								}
								ev2, _, _ := parseLog(filepath.Join(d2, "side.log"), len(steps))
								return judgeScn(sc.Script, d2, steps, ev2, 21003+3*w) != ""
							})
					}
				}
			}(w)
		}
		wg.Wait()
		if gen {
			for k, v := range classes {
				r.Add("generated_crash_class:"+k, int64(v))
			}
			if sc.Script == "gen:2:10" || sc.Script == "gen:3:100" {
				var txt []string
				for _, st := range steps {
					txt = append(txt, st.Kind+" "+st.Route+st.Payload)
				}
				r.Sample(map[string]any{"generated_history": txt, "crash_points": K})
			}
		} else {
			r.Set("crash_classes:"+sc.Name, classes)
			r.Sample(map[string]any{"scenario": sc.Name, "crash_points": K, "example": "SIGKILL before the n-th file-mutating syscall, n = 1.." + strconv.Itoa(K)})
		}
	}
}

var _ = httptest.NewRecorder
