package crashkit

import (
	"bytes"
	"encoding/base64"
	"encoding/json"
	"fmt"
	"net/http"
	"net/http/httptest"
	"strings"
)

// The configuration both the crashing child and the recovering parent boot (listen addresses are placeholders
// of the in-memory listener and may differ between the two; everything else is identical).
func configText(portBase int) string { return configTextFor("", portBase) }

// configTextFor: the scenario "limits" (and its generated relatives) runs with a small bounded queue that refuses
// when full, so that refusals and half-stored fan-outs are part of the history.
func configTextFor(scn string, portBase int) string {
	extra := ""
	if strings.HasPrefix(scn, "limits") {
		extra = "queue_limits { max_depth 3  drop_policy reject }\n"
	}
	return fmt.Sprintf(`
ingress   { listen "127.0.0.1:%d" }
pull_api  { listen "127.0.0.1:%d"  auth token "raw:g1" }
admin_api { listen "127.0.0.1:%d" }
%s/p { pull { path /e } }
/f { deliver "https://t1.example/h" {}  deliver "https://t2.example/h" {} }
`, portBase, portBase+1, portBase+2, extra)
}

// step of the scripted history.
type step struct {
	Kind    string   // ingress | publish | dequeue | ack | nack | nackdead | ackbatch | checkpoint
	Route   string   // ingress: request path
	Payload string   // ingress: body
	Targets []string // ingress: expected targets (one message per target)
	Items   []pubItem
	Batch   int
	Lease   int // ack/nack: index into the leases obtained so far (in order of appearance)
	Leases  []int
	Delay   string
	Thread  int // concurrent scenarios: the client this step belongs to (steps of one client are contiguous)
}

type pubItem struct {
	ID, Route, Payload string
}

var fanTargets = []string{"https://t1.example/h", "https://t2.example/h"}

// scenario "app": mixed ingress / publish / pull traffic through the handlers wired by startServers.
func scriptApp() []step {
	return []step{
		{Kind: "ingress", Route: "/p", Payload: "b1", Targets: []string{"pull"}},
		{Kind: "ingress", Route: "/f", Payload: "b2", Targets: fanTargets},
		{Kind: "publish", Items: []pubItem{{"x1", "/p", "px1"}, {"x2", "/p", "px2"}}},
		{Kind: "dequeue", Batch: 2},
		{Kind: "ack", Lease: 0},
		{Kind: "nackdead", Lease: 1},
		{Kind: "ingress", Route: "/p", Payload: "b3", Targets: []string{"pull"}},
		{Kind: "dequeue", Batch: 1},
		{Kind: "nack", Lease: 2, Delay: "0s"},
		{Kind: "publish", Items: []pubItem{{"x3", "/p", "px3"}, {"x2", "/p", "dup"}}}, // duplicate id: refused as a whole
		{Kind: "ingress", Route: "/f", Payload: "b4", Targets: fanTargets},
		{Kind: "dequeue", Batch: 3},
		{Kind: "ackbatch", Leases: []int{3, 4}},
	}
}

// scenario "limits": a queue of depth 3 that refuses when full: refused ingress, a fan-out that finds one free slot
// for its two copies (503, the first copy may stay), slots freed by an ack, a refused publish batch.
func scriptLimits() []step {
	return []step{
		{Kind: "ingress", Route: "/p", Payload: "q1", Targets: []string{"pull"}},
		{Kind: "ingress", Route: "/p", Payload: "q2", Targets: []string{"pull"}},
		{Kind: "ingress", Route: "/f", Payload: "q3", Targets: fanTargets}, // one free slot for two copies
		{Kind: "ingress", Route: "/p", Payload: "q4", Targets: []string{"pull"}}, // full
		{Kind: "dequeue", Batch: 1},
		{Kind: "ack", Lease: 0},
		{Kind: "publish", Items: []pubItem{{"z1", "/p", "pz1"}, {"z2", "/p", "pz2"}}}, // one free slot for two items
		{Kind: "ingress", Route: "/p", Payload: "q5", Targets: []string{"pull"}},
		{Kind: "ingress", Route: "/f", Payload: "q6", Targets: fanTargets}, // full
	}
}

// scenario "wal": many small enqueues, explicit checkpoints and lease mutations (WAL checkpoints, batch lease ops).
func scriptWAL() []step {
	var s []step
	for i := 0; i < 6; i++ {
		s = append(s, step{Kind: "ingress", Route: "/p", Payload: fmt.Sprintf("w%d", i), Targets: []string{"pull"}})
		if i%2 == 1 {
			s = append(s, step{Kind: "checkpoint"})
		}
	}
	s = append(s, step{Kind: "dequeue", Batch: 3}, step{Kind: "checkpoint"}, step{Kind: "ackbatch", Leases: []int{0, 1}}, step{Kind: "nack", Lease: 2, Delay: "0s"},
		step{Kind: "checkpoint"}, step{Kind: "ingress", Route: "/f", Payload: "w9", Targets: fanTargets}, step{Kind: "dequeue", Batch: 2}, step{Kind: "nackdead", Lease: 3})
	return s
}

// scenario "lease": messages are leased, extended, nacked with and without delay and dead-lettered while the
// process dies at every point (C05: every unsettled message becomes visible again after a crash).
func scriptLease() []step {
	return []step{
		{Kind: "ingress", Route: "/p", Payload: "l1", Targets: []string{"pull"}},
		{Kind: "ingress", Route: "/p", Payload: "l2", Targets: []string{"pull"}},
		{Kind: "ingress", Route: "/p", Payload: "l3", Targets: []string{"pull"}},
		{Kind: "dequeue", Batch: 2},
		{Kind: "extend", Lease: 0},
		{Kind: "nack", Lease: 1, Delay: "0s"},
		{Kind: "dequeue", Batch: 2},
		{Kind: "extend", Lease: 2},
		{Kind: "nack", Lease: 3, Delay: "5s"},
		{Kind: "checkpoint"},
		{Kind: "dequeue", Batch: 1},
		{Kind: "nackdead", Lease: 0},
	}
}

// Generated histories: every sequence of the given length over the operation alphabet below ("every mix of
// ingress/publish/pull traffic before the crash"). Lease -1 = the oldest lease not used by an earlier step; when
// there is none the step is skipped (recorded in the side log).
var genAlphabet = []string{"ingress-pull", "ingress-fanout", "publish", "dequeue", "ack", "nack", "nackdead"}

// GenCount returns the number of generated histories of the given length.
func GenCount(length int) int {
	n := 1
	for i := 0; i < length; i++ {
		n *= len(genAlphabet)
	}
	return n
}

func scriptGen(length, index int) []step {
	var out []step
	for i := 0; i < length; i++ {
		k := genAlphabet[index%len(genAlphabet)]
		index /= len(genAlphabet)
		switch k {
		case "ingress-pull":
			out = append(out, step{Kind: "ingress", Route: "/p", Payload: fmt.Sprintf("g%d", i), Targets: []string{"pull"}})
		case "ingress-fanout":
			out = append(out, step{Kind: "ingress", Route: "/f", Payload: fmt.Sprintf("g%d", i), Targets: fanTargets})
		case "publish":
			out = append(out, step{Kind: "publish", Items: []pubItem{{fmt.Sprintf("y%da", i), "/p", fmt.Sprintf("py%da", i)}, {fmt.Sprintf("y%db", i), "/p", fmt.Sprintf("py%db", i)}}})
		case "dequeue":
			out = append(out, step{Kind: "dequeue", Batch: 2})
		case "ack":
			out = append(out, step{Kind: "ack", Lease: -1})
		case "nack":
			out = append(out, step{Kind: "nack", Lease: -1, Delay: "0s"})
		case "nackdead":
			out = append(out, step{Kind: "nackdead", Lease: -1})
		}
	}
	return out
}

// scriptFor resolves a script name: a fixed scenario or "gen:<length>:<index>".
func scriptFor(name string) []step {
	var l, ix int
	if n, _ := fmt.Sscanf(name, "gen:%d:%d", &l, &ix); n == 2 {
		return scriptGen(l, ix)
	}
	return scripts[name]()
}

type leaseRef struct {
	ID, Lease, Route string
	Payload          []byte
	Attempt          int
}

type ackWriter struct {
	*httptest.ResponseRecorder
	onAck func(status int)
	acked bool
}

func (w *ackWriter) WriteHeader(code int) {
	if !w.acked {
		w.acked = true
		w.onAck(code)
	}
	w.ResponseRecorder.WriteHeader(code)
}

func (w *ackWriter) Write(b []byte) (int, error) {
	if !w.acked {
		w.acked = true
		w.onAck(200)
	}
	return w.ResponseRecorder.Write(b)
}

func rawPost(path, extraHeaders string, body []byte) *http.Request {
	r := httptest.NewRequest("POST", path, bytes.NewReader(body))
	r.Host = "h"
	r.RemoteAddr = "10.9.8.7:6"
	for _, l := range strings.Split(extraHeaders, "\n") {
		if k, v, ok := strings.Cut(l, ": "); ok {
			r.Header.Set(k, v)
		}
	}
	return r
}

func publishBody(items []pubItem) []byte {
	type it struct {
		ID         string            `json:"id"`
		Route      string            `json:"route"`
		PayloadB64 string            `json:"payload_b64"`
		Headers    map[string]string `json:"headers,omitempty"`
	}
	var out struct {
		Items []it `json:"items"`
	}
	for _, p := range items {
		out.Items = append(out.Items, it{ID: p.ID, Route: p.Route, PayloadB64: base64.StdEncoding.EncodeToString([]byte(p.Payload)), Headers: map[string]string{"X-Pub": p.ID}})
	}
	b, _ := json.Marshal(out)
	return b
}

type dequeueBody struct {
	Items []struct {
		ID         string `json:"id"`
		LeaseID    string `json:"lease_id"`
		Attempt    int    `json:"attempt"`
		Route      string `json:"route"`
		PayloadB64 string `json:"payload_b64"`
	} `json:"items"`
}

// Concurrent scenarios: each inner slice is the script of one client; the clients run concurrently under the
// controlled scheduler. At most one client dequeues (lease indices are that client's own).
var concScripts = map[string]func() [][]step{
	// two producers racing (pull ingress / fan-out ingress / publish)
	"conc-producers": func() [][]step {
		return [][]step{
			{{Kind: "ingress", Route: "/p", Payload: "c1", Targets: []string{"pull"}}, {Kind: "ingress", Route: "/f", Payload: "c2", Targets: fanTargets}},
			{{Kind: "publish", Items: []pubItem{{"k1", "/p", "pk1"}, {"k2", "/p", "pk2"}}}, {Kind: "ingress", Route: "/p", Payload: "c3", Targets: []string{"pull"}}},
		}
	},
	// two publishers (and a following ingress) racing: whatever a publish shares between requests shows here
	"conc-publishers": func() [][]step {
		return [][]step{
			{{Kind: "publish", Items: []pubItem{{"u1", "/p", "pu1"}, {"u2", "/p", "pu2"}}}, {Kind: "ingress", Route: "/p", Payload: "u3", Targets: []string{"pull"}}},
			{{Kind: "publish", Items: []pubItem{{"v1", "/p", "pv1"}, {"v2", "/p", "pv2"}, {"v3", "/p", "pv3"}}}},
		}
	},
	// two publishers whose id sets intersect without being equal: at most one of them can be acknowledged, and the
	// acknowledged one's items - all of them - are there
	"conc-publishers-overlap": func() [][]step {
		return [][]step{
			// each publish is followed by an ingress request of the same client, so that there are crash points AFTER the
			// answer of either publish (an acknowledgement is only judged at a crash point that follows it)
			{{Kind: "publish", Items: []pubItem{{"w1", "/p", "pw1"}, {"w2", "/p", "pw2"}}}, {Kind: "ingress", Route: "/p", Payload: "w4", Targets: []string{"pull"}}},
			{{Kind: "publish", Items: []pubItem{{"w2", "/p", "qw2"}, {"w3", "/p", "qw3"}}}, {Kind: "ingress", Route: "/p", Payload: "w5", Targets: []string{"pull"}}},
		}
	},
	// a producer racing with a consumer that settles what it gets
	"conc-consumer": func() [][]step {
		return [][]step{
			{{Kind: "ingress", Route: "/p", Payload: "d1", Targets: []string{"pull"}}, {Kind: "ingress", Route: "/p", Payload: "d2", Targets: []string{"pull"}}},
			{{Kind: "dequeue", Batch: 2}, {Kind: "ack", Lease: -1}, {Kind: "dequeue", Batch: 2}, {Kind: "nack", Lease: -1, Delay: "0s"}},
		}
	},
	// the retention pruner (it runs inside whatever store call comes first after prune_interval, 5 minutes by default)
	// overlapping a client's settlement: one client sends, dequeues and acks; the other lets the clock pass the prune
	// interval and then sends (its request runs the pruner)
	"conc-prune": func() [][]step {
		return [][]step{
			{{Kind: "ingress", Route: "/p", Payload: "r1", Targets: []string{"pull"}}, {Kind: "dequeue", Batch: 1}, {Kind: "ack", Lease: -1}},
			{{Kind: "clock", Delay: "6m"}, {Kind: "ingress", Route: "/p", Payload: "r2", Targets: []string{"pull"}}},
		}
	},
	// three clients: fan-out producer, publisher, consumer with a dead-letter
	"conc-three": func() [][]step {
		return [][]step{
			{{Kind: "ingress", Route: "/f", Payload: "e1", Targets: fanTargets}, {Kind: "ingress", Route: "/p", Payload: "e2", Targets: []string{"pull"}}},
			{{Kind: "publish", Items: []pubItem{{"m1", "/p", "pm1"}, {"m2", "/p", "pm2"}}}},
			{{Kind: "dequeue", Batch: 1}, {Kind: "nackdead", Lease: -1}, {Kind: "dequeue", Batch: 2}, {Kind: "ack", Lease: -1}},
		}
	},
}

// concSteps flattens a concurrent script (Thread set, steps of one client contiguous) and returns the offsets.
func concSteps(name string) ([]step, []int) {
	var out []step
	var off []int
	for t, th := range concScripts[name]() {
		off = append(off, len(out))
		for _, st := range th {
			st.Thread = t
			out = append(out, st)
		}
	}
	return out, off
}
