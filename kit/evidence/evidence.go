// Package evidence writes /verif/evidence/<id>.json in the schema of
// /root/.vp/EVIDENCE.schema.json from counters the engines maintain.
package evidence

import (
	"encoding/json"
	"os"
	"path/filepath"
)

type File struct {
	PropertyID  string         `json:"property_id"`
	Tier        string         `json:"tier"`
	Seed        int64          `json:"seed"`
	Level       string         `json:"level"`
	Coverage    map[string]any `json:"coverage"`
	Assumptions []string       `json:"assumptions,omitempty"`
	WallS       float64        `json:"wall_s"`
	Violations  int            `json:"violations"`
}

func (f *File) Write(path string) error {
	if err := os.MkdirAll(filepath.Dir(path), 0o755); err != nil {
		return err
	}
	b, err := json.MarshalIndent(f, "", " ")
	if err != nil {
		return err
	}
	tmp := path + ".tmp"
	if err := os.WriteFile(tmp, append(b, '\n'), 0o644); err != nil {
		return err
	}
	return os.Rename(tmp, path)
}
