// Package bfs is a breadth-first explicit-state search over the real
// transition function: a state is the operation history that reaches it, a
// successor is "fresh implementation instance, replay history, one more
// operation", states are de-duplicated on a canonical key of the
// *implementation* state, and the oracle runs on every transition.
package bfs

import (
	"crypto/sha256"
	"sort"
	"sync"
	"time"
)

// StepResult is what one transition produced.
type StepResult[S any] struct {
	Next      S      // successor search state (model snapshot etc.)
	Key       string // canonical key of the implementation state after the operation
	Violation string // non-empty: the oracle rejected this transition
	VioKey    string // stable identification of the violation (for known findings); optional
	NoExtend  bool   // valid transition but do not search below it
	Label     string // result class, for the distinct-outcome statistics
}

type Engine[S any, O any] struct {
	Name     string
	Workers  int
	MaxDepth int
	MaxTrans int64
	// MaxStates bounds memory: the search stops (non-exhaustive) when more distinct states have been stored (0 = 1.2 M).
	MaxStates int64
	Deadline  time.Time
	Init     func() S
	InitKey  string
	// Enabled lists the operations to try in a state, simplest first.
	Enabled func(st S, hist []O) []O
	// Step runs on worker w: replay hist on w's private instance, apply op, check.
	Step func(w int, hist []O, st S, op O) StepResult[S]
	// OpName classifies operations for statistics.
	OpName func(op O) string
	// StopAtFirst stops the search at the first violation (default: collect up to MaxViolations).
	MaxViolations int
	// RootShard/RootShards: this engine instance only takes the operations i of the initial state with
	// i % RootShards == RootShard (the subtrees below different first operations are explored by different
	// processes; states are then de-duplicated per shard only).
	RootShard, RootShards int
}

type Violation[O any] struct {
	Hist    []O
	Op      O
	Message string
	Key     string
}

type Result[O any] struct {
	Name           string
	States         int64
	Transitions    int64
	DepthCompleted int
	Exhaustive     bool
	CapHit         string
	Violations     []Violation[O]
	Outcomes       map[string]int64 // "<op kind>:<label>" -> count
	PerDepth       []int64
	SampleHists    [][]O // a few of the deepest histories explored
}

type node[S any, O any] struct {
	hist []O
	st   S
}

func (e *Engine[S, O]) Run() *Result[O] {
	if e.Workers <= 0 {
		e.Workers = 1
	}
	if e.MaxViolations <= 0 {
		e.MaxViolations = 8
	}
	res := &Result[O]{Name: e.Name, Exhaustive: true, Outcomes: map[string]int64{}}
	if e.MaxStates <= 0 {
		e.MaxStates = 1_200_000
	}
	// keys are stored as 128-bit hashes of the canonical dump (collision probability ~2^-128 per pair)
	hkey := func(k string) [16]byte {
		h := sha256.Sum256([]byte(k))
		var o [16]byte
		copy(o[:], h[:16])
		return o
	}
	seen := map[[16]byte]struct{}{hkey(e.InitKey): {}}
	frontier := []node[S, O]{{hist: nil, st: e.Init()}}
	res.States = 1
	vioSeen := map[string]bool{}
	for depth := 0; depth < e.MaxDepth && len(frontier) > 0; depth++ {
		// expand every node of the frontier in parallel; successors are merged eagerly under a mutex so that memory
		// is proportional to the NEW states only (which history represents a state may therefore differ between runs;
		// every representative is a shortest path, and the set of states per depth is the same)
		jobs := make(chan int, len(frontier))
		for i := range frontier {
			jobs <- i
		}
		close(jobs)
		var stop bool
		var mu sync.Mutex
		var next []node[S, O]
		expanded := 0
		var wg sync.WaitGroup
		for w := 0; w < e.Workers; w++ {
			wg.Add(1)
			go func(w int) {
				defer wg.Done()
				for ni := range jobs {
					mu.Lock()
					s := stop
					mu.Unlock()
					if s {
						continue
					}
					n := frontier[ni]
					ops := e.Enabled(n.st, n.hist)
					for oi, op := range ops {
						if depth == 0 && e.RootShards > 1 && oi%e.RootShards != e.RootShard {
							continue
						}
						r := e.Step(w, n.hist, n.st, op)
						var hk [16]byte
						if r.Violation == "" {
							hk = hkey(r.Key)
						}
						mu.Lock()
						res.Transitions++
						name := ""
						if e.OpName != nil {
							name = e.OpName(op)
						}
						res.Outcomes[name+":"+r.Label]++
						if r.Violation != "" {
							k := r.VioKey
							if k == "" {
								k = r.Violation
							}
							if !vioSeen[k] && len(res.Violations) < e.MaxViolations {
								vioSeen[k] = true
								h := append([]O{}, n.hist...)
								res.Violations = append(res.Violations, Violation[O]{Hist: h, Op: op, Message: r.Violation, Key: r.VioKey})
							}
						} else if _, dup := seen[hk]; !dup {
							seen[hk] = struct{}{}
							res.States++
							if !r.NoExtend {
								h := make([]O, len(n.hist)+1)
								copy(h, n.hist)
								h[len(h)-1] = op
								next = append(next, node[S, O]{hist: h, st: r.Next})
							}
						}
						if (e.MaxTrans > 0 && res.Transitions >= e.MaxTrans) || res.States > e.MaxStates {
							stop = true
						}
						mu.Unlock()
					}
					mu.Lock()
					expanded++
					if !e.Deadline.IsZero() && time.Now().After(e.Deadline) {
						stop = true
					}
					mu.Unlock()
				}
			}(w)
		}
		wg.Wait()
		complete := !stop && expanded == len(frontier)
		if !complete && expanded == len(frontier) && !(e.MaxTrans > 0 && res.Transitions >= e.MaxTrans) && res.States <= e.MaxStates && (e.Deadline.IsZero() || !time.Now().After(e.Deadline)) {
			complete = true
		}
		res.PerDepth = append(res.PerDepth, int64(len(next)))
		if len(next) > 0 {
			res.SampleHists = nil
			for _, i := range []int{0, len(next) / 2, len(next) - 1} {
				res.SampleHists = append(res.SampleHists, next[i].hist)
			}
		}
		if !complete {
			res.Exhaustive = false
			switch {
			case e.MaxTrans > 0 && res.Transitions >= e.MaxTrans:
				res.CapHit = "transition cap"
			case res.States > e.MaxStates:
				res.CapHit = "state cap"
			default:
				res.CapHit = "time budget"
			}
			break
		}
		res.DepthCompleted = depth + 1
		frontier = next
	}
	return res
}

// OutcomeList renders the outcome statistics sorted.
func (r *Result[O]) OutcomeList() []string {
	ks := make([]string, 0, len(r.Outcomes))
	for k := range r.Outcomes {
		ks = append(ks, k)
	}
	sort.Strings(ks)
	return ks
}
