// Package runner is the common frame of every check: tier and budget, known
// findings, replay artefacts, evidence file, shard processes, exit status.
//
// Exit status: 0 = property held on everything explored (or only listed known
// findings were seen), 1 = a violation that known_findings.txt does not list
// (a line "VIOLATION property=<id> replay=<path>" is printed), 2 = the check
// itself could not run (build, determinism or infrastructure error) — never a
// VIOLATION line.
package runner

import (
	"bufio"
	"crypto/sha256"
	"encoding/hex"
	"encoding/json"
	"fmt"
	"os"
	"os/exec"
	"path/filepath"
	"sort"
	"strconv"
	"strings"
	"sync"
	"time"

	"github.com/nuetzliches/hookaido/internal/verifkit/evidence"
)

type Run struct {
	Prop  string
	Tier  string
	Seed  int64
	Level string

	mu          sync.Mutex
	start       time.Time
	cov         map[string]any
	counters    map[string]int64
	samples     []any
	maxSamples  int
	assumptions []string
	newViol     int
	knownSeen   map[string]bool
	known       map[string]string
	infra       []string
	exhaustive  bool
	distinct    map[string]struct{}
	vioLog      []partialVio
	capNotes    []string
	newSeen     map[string]bool
}

type partialVio struct {
	Key    string `json:"key"`
	Msg    string `json:"msg"`
	Replay any    `json:"replay"`
}

// partial is what a job child hands to its parent.
type partial struct {
	Counters    map[string]int64 `json:"counters"`
	Cov         map[string]any   `json:"cov"`
	Distinct    []string         `json:"distinct"`
	Samples     []any            `json:"samples"`
	Assumptions []string         `json:"assumptions"`
	Violations  []partialVio     `json:"violations"`
	Infra       []string         `json:"infra"`
	CapNotes    []string         `json:"cap_notes"`
}

func verifRoot() string {
	if v := os.Getenv("VERIF_ROOT"); v != "" {
		return v
	}
	return "/verif"
}

func Start(prop, level string) *Run {
	r := &Run{Prop: prop, Level: level, Tier: os.Getenv("VERIF_TIER"), start: time.Now(),
		cov: map[string]any{}, counters: map[string]int64{}, maxSamples: 6,
		knownSeen: map[string]bool{}, known: map[string]string{}, exhaustive: true,
		distinct: map[string]struct{}{}}
	if r.Tier != "thorough" {
		r.Tier = "quick"
	}
	if s := os.Getenv("VERIF_SEED"); s != "" {
		r.Seed, _ = strconv.ParseInt(s, 10, 64)
	}
	r.loadKnown()
	return r
}

func (r *Run) loadKnown() {
	f, err := os.Open(filepath.Join(verifRoot(), "known_findings.txt"))
	if err != nil {
		return
	}
	defer f.Close()
	sc := bufio.NewScanner(f)
	for sc.Scan() {
		line := strings.TrimSpace(sc.Text())
		if !strings.HasPrefix(line, "finding:") {
			continue
		}
		fields := strings.Fields(strings.TrimPrefix(line, "finding:"))
		if len(fields) < 2 || fields[0] != "property="+r.Prop || !strings.HasPrefix(fields[1], "key=") {
			continue
		}
		r.known[strings.TrimPrefix(fields[1], "key=")] = strings.Join(fields[2:], " ")
	}
}

func (r *Run) Quick() bool    { return r.Tier == "quick" }
func (r *Run) Thorough() bool { return r.Tier == "thorough" }

// Pick returns q in the quick tier and t in the thorough tier.
func Pick[T any](r *Run, q, t T) T {
	if r.Quick() {
		return q
	}
	return t
}

// Deadline returns the wall-clock instant after which explorations stop
// between executions and report exhaustive:false (never a failure).
func (r *Run) Deadline(quick, thorough time.Duration) time.Time {
	d := quick
	if r.Thorough() {
		d = thorough
	}
	if s := os.Getenv("VERIF_BUDGET_S"); s != "" {
		if n, err := strconv.Atoi(s); err == nil {
			d = time.Duration(n) * time.Second
		}
	}
	return r.start.Add(d)
}

func (r *Run) Add(name string, n int64) {
	r.mu.Lock()
	r.counters[name] += n
	r.mu.Unlock()
}

func (r *Run) Counter(name string) int64 {
	r.mu.Lock()
	defer r.mu.Unlock()
	return r.counters[name]
}

func (r *Run) Set(key string, v any) {
	r.mu.Lock()
	r.cov[key] = v
	r.mu.Unlock()
}

// Distinct records one non-trivial case by a canonical key; the number of
// distinct keys becomes coverage.distinct_nontrivial.
func (r *Run) Distinct(key string) {
	r.mu.Lock()
	if len(key) > 96 {
		h := sha256.Sum256([]byte(key))
		key = hex.EncodeToString(h[:12])
	}
	r.distinct[key] = struct{}{}
	r.mu.Unlock()
}

func (r *Run) Sample(v any) {
	r.mu.Lock()
	if len(r.samples) < r.maxSamples {
		r.samples = append(r.samples, v)
	}
	r.mu.Unlock()
}

func (r *Run) Assume(s string) {
	r.mu.Lock()
	r.assumptions = append(r.assumptions, s)
	r.mu.Unlock()
}

func (r *Run) NotExhaustive(why string) {
	r.mu.Lock()
	r.exhaustive = false
	r.capNotes = append(r.capNotes, why)
	r.cov["cap_hit"] = strings.Join(r.capNotes, "; ")
	r.mu.Unlock()
}

// Infra records an infrastructure error: the check exits 2.
func (r *Run) Infra(format string, a ...any) {
	msg := fmt.Sprintf(format, a...)
	r.mu.Lock()
	r.infra = append(r.infra, msg)
	r.mu.Unlock()
	fmt.Printf("INFRA-ERROR property=%s %s\n", r.Prop, msg)
}

// Violation reports one failing case. key identifies the failing input, call
// site or history (stable, no blanks); replay is serialised to a replay file.
// recheck (optional) re-executes exactly that case and returns true when it
// fails again; a case that does not fail on each of 4 re-runs is reported as an
// infrastructure error instead of a violation.
func (r *Run) Violation(key, msg string, replay any, recheck func() bool) {
	key = strings.Join(strings.Fields(key), "_")
	if _, child := IsShard(); child {
		if recheck != nil {
			for i := 0; i < 4; i++ {
				if !recheck() {
					r.Infra("case %s failed once but not on re-run %d: %s", key, i+1, msg)
					return
				}
			}
		}
		r.mu.Lock()
		if len(r.vioLog) < 64 {
			r.vioLog = append(r.vioLog, partialVio{Key: key, Msg: msg, Replay: replay})
		}
		r.mu.Unlock()
		return
	}
	r.mu.Lock()
	if txt, ok := r.known[key]; ok {
		first := !r.knownSeen[key]
		r.knownSeen[key] = true
		r.mu.Unlock()
		if first {
			fmt.Printf("KNOWN-FINDING: property=%s key=%s %s\n", r.Prop, key, txt)
		}
		return
	}
	r.mu.Unlock()
	if recheck != nil {
		for i := 0; i < 4; i++ {
			if !recheck() {
				r.Infra("case %s failed once but not on re-run %d: %s", key, i+1, msg)
				return
			}
		}
	}
	r.mu.Lock()
	if r.newSeen == nil {
		r.newSeen = map[string]bool{}
	}
	if r.newSeen[key] {
		r.mu.Unlock()
		return
	}
	r.newSeen[key] = true
	r.newViol++
	n := r.newViol
	r.mu.Unlock()
	if n > 40 {
		return
	}
	dir := filepath.Join(verifRoot(), "replays")
	os.MkdirAll(dir, 0o755)
	h := sha256.Sum256([]byte(key))
	path := filepath.Join(dir, fmt.Sprintf("%s-%s.json", r.Prop, hex.EncodeToString(h[:6])))
	b, _ := json.MarshalIndent(map[string]any{"property": r.Prop, "key": key, "message": msg, "replay": replay}, "", " ")
	os.WriteFile(path, append(b, '\n'), 0o644)
	fmt.Printf("VIOLATION property=%s replay=%s\n", r.Prop, path)
	fmt.Printf("  key=%s\n  %s\n", key, strings.ReplaceAll(msg, "\n", "\n  "))
}

func (r *Run) Violations() int {
	r.mu.Lock()
	defer r.mu.Unlock()
	return r.newViol
}

// Finish writes the evidence file and exits. In a job child it hands the
// collected state to the parent instead.
func (r *Run) Finish() {
	if _, child := IsShard(); child {
		r.mu.Lock()
		p := partial{Counters: r.counters, Cov: r.cov, Samples: r.samples, Assumptions: r.assumptions, Violations: r.vioLog, Infra: r.infra, CapNotes: r.capNotes}
		for k := range r.distinct {
			p.Distinct = append(p.Distinct, k)
		}
		r.mu.Unlock()
		ShardReply(p)
	}
	r.mu.Lock()
	cov := r.cov
	for k, v := range r.counters {
		if _, ok := cov[k]; !ok {
			cov[k] = v
		}
	}
	if _, ok := cov["distinct_nontrivial"]; !ok {
		cov["distinct_nontrivial"] = len(r.distinct)
	}
	if _, ok := cov["samples"]; !ok {
		cov["samples"] = r.samples
	}
	if _, ok := cov["exhaustive"]; !ok {
		cov["exhaustive"] = r.exhaustive
	}
	known := make([]string, 0, len(r.knownSeen))
	for k := range r.knownSeen {
		known = append(known, k)
	}
	sort.Strings(known)
	if len(known) > 0 {
		cov["known_findings_seen"] = known
	}
	ev := evidence.File{PropertyID: r.Prop, Tier: r.Tier, Seed: r.Seed, Level: r.Level, Coverage: cov,
		Assumptions: r.assumptions, WallS: time.Since(r.start).Seconds(), Violations: r.newViol}
	infra := r.infra
	r.mu.Unlock()
	code := 0
	if len(infra) > 0 {
		code = 2
	}
	if ev.Violations > 0 {
		code = 1
	}
	if os.Getenv("VERIF_SHARD_OUT") == "" && code != 2 {
		path := os.Getenv("VERIF_EVIDENCE")
		if path == "" {
			path = filepath.Join(verifRoot(), "evidence", r.Prop+".json")
		}
		if err := ev.Write(path); err != nil {
			fmt.Printf("INFRA-ERROR property=%s cannot write evidence: %v\n", r.Prop, err)
			code = 2
		}
	}
	b, _ := json.Marshal(cov)
	if len(b) > 1500 {
		b = append(b[:1500], "..."...)
	}
	fmt.Printf("RESULT property=%s tier=%s exit=%d wall=%.1fs coverage=%s\n", r.Prop, r.Tier, code, ev.WallS, b)
	os.Stdout.Sync()
	if os.Getenv("VERIF_NOEXIT") != "" { // profiling runs only
		return
	}
	os.Exit(code)
}

// ---- shard processes -------------------------------------------------------

// IsShard reports whether this process is a shard child; part names the
// exploration the parent asked for.
func IsShard() (part string, ok bool) {
	if os.Getenv("VERIF_SHARD_OUT") == "" {
		return "", false
	}
	return os.Getenv("VERIF_PART"), true
}

// ShardReply writes the child's result and exits 0.
func ShardReply(v any) {
	b, err := json.Marshal(v)
	if err != nil {
		fmt.Fprintln(os.Stderr, "shard marshal:", err)
		os.Exit(2)
	}
	if err := os.WriteFile(os.Getenv("VERIF_SHARD_OUT"), b, 0o644); err != nil {
		fmt.Fprintln(os.Stderr, "shard write:", err)
		os.Exit(2)
	}
	os.Exit(0)
}

// RunShards re-executes the current test binary n times in parallel with
// VERIF_SHARD=i/n and VERIF_PART=part and returns each child's JSON reply.
// A child that dies, hangs or runs out of memory is an infrastructure error.
func RunShards(part string, n int, timeout time.Duration, extraEnv ...string) ([][]byte, error) {
	scratch := os.Getenv("VERIF_SCRATCH")
	if scratch == "" {
		scratch = os.TempDir()
	}
	dir, err := os.MkdirTemp(scratch, "shards-")
	if err != nil {
		return nil, err
	}
	defer os.RemoveAll(dir)
	out := make([][]byte, n)
	errs := make([]error, n)
	var wg sync.WaitGroup
	for i := 0; i < n; i++ {
		wg.Add(1)
		go func(i int) {
			defer wg.Done()
			of := filepath.Join(dir, fmt.Sprintf("shard-%d.json", i))
			sdir := filepath.Join(dir, fmt.Sprintf("s%d", i))
			os.MkdirAll(sdir, 0o755)
			cmd := exec.Command("/bin/sh", "-c", "ulimit -v 12000000; exec \"$0\" \"$@\"", os.Args[0],
				"-test.run", "^TestCheck$", "-test.timeout", "0")
			cmd.Env = append(os.Environ(),
				fmt.Sprintf("VERIF_SHARD=%d/%d", i, n), "VERIF_PART="+part, "VERIF_SHARD_OUT="+of,
				"VERIF_SCRATCH="+sdir, "GOMAXPROCS=1")
			cmd.Env = append(cmd.Env, extraEnv...)
			var buf strings.Builder
			cmd.Stdout = &buf
			cmd.Stderr = &buf
			if err := cmd.Start(); err != nil {
				errs[i] = err
				return
			}
			done := make(chan error, 1)
			go func() { done <- cmd.Wait() }()
			select {
			case err := <-done:
				if err != nil {
					errs[i] = fmt.Errorf("shard %d: %v\n%s", i, err, tail(buf.String(), 4000))
					return
				}
			case <-time.After(timeout):
				cmd.Process.Kill()
				errs[i] = fmt.Errorf("shard %d: timeout after %s\n%s", i, timeout, tail(buf.String(), 2000))
				return
			}
			b, err := os.ReadFile(of)
			if err != nil {
				errs[i] = fmt.Errorf("shard %d: no reply: %v\n%s", i, err, tail(buf.String(), 4000))
				return
			}
			out[i] = b
		}(i)
	}
	wg.Wait()
	for _, e := range errs {
		if e != nil {
			return out, e
		}
	}
	return out, nil
}

func tail(s string, n int) string {
	if len(s) <= n {
		return s
	}
	return s[len(s)-n:]
}

// Scratch returns a private scratch directory (tmpfs when available).
func Scratch() string {
	if v := os.Getenv("VERIF_SCRATCH"); v != "" {
		return v
	}
	d, _ := os.MkdirTemp("", "verif-")
	return d
}

// ReplayPath returns the file given with --replay, if any.
func ReplayPath() string { return os.Getenv("VERIF_REPLAY") }

// ---- job children ------------------------------------------------------------

// Job reports the job index when this process is a job child.
func Job() (int, bool) {
	if part, ok := IsShard(); ok && strings.HasPrefix(part, "job:") {
		n, err := strconv.Atoi(strings.TrimPrefix(part, "job:"))
		return n, err == nil
	}
	return 0, false
}

// RunJobs runs jobs 0..n-1, each in its own child process of this test binary (so that process-global
// bottlenecks such as the SQLite allocator lock do not serialise them), at most `parallel` at a time, and
// merges what the children collected. The child calls r.Finish() after doing job Job().
func (r *Run) RunJobs(n, parallel int, timeout time.Duration) {
	if parallel <= 0 {
		parallel = 1
	}
	sem := make(chan struct{}, parallel)
	var wg sync.WaitGroup
	replies := make([][]byte, n)
	errs := make([]error, n)
	for i := 0; i < n; i++ {
		wg.Add(1)
		go func(i int) {
			defer wg.Done()
			sem <- struct{}{}
			defer func() { <-sem }()
			out, err := runOne(fmt.Sprintf("job:%d", i), i, n, timeout)
			replies[i], errs[i] = out, err
		}(i)
	}
	wg.Wait()
	for i := 0; i < n; i++ {
		if errs[i] != nil {
			r.Infra("job %d: %v", i, errs[i])
			continue
		}
		var p partial
		if err := json.Unmarshal(replies[i], &p); err != nil {
			r.Infra("job %d: bad reply: %v", i, err)
			continue
		}
		r.mu.Lock()
		for k, v := range p.Counters {
			r.counters[k] += v
		}
		for k, v := range p.Cov {
			if k == "cap_hit" {
				continue
			}
			r.cov[k] = v
		}
		for _, k := range p.Distinct {
			r.distinct[k] = struct{}{}
		}
		for _, s := range p.Samples {
			if len(r.samples) < r.maxSamples {
				r.samples = append(r.samples, s)
			}
		}
		for _, a := range p.Assumptions {
			dup := false
			for _, b := range r.assumptions {
				if a == b {
					dup = true
				}
			}
			if !dup {
				r.assumptions = append(r.assumptions, a)
			}
		}
		r.mu.Unlock()
		for _, c := range p.CapNotes {
			r.NotExhaustive(c)
		}
		for _, m := range p.Infra {
			r.Infra("job %d: %s", i, m)
		}
		for _, v := range p.Violations {
			r.Violation(v.Key, v.Msg, v.Replay, nil)
		}
	}
}

func runOne(part string, i, n int, timeout time.Duration) ([]byte, error) {
	scratch := os.Getenv("VERIF_SCRATCH")
	if scratch == "" {
		scratch = os.TempDir()
	}
	dir, err := os.MkdirTemp(scratch, "job-")
	if err != nil {
		return nil, err
	}
	defer os.RemoveAll(dir)
	of := filepath.Join(dir, "reply.json")
	cmd := exec.Command("/bin/sh", "-c", "ulimit -v 16000000; exec \"$0\" \"$@\"", os.Args[0], "-test.run", "^TestCheck$", "-test.timeout", "0")
	cmd.Env = append(os.Environ(), fmt.Sprintf("VERIF_SHARD=%d/%d", i, n), "VERIF_PART="+part, "VERIF_SHARD_OUT="+of, "VERIF_SCRATCH="+dir)
	var buf strings.Builder
	cmd.Stdout = &buf
	cmd.Stderr = &buf
	if err := cmd.Start(); err != nil {
		return nil, err
	}
	done := make(chan error, 1)
	go func() { done <- cmd.Wait() }()
	select {
	case err := <-done:
		if err != nil {
			return nil, fmt.Errorf("%v\n%s", err, tail(buf.String(), 4000))
		}
	case <-time.After(timeout):
		cmd.Process.Kill()
		return nil, fmt.Errorf("timeout after %s\n%s", timeout, tail(buf.String(), 2000))
	}
	b, err := os.ReadFile(of)
	if err != nil {
		return nil, fmt.Errorf("no reply: %v\n%s", err, tail(buf.String(), 4000))
	}
	return b, nil
}
