// Package vrand replaces "math/rand" in dispatcher/push.go so that the harness
// answers rand.Float64 (the retry jitter draw).
package vrand

import (
	"math/rand"
	"sync"
)

var (
	mu     sync.Mutex
	answer func() float64
)

// SetFloat64 installs the harness answer (nil restores the real generator).
func SetFloat64(f func() float64) {
	mu.Lock()
	answer = f
	mu.Unlock()
}

func Float64() float64 {
	mu.Lock()
	f := answer
	mu.Unlock()
	if f != nil {
		return f()
	}
	return rand.Float64()
}

func Int63n(n int64) int64 { return rand.Int63n(n) }
func Intn(n int) int       { return rand.Intn(n) }
func Int63() int64         { return rand.Int63() }
func Int() int             { return rand.Int() }
func Seed(int64)           {}
