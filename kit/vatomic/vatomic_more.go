package vatomic

import "github.com/nuetzliches/hookaido/internal/verifkit/sched"

// methods of the sync/atomic types that the first version of the shim lacked (a changed tree may start using them)

func (x *Int32) Swap(n int32) int32     { sched.Point(sched.OpAtomic, x, nil); return x.v.Swap(n) }
func (x *Int32) And(m int32) int32      { sched.Point(sched.OpAtomic, x, nil); return x.v.And(m) }
func (x *Int32) Or(m int32) int32       { sched.Point(sched.OpAtomic, x, nil); return x.v.Or(m) }
func (x *Int64) And(m int64) int64      { sched.Point(sched.OpAtomic, x, nil); return x.v.And(m) }
func (x *Int64) Or(m int64) int64       { sched.Point(sched.OpAtomic, x, nil); return x.v.Or(m) }
func (x *Uint64) Swap(n uint64) uint64  { sched.Point(sched.OpAtomic, x, nil); return x.v.Swap(n) }
func (x *Uint64) And(m uint64) uint64   { sched.Point(sched.OpAtomic, x, nil); return x.v.And(m) }
func (x *Uint64) Or(m uint64) uint64    { sched.Point(sched.OpAtomic, x, nil); return x.v.Or(m) }
func (x *Uint64) CompareAndSwap(o, n uint64) bool {
	sched.Point(sched.OpAtomic, x, nil)
	return x.v.CompareAndSwap(o, n)
}
func (x *Value) Swap(v any) any { sched.Point(sched.OpAtomic, x, nil); return x.v.Swap(v) }
func (x *Value) CompareAndSwap(o, n any) bool {
	sched.Point(sched.OpAtomic, x, nil)
	return x.v.CompareAndSwap(o, n)
}
func (x *Pointer[T]) Swap(p *T) *T { sched.Point(sched.OpAtomic, x, nil); return x.v.Swap(p) }
func (x *Pointer[T]) CompareAndSwap(o, n *T) bool {
	sched.Point(sched.OpAtomic, x, nil)
	return x.v.CompareAndSwap(o, n)
}
