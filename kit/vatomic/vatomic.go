// Package vatomic replaces "sync/atomic" in the packages under test: every
// access is an always-enabled scheduler point followed by the real operation.
package vatomic

import (
	"sync/atomic"

	"github.com/nuetzliches/hookaido/internal/verifkit/sched"
)

type Int64 struct{ v atomic.Int64 }

func (x *Int64) Load() int64 { sched.PointR(sched.OpAtomic, x, nil); return x.v.Load() }
func (x *Int64) Store(n int64) { sched.Point(sched.OpAtomic, x, nil); x.v.Store(n) }
func (x *Int64) Add(d int64) int64 { sched.Point(sched.OpAtomic, x, nil); return x.v.Add(d) }
func (x *Int64) Swap(n int64) int64 { sched.Point(sched.OpAtomic, x, nil); return x.v.Swap(n) }
func (x *Int64) CompareAndSwap(o, n int64) bool {
	sched.Point(sched.OpAtomic, x, nil)
	return x.v.CompareAndSwap(o, n)
}

type Int32 struct{ v atomic.Int32 }

func (x *Int32) Load() int32 { sched.PointR(sched.OpAtomic, x, nil); return x.v.Load() }
func (x *Int32) Store(n int32) { sched.Point(sched.OpAtomic, x, nil); x.v.Store(n) }
func (x *Int32) Add(d int32) int32 { sched.Point(sched.OpAtomic, x, nil); return x.v.Add(d) }
func (x *Int32) CompareAndSwap(o, n int32) bool {
	sched.Point(sched.OpAtomic, x, nil)
	return x.v.CompareAndSwap(o, n)
}

type Uint64 struct{ v atomic.Uint64 }

func (x *Uint64) Load() uint64 { sched.PointR(sched.OpAtomic, x, nil); return x.v.Load() }
func (x *Uint64) Store(n uint64) { sched.Point(sched.OpAtomic, x, nil); x.v.Store(n) }
func (x *Uint64) Add(d uint64) uint64 { sched.Point(sched.OpAtomic, x, nil); return x.v.Add(d) }

type Bool struct{ v atomic.Bool }

func (x *Bool) Load() bool { sched.PointR(sched.OpAtomic, x, nil); return x.v.Load() }
func (x *Bool) Store(b bool) { sched.Point(sched.OpAtomic, x, nil); x.v.Store(b) }
func (x *Bool) Swap(b bool) bool { sched.Point(sched.OpAtomic, x, nil); return x.v.Swap(b) }
func (x *Bool) CompareAndSwap(o, n bool) bool {
	sched.Point(sched.OpAtomic, x, nil)
	return x.v.CompareAndSwap(o, n)
}

type Value struct{ v atomic.Value }

func (x *Value) Load() any { sched.PointR(sched.OpAtomic, x, nil); return x.v.Load() }
func (x *Value) Store(v any) { sched.Point(sched.OpAtomic, x, nil); x.v.Store(v) }

type Pointer[T any] struct{ v atomic.Pointer[T] }

func (x *Pointer[T]) Load() *T { sched.PointR(sched.OpAtomic, x, nil); return x.v.Load() }
func (x *Pointer[T]) Store(p *T) { sched.Point(sched.OpAtomic, x, nil); x.v.Store(p) }

func LoadInt64(p *int64) int64 { sched.PointR(sched.OpAtomic, p, nil); return atomic.LoadInt64(p) }
func StoreInt64(p *int64, n int64) { sched.Point(sched.OpAtomic, p, nil); atomic.StoreInt64(p, n) }
func AddInt64(p *int64, d int64) int64 { sched.Point(sched.OpAtomic, p, nil); return atomic.AddInt64(p, d) }
func CompareAndSwapInt64(p *int64, o, n int64) bool {
	sched.Point(sched.OpAtomic, p, nil)
	return atomic.CompareAndSwapInt64(p, o, n)
}
func LoadInt32(p *int32) int32 { sched.PointR(sched.OpAtomic, p, nil); return atomic.LoadInt32(p) }
func StoreInt32(p *int32, n int32) { sched.Point(sched.OpAtomic, p, nil); atomic.StoreInt32(p, n) }
func AddInt32(p *int32, d int32) int32 { sched.Point(sched.OpAtomic, p, nil); return atomic.AddInt32(p, d) }
func CompareAndSwapInt32(p *int32, o, n int32) bool {
	sched.Point(sched.OpAtomic, p, nil)
	return atomic.CompareAndSwapInt32(p, o, n)
}
func LoadUint64(p *uint64) uint64 { sched.PointR(sched.OpAtomic, p, nil); return atomic.LoadUint64(p) }
func AddUint64(p *uint64, d uint64) uint64 { sched.Point(sched.OpAtomic, p, nil); return atomic.AddUint64(p, d) }
