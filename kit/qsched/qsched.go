// Package qsched is the shared concurrent store harness for the sched engine:
// a real store (memory or SQLite) is created inside the execution's bubble,
// harness threads run short scripts of Store operations, every call/return is
// logged, and the oracle checks linearizability against qmodel plus a direct
// lease-exclusivity monitor.
package qsched

import (
	"fmt"
	"os"
	"path/filepath"
	"sort"
	"strings"
	"time"

	"github.com/nuetzliches/hookaido/internal/queue"
	"github.com/nuetzliches/hookaido/internal/verifkit/lin"
	"github.com/nuetzliches/hookaido/internal/verifkit/qmodel"
	"github.com/nuetzliches/hookaido/internal/verifkit/sched"
	"github.com/nuetzliches/hookaido/internal/verifkit/vsql"
)

// Step of a thread script. Lease "own" / Leases containing "own" are replaced by the lease handle(s) the thread got
// from its most recent dequeue ("own" -> first item, "own2" -> second item); when that dequeue returned nothing the
// step is skipped.
type Step struct {
	Op qmodel.Op
}

type Thread struct {
	Name  string
	Steps []Step
	// Second: the thread works through the second store handle (Scenario.SecondHandle).
	Second bool
}

type Scenario struct {
	Name    string
	Backend string
	Cfg     qmodel.Config
	Setup   []qmodel.Op // applied sequentially before the threads start
	Threads []Thread
	// Ticks: a clock thread advances virtual time by each duration in turn, only while no operation is in flight.
	Ticks []time.Duration
	Dir   string // scratch directory for SQLite
	// SecondHandle (sqlite only): a second SQLiteStore with DEFAULT options is opened on the same file, the way the MCP
	// server's direct mode does next to a running gateway; statements outside write transactions become scheduling
	// points (vsql statement mode).
	SecondHandle bool
	// Wrap lets a harness put a layer (e.g. pullapi) between the scripts and the store; nil = Store calls.
}

type Recorded struct {
	Init   *qmodel.Model
	Events []lin.Event
}

func policy(c qmodel.Config) string {
	if c.DropOldest {
		return "drop_oldest"
	}
	return "reject"
}

// Body returns the function to pass to sched.Explore and a pointer that holds the record of the last execution.
func Body(sc Scenario) (func(x *sched.Exec), *Recorded) {
	rec := &Recorded{}
	body := func(x *sched.Exec) {
		c := sc.Cfg
		var st, st2 queue.Store
		var closeFn func()
		switch sc.Backend {
		case "memory":
			st = queue.NewMemoryStore(queue.WithQueueLimits(c.MaxDepth, policy(c)), queue.WithDeliveredRetention(c.DeliveredMaxAge))
			closeFn = func() {}
		case "sqlite":
			os.MkdirAll(sc.Dir, 0o755)
			vsql.SetStatementPoints(sc.SecondHandle)
			p := filepath.Join(sc.Dir, "q.db")
			for _, suf := range []string{"", "-wal", "-shm"} {
				os.Remove(p + suf)
			}
			s, err := queue.NewSQLiteStore(p, queue.WithSQLiteQueueLimits(c.MaxDepth, policy(c)), queue.WithSQLiteDeliveredRetention(c.DeliveredMaxAge),
				queue.WithSQLiteCheckpointInterval(0))
			if err != nil {
				x.Err = fmt.Errorf("open sqlite: %w", err)
				return
			}
			for _, l := range queue.VerifSilentLocks(s) {
				x.Silence(l)
			}
			st = s
			closeFn = func() { s.Close() }
			if sc.SecondHandle {
				s2, err := queue.NewSQLiteStore(p)
				if err != nil {
					x.Err = fmt.Errorf("open second sqlite handle: %w", err)
					s.Close()
					return
				}
				for _, l := range queue.VerifSilentLocks(s2) {
					x.Silence(l)
				}
				st2 = s2
				closeFn = func() { s2.Close(); s.Close(); vsql.SetStatementPoints(false) }
			}
		}
		var clk int64 // unused by the store (it reads the bubble clock); the driver wants a clock pointer
		drv := qmodel.NewDriver(st, &clk)
		drv2 := drv
		if st2 != nil {
			drv2 = drv.On(st2)
		}
		start := time.Now()
		cfg := c
		if sc.Backend == "sqlite" {
			cfg.SweepGranularity = 10 * time.Millisecond
		} else {
			cfg.DeliveredCountsAgainstDepth = true
		}
		m := qmodel.New(cfg, start.UnixNano())
		for _, op := range sc.Setup {
			if op.Kind == "tick" {
				time.Sleep(op.Dur) // the store reads the bubble's clock
			}
			obs := drv.Do(op)
			if why := m.Apply(op, obs, nil); why != "" {
				x.Err = fmt.Errorf("setup %s: %s", op, why)
				closeFn()
				return
			}
		}
		rec.Init = m
		rec.Events = nil
		logN := 0
		inflight := 0
		for _, th := range sc.Threads {
			th := th
			x.Go(th.Name, func() {
				var own []string
				for si, s := range th.Steps {
					if si > 0 && len(sc.Ticks) > 0 {
						// the worker is idle between two of its operations: the clock may move here (a lease that
						// expires while its holder does something else is the common case, not the exception)
						x.Yield("idle:" + th.Name)
					}
					op := s.Op
					skip := false
					sub := func(h string) string {
						switch h {
						case "own":
							if len(own) < 1 {
								skip = true
								return h
							}
							return own[0]
						case "own2":
							if len(own) < 2 {
								skip = true
								return h
							}
							return own[1]
						}
						return h
					}
					op.Lease = sub(op.Lease)
					if len(op.Leases) > 0 {
						ls := make([]string, len(op.Leases))
						for i, h := range op.Leases {
							ls[i] = sub(h)
						}
						op.Leases = ls
					}
					if skip {
						continue
					}
					call := logN
					logN++
					inflight++
					var obs *qmodel.Obs
					if th.Second {
						obs = drv2.Do(op)
					} else {
						obs = drv.Do(op)
					}
					inflight--
					ret := logN
					logN++
					if op.Kind == "deq" {
						own = nil
						for _, it := range obs.Items {
							own = append(own, it.Lease)
						}
					}
					rec.Events = append(rec.Events, lin.Event{Thread: th.Name, Op: op, Obs: obs, Call: call, Ret: ret})
					x.Logf("%s %s -> %s", th.Name, op, brief(obs))
				}
			})
		}
		if len(sc.Ticks) > 0 {
			x.Go("clock", func() {
				for _, d := range sc.Ticks {
					x.AdvanceWhen(d, func() bool { return inflight == 0 })
					pos := logN
					logN++
					rec.Events = append(rec.Events, lin.Event{Thread: "clock", Op: qmodel.Op{Kind: "tick", Dur: d}, Obs: &qmodel.Obs{Err: qmodel.OK}, Call: pos, Ret: pos})
					x.Logf("clock +%s", d)
				}
			})
		}
		x.Run()
		x.Finish()
		closeFn()
	}
	return body, rec
}

func brief(o *qmodel.Obs) string {
	var items []string
	for _, it := range o.Items {
		items = append(items, fmt.Sprintf("%s/%s", it.ID, it.Lease))
	}
	s := o.Err
	if len(items) > 0 {
		s += " " + strings.Join(items, ",")
	}
	if o.N != 0 {
		s += fmt.Sprintf(" n=%d", o.N)
	}
	if len(o.Conflicts) > 0 {
		s += fmt.Sprintf(" conflicts=%v", o.Conflicts)
	}
	return s
}

// Exclusivity is the direct monitor of C03 on one recorded execution, independent of qmodel: for every message the
// grants (lease handle, attempt) must be fresh, attempts of one incarnation must be 1,2,3,... without repetition, and
// between two grants of the same message some event that can end the earlier lease (successful ack/nack/mark-dead of
// that lease, an operator cancel/requeue naming the message, a clock advance to/after its expiry, a lease operation
// that reported it expired) must have been CALLED before the later dequeue RETURNED.
func Exclusivity(r *Recorded, ttl time.Duration) string {
	type grant struct {
		handle  string
		attempt int
		ev      lin.Event
	}
	grants := map[string][]grant{}
	seenHandle := map[string]bool{}
	for _, e := range r.Events {
		if e.Op.Kind != "deq" {
			continue
		}
		for _, it := range e.Obs.Items {
			if seenHandle[it.Lease] || strings.HasPrefix(it.Lease, "REUSED:") {
				return fmt.Sprintf("lease %s handed out twice", it.Lease)
			}
			seenHandle[it.Lease] = true
			grants[it.ID] = append(grants[it.ID], grant{it.Lease, it.Attempt, e})
		}
	}
	for id, gs := range grants {
		sort.Slice(gs, func(i, j int) bool { return gs[i].ev.Ret < gs[j].ev.Ret })
		for i := 1; i < len(gs); i++ {
			prev, cur := gs[i-1], gs[i]
			ended := false
			for _, e := range r.Events {
				if e.Call > cur.ev.Ret {
					continue
				}
				switch e.Op.Kind {
				case "ack", "nack", "dead":
					if e.Op.Lease == prev.handle && (e.Obs.Err == qmodel.OK || e.Obs.Err == qmodel.Expired) {
						ended = true
					}
				case "ext":
					if e.Op.Lease == prev.handle && e.Obs.Err == qmodel.Expired {
						ended = true
					}
				case "ackb", "nackb", "deadb":
					for _, h := range e.Op.Leases {
						if h == prev.handle {
							ended = true
						}
					}
				case "cancel", "requeue", "resume":
					for _, x := range e.Op.IDs {
						if strings.TrimSpace(x) == id {
							ended = true
						}
					}
				case "cancelf", "requeuef", "resumef":
					ended = true
				case "tick":
					ended = true // a clock advance may expire the lease; qmodel/lin decides the exact instant
				}
			}
			if !ended {
				return fmt.Sprintf("message %s was leased as %s and again as %s although nothing ended the first lease in between", id, prev.handle, cur.handle)
			}
		}
	}
	return ""
}
