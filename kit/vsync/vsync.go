// Package vsync replaces "sync" in the packages under test (import rewrite by
// verifgen). Outside an exploration every type behaves exactly like the real
// one; inside, blocking operations become scheduler points whose enabledness
// the controller evaluates, so no goroutine ever blocks inside a real lock.
package vsync

import (
	"sync"

	"github.com/nuetzliches/hookaido/internal/verifkit/sched"
)

type Locker = sync.Locker
type Pool = sync.Pool

type Mutex struct {
	real sync.Mutex
	held bool
}

func (m *Mutex) Lock() {
	if !sched.Active() {
		m.real.Lock()
		return
	}
	sched.Point(sched.OpLock, m, func() bool { return !m.held })
	m.held = true
	sched.Acquired(m, true)
}

func (m *Mutex) TryLock() bool {
	if !sched.Active() {
		return m.real.TryLock()
	}
	sched.Point(sched.OpLock, m, nil)
	if m.held {
		return false
	}
	m.held = true
	sched.Acquired(m, true)
	return true
}

func (m *Mutex) Unlock() {
	if !sched.Active() {
		m.real.Unlock()
		return
	}
	if !m.held {
		panic("vsync: unlock of unlocked mutex")
	}
	m.held = false
	sched.Released(m)
}

type RWMutex struct {
	real    sync.RWMutex
	writer  bool
	readers int
}

func (m *RWMutex) Lock() {
	if !sched.Active() {
		m.real.Lock()
		return
	}
	sched.Point(sched.OpLock, m, func() bool { return !m.writer && m.readers == 0 })
	m.writer = true
	sched.Acquired(m, true)
}

func (m *RWMutex) Unlock() {
	if !sched.Active() {
		m.real.Unlock()
		return
	}
	if !m.writer {
		panic("vsync: unlock of unlocked rwmutex")
	}
	m.writer = false
	sched.Released(m)
}

func (m *RWMutex) RLock() {
	if !sched.Active() {
		m.real.RLock()
		return
	}
	sched.PointR(sched.OpRLock, m, func() bool { return !m.writer })
	m.readers++
	sched.Acquired(m, false)
}

func (m *RWMutex) RUnlock() {
	if !sched.Active() {
		m.real.RUnlock()
		return
	}
	if m.readers <= 0 {
		panic("vsync: runlock of unlocked rwmutex")
	}
	m.readers--
	sched.Released(m)
}

func (m *RWMutex) RLocker() Locker { return (*rlocker)(m) }

type rlocker RWMutex

func (r *rlocker) Lock()   { (*RWMutex)(r).RLock() }
func (r *rlocker) Unlock() { (*RWMutex)(r).RUnlock() }

type Once struct {
	real    sync.Once
	done    bool
	running bool
}

func (o *Once) Do(f func()) {
	if !sched.Active() {
		o.real.Do(f)
		return
	}
	sched.Point(sched.OpOnce, o, func() bool { return !o.running })
	if o.done {
		return
	}
	o.running = true
	defer func() { o.running = false; o.done = true }()
	f()
}

type WaitGroup struct {
	real sync.WaitGroup
	n    int
}

func (w *WaitGroup) Add(d int) {
	if !sched.Active() {
		w.real.Add(d)
		return
	}
	w.n += d
	if w.n < 0 {
		panic("vsync: negative WaitGroup counter")
	}
}

func (w *WaitGroup) Done() { w.Add(-1) }

func (w *WaitGroup) Wait() {
	if !sched.Active() {
		w.real.Wait()
		return
	}
	sched.Point(sched.OpWait, w, func() bool { return w.n == 0 })
}

func (w *WaitGroup) Go(f func()) {
	w.Add(1)
	go func() {
		defer w.Done()
		f()
	}()
}

// Map: every operation is an always-enabled point on the map object.
type Map struct {
	real sync.Map
}

func (m *Map) Load(key any) (any, bool) {
	sched.PointR(sched.OpAtomic, m, nil)
	return m.real.Load(key)
}
func (m *Map) Store(key, value any) {
	sched.Point(sched.OpAtomic, m, nil)
	m.real.Store(key, value)
}
func (m *Map) LoadOrStore(key, value any) (any, bool) {
	sched.Point(sched.OpAtomic, m, nil)
	return m.real.LoadOrStore(key, value)
}
func (m *Map) LoadAndDelete(key any) (any, bool) {
	sched.Point(sched.OpAtomic, m, nil)
	return m.real.LoadAndDelete(key)
}
func (m *Map) Delete(key any) {
	sched.Point(sched.OpAtomic, m, nil)
	m.real.Delete(key)
}
func (m *Map) Swap(key, value any) (any, bool) {
	sched.Point(sched.OpAtomic, m, nil)
	return m.real.Swap(key, value)
}
func (m *Map) CompareAndSwap(key, old, new any) bool {
	sched.Point(sched.OpAtomic, m, nil)
	return m.real.CompareAndSwap(key, old, new)
}
func (m *Map) CompareAndDelete(key, old any) bool {
	sched.Point(sched.OpAtomic, m, nil)
	return m.real.CompareAndDelete(key, old)
}
func (m *Map) Range(f func(key, value any) bool) {
	sched.PointR(sched.OpAtomic, m, nil)
	m.real.Range(f)
}
func (m *Map) Clear() {
	sched.Point(sched.OpAtomic, m, nil)
	m.real.Clear()
}

func OnceFunc(f func()) func()                         { return sync.OnceFunc(f) }
func OnceValue[T any](f func() T) func() T             { return sync.OnceValue(f) }
func NewCond(l Locker) *sync.Cond                      { return sync.NewCond(l) }
func OnceValues[T1, T2 any](f func() (T1, T2)) func() (T1, T2) { return sync.OnceValues(f) }

type Cond = sync.Cond
