// Package schedrun runs one sched exploration sharded over child processes
// (each with GOMAXPROCS=1) and reports the merged result to the runner.
package schedrun

import (
	"encoding/json"
	"fmt"
	"os"
	"sort"
	"testing"
	"time"

	"github.com/nuetzliches/hookaido/internal/verifkit/runner"
	"github.com/nuetzliches/hookaido/internal/verifkit/sched"
)

type reply struct {
	Executions int
	Points     int
	MaxPoints  int
	Outcomes   map[string]int
	Exhaustive bool
	SleepCut   int
	Failure    *sched.Failure
	InfraErr   string
}

type Spec struct {
	Name     string
	Bound    int
	// Sleep: unbounded exploration with sleep sets (needs Bound < 0). The evidence names the reduction.
	Sleep    bool
	Shards   int
	MaxExecs int
	Budget   time.Duration
	Body     func(x *sched.Exec)
	// Oracle runs after every execution; it reports a violation with sched.Failf.
	Oracle func(x *sched.Exec)
	// VioKey names the violation class for known findings (default "sched:<name>").
	VioKey func(f *sched.Failure) string
}

type Summary struct {
	Executions int
	Points     int
	Outcomes   int
	Exhaustive bool
	Violation  bool
	SleepCut   int
	OutcomeSet map[string]bool
}

// Run explores spec. In a shard child whose VERIF_PART differs from spec.Name it does nothing.
func Run(r *runner.Run, t *testing.T, spec Spec) Summary {
	if part, child := runner.IsShard(); child {
		if part != "sched:"+spec.Name {
			return Summary{}
		}
		i, n := sched.ShardFromEnv()
		opt := sched.Options{Name: spec.Name, Bound: spec.Bound, Sleep: spec.Sleep, Shard: i, Shards: n, MaxExecs: spec.MaxExecs, OnExecution: spec.Oracle}
		if spec.Budget > 0 {
			opt.Deadline = time.Now().Add(spec.Budget)
		}
		res := sched.Explore(t, opt, spec.Body)
		rep := reply{Executions: res.Executions, Points: res.Points, MaxPoints: res.MaxPoints, Outcomes: res.Outcomes, Exhaustive: res.Exhaustive, Failure: res.Failure, SleepCut: res.SleepCut}
		if res.InfraErr != nil {
			rep.InfraErr = res.InfraErr.Error()
		}
		runner.ShardReply(rep)
	}
	if rp := runner.ReplayPath(); rp != "" {
		replay(r, t, spec, rp)
		return Summary{}
	}
	shards := spec.Shards
	if shards <= 0 {
		shards = 16
	}
	outs, err := runner.RunShards("sched:"+spec.Name, shards, spec.Budget+3*time.Minute)
	if err != nil {
		r.Infra("%s: %v", spec.Name, err)
		return Summary{}
	}
	sum := Summary{Exhaustive: true}
	outcomes := map[string]int{}
	var fail *sched.Failure
	for _, b := range outs {
		var rep reply
		if err := json.Unmarshal(b, &rep); err != nil {
			r.Infra("%s: bad shard reply: %v", spec.Name, err)
			return sum
		}
		if rep.InfraErr != "" {
			r.Infra("%s: %s", spec.Name, rep.InfraErr)
			return sum
		}
		sum.Executions += rep.Executions
		sum.Points += rep.Points
		sum.SleepCut += rep.SleepCut
		for k, v := range rep.Outcomes {
			outcomes[k] += v
		}
		if !rep.Exhaustive {
			sum.Exhaustive = false
		}
		if rep.Failure != nil && (fail == nil || len(rep.Failure.Schedule) < len(fail.Schedule)) {
			fail = rep.Failure
		}
	}
	sum.Outcomes = len(outcomes)
	sum.OutcomeSet = map[string]bool{}
	for k := range outcomes {
		sum.OutcomeSet[k] = true
	}
	r.Add("states", int64(sum.Executions))
	r.Add("transitions", int64(sum.Points))
	r.Add("traces_validated_against_impl", int64(sum.Executions))
	r.Set("sched:"+spec.Name, map[string]any{"executions": sum.Executions, "choice_points": sum.Points, "preemption_bound": spec.Bound,
		"distinct_outcomes": len(outcomes), "exhaustive_within_bound": sum.Exhaustive, "shards": shards})
	if spec.Sleep {
		r.Set("sched:"+spec.Name, map[string]any{"executions": sum.Executions, "choice_points": sum.Points, "preemption_bound": spec.Bound,
			"distinct_outcomes": len(outcomes), "exhaustive_within_bound": sum.Exhaustive, "shards": shards,
			"reduction": "sleep sets over lock/connection footprints", "executions_cut_as_redundant": sum.SleepCut})
	}
	if !sum.Exhaustive {
		r.NotExhaustive(fmt.Sprintf("%s: execution cap or time budget reached", spec.Name))
	}
	ks := make([]string, 0, len(outcomes))
	for k := range outcomes {
		ks = append(ks, k)
		r.Distinct(spec.Name + "|" + k)
	}
	sort.Strings(ks)
	if len(ks) > 0 {
		r.Sample(map[string]any{"scenario": spec.Name, "outcome": ks[len(ks)/2]})
	}
	if fail != nil {
		sum.Violation = true
		key := "sched:" + spec.Name
		if spec.VioKey != nil {
			key = spec.VioKey(fail)
		}
		f := fail
		r.Violation(key, fmt.Sprintf("[%s] %s\n  schedule: %v\n  trace: %s\n  log: %v", spec.Name, f.Message, f.Schedule, f.Trace, f.Log),
			map[string]any{"engine": "sched", "scenario": spec.Name, "schedule": f.Schedule, "trace": f.Trace, "log": f.Log, "message": f.Message},
			func() bool {
				res := sched.Explore(t, sched.Options{Name: spec.Name, Bound: spec.Bound, Replay: f.Schedule, OnExecution: spec.Oracle}, spec.Body)
				return res.Failure != nil && res.InfraErr == nil
			})
	}
	return sum
}

func replay(r *runner.Run, t *testing.T, spec Spec, path string) {
	b, err := os.ReadFile(path)
	if err != nil {
		r.Infra("replay: %v", err)
		return
	}
	var doc struct {
		Replay struct {
			Engine   string
			Scenario string
			Schedule []int
		}
	}
	if err := json.Unmarshal(b, &doc); err != nil || doc.Replay.Engine != "sched" || doc.Replay.Scenario != spec.Name {
		return
	}
	res := sched.Explore(t, sched.Options{Name: spec.Name, Bound: spec.Bound, Replay: doc.Replay.Schedule, OnExecution: spec.Oracle}, spec.Body)
	if res.InfraErr != nil {
		r.Infra("replay %s: %v", spec.Name, res.InfraErr)
		return
	}
	if res.Failure != nil {
		r.Violation("replay:"+spec.Name, res.Failure.Message+"\n  trace: "+res.Failure.Trace, map[string]any{"engine": "sched", "scenario": spec.Name, "schedule": doc.Replay.Schedule}, nil)
	} else {
		fmt.Printf("REPLAY property=%s scenario=%s: schedule no longer violates the property\n", r.Prop, spec.Name)
	}
	r.Add("states", int64(res.Executions))
	r.Add("transitions", int64(res.Points))
	r.Add("traces_validated_against_impl", int64(res.Executions))
	r.Sample(map[string]any{"replayed": path})
}
