package qcheck

import (
	"github.com/nuetzliches/hookaido/internal/queue"
	"bytes"
	"fmt"
	"path/filepath"
	"sort"
	"strings"
	"sync"
	"time"

	"github.com/nuetzliches/hookaido/internal/verifkit/bfs"
	"github.com/nuetzliches/hookaido/internal/verifkit/qmodel"
	"github.com/nuetzliches/hookaido/internal/verifkit/qsys"
	"github.com/nuetzliches/hookaido/internal/verifkit/runner"
)

// LockSpec: memory and SQLite driven by the same clock and the same operations.
type LockSpec struct {
	Name     string
	Cfg      qmodel.Config
	Alpha    Alpha
	Depth    int
	MaxTrans int64
	Deadline time.Time
	Workers  int
	// RootShard/RootShards split the search below the initial state over processes (see bfs.Engine).
	RootShard, RootShards int
	// ScaleCompaction: see Spec.ScaleCompaction (memory side).
	ScaleCompaction bool
	// Prefix: see Spec.Prefix (applied to both backends; must be divergence-free itself).
	Prefix     []qmodel.Op
	PrefixName string
}

type LockResult struct {
	*bfs.Result[qmodel.Op]
	Permitted   map[string]int64 // permitted divergences by class
	ModelReject int64
	ConfigLabel string
}

type pair struct{ mem, sql *qsys.Sys }

func msgEq(a, b *qmodel.Msg, withLease bool) string {
	switch {
	case a.ID != b.ID:
		return "id"
	case a.Route != b.Route:
		return "route"
	case a.Target != b.Target:
		return "target"
	case a.State != b.State:
		return fmt.Sprintf("state(%s/%s)", a.State, b.State)
	case a.ReceivedAt != b.ReceivedAt:
		return "received_at"
	case a.NextRunAt != b.NextRunAt:
		return fmt.Sprintf("next_run_at(%d/%d)", a.NextRunAt-qsys.T0, b.NextRunAt-qsys.T0)
	case a.Attempt != b.Attempt:
		return fmt.Sprintf("attempt(%d/%d)", a.Attempt, b.Attempt)
	case !bytes.Equal(a.Payload, b.Payload):
		return "payload"
	case !mapEq(a.Headers, b.Headers):
		return "headers"
	case !mapEq(a.Trace, b.Trace):
		return "trace"
	case a.DeadReason != b.DeadReason:
		return "dead_reason"
	case a.SchemaVersion != b.SchemaVersion:
		return "schema_version"
	}
	if withLease {
		if a.Lease != b.Lease {
			return fmt.Sprintf("lease(%s/%s)", a.Lease, b.Lease)
		}
		if a.LeaseUntil != b.LeaseUntil {
			return "lease_until"
		}
	}
	return ""
}

func mapEq(a, b map[string]string) bool {
	if len(a) != len(b) {
		return false
	}
	for k, v := range a {
		if w, ok := b[k]; !ok || w != v {
			return false
		}
	}
	return true
}

func snapDiff(a, b []qmodel.Msg) string {
	am := map[string]*qmodel.Msg{}
	for i := range a {
		am[a[i].ID] = &a[i]
	}
	var diffs []string
	seen := map[string]bool{}
	for i := range b {
		seen[b[i].ID] = true
		x, ok := am[b[i].ID]
		if !ok {
			diffs = append(diffs, fmt.Sprintf("%s only in sqlite(%s)", b[i].ID, b[i].State))
			continue
		}
		if d := msgEq(x, &b[i], true); d != "" {
			diffs = append(diffs, fmt.Sprintf("%s differs in %s", b[i].ID, d))
		}
	}
	for i := range a {
		if !seen[a[i].ID] {
			diffs = append(diffs, fmt.Sprintf("%s only in memory(%s)", a[i].ID, a[i].State))
		}
	}
	sort.Strings(diffs)
	return strings.Join(diffs, "; ")
}

// obsDiff compares two answers; ordered says whether item order is part of the contract for this operation.
func obsDiff(kind string, a, b *qmodel.Obs) string {
	if a.Err != b.Err {
		return fmt.Sprintf("error class %s/%s", a.Err, b.Err)
	}
	if a.N != b.N || a.Matched != b.Matched || a.Preview != b.Preview {
		return fmt.Sprintf("counts (%d,%d,%v)/(%d,%d,%v)", a.N, a.Matched, a.Preview, b.N, b.Matched, b.Preview)
	}
	if len(a.Items) != len(b.Items) {
		return fmt.Sprintf("item count %d/%d", len(a.Items), len(b.Items))
	}
	ordered := kind == "list" || kind == "lookup"
	if ordered {
		for i := range a.Items {
			if d := msgEq(&a.Items[i], &b.Items[i], false); d != "" {
				return fmt.Sprintf("item %d (%s/%s) differs in %s", i, a.Items[i].ID, b.Items[i].ID, d)
			}
		}
	} else {
		bm := map[string]*qmodel.Msg{}
		for i := range b.Items {
			bm[b.Items[i].ID] = &b.Items[i]
		}
		for i := range a.Items {
			y, ok := bm[a.Items[i].ID]
			if !ok {
				return fmt.Sprintf("item sets differ: %s vs %s", idsOf(a.Items), idsOf(b.Items))
			}
			if d := msgEq(&a.Items[i], y, kind == "deq"); d != "" {
				return fmt.Sprintf("item %s differs in %s", y.ID, d)
			}
		}
		if kind == "listdead" {
			for i := range a.Items {
				if a.Items[i].ReceivedAt != b.Items[i].ReceivedAt {
					return "listdead order differs outside tie groups"
				}
			}
		}
	}
	ca := map[qmodel.Conflict]int{}
	for _, c := range a.Conflicts {
		ca[c]++
	}
	for _, c := range b.Conflicts {
		ca[c]--
	}
	for c, n := range ca {
		if n != 0 {
			return fmt.Sprintf("conflict lists differ at %+v (%v / %v)", c, a.Conflicts, b.Conflicts)
		}
	}
	if (a.Stats == nil) != (b.Stats == nil) {
		return "stats presence"
	}
	if a.Stats != nil {
		x, y := a.Stats, b.Stats
		if x.Total != y.Total || x.OldestQueuedReceivedAt != y.OldestQueuedReceivedAt || x.EarliestQueuedNextRun != y.EarliestQueuedNextRun ||
			x.OldestQueuedAge != y.OldestQueuedAge || x.ReadyLag != y.ReadyLag {
			return fmt.Sprintf("stats scalar fields %+v / %+v", *x, *y)
		}
		for k, v := range x.ByState {
			if y.ByState[k] != v {
				return fmt.Sprintf("stats by_state[%s] %d/%d", k, v, y.ByState[k])
			}
		}
		if len(x.Top) != len(y.Top) {
			return "stats top_queued length"
		}
		for i := range x.Top {
			if x.Top[i] != y.Top[i] {
				return fmt.Sprintf("stats top_queued[%d] %+v / %+v", i, x.Top[i], y.Top[i])
			}
		}
	}
	return ""
}

func idsOf(items []qmodel.Msg) string {
	var s []string
	for _, it := range items {
		s = append(s, it.ID)
	}
	sort.Strings(s)
	return "[" + strings.Join(s, ",") + "]"
}

// doBoth applies op to both backends. A churn (traffic on another route that leaves nothing behind) is only worth its
// thousands of store calls on the memory side, whose size thresholds it is after; on SQLite it would be a no-op that
// costs seconds, so it is answered as such there.
func doBoth(p *pair, op qmodel.Op) (*qmodel.Obs, *qmodel.Obs) {
	if op.Kind == "churn" {
		// what is left of a churn besides nothing: its dequeues sweep expired leases (and its calls may prune); one empty
		// dequeue on the churn's route does the same on the SQLite side
		ob := p.sql.Do(qmodel.Op{Kind: "deq", Route: "/zz-churn", Target: "zz", Batch: 1, TTL: time.Minute})
		if ob.Err == qmodel.OK && len(ob.Items) == 0 {
			ob = &qmodel.Obs{Err: qmodel.OK}
		}
		return p.mem.Do(op), ob
	}
	return p.mem.Do(op), p.sql.Do(op)
}

// permitted classifies a divergence that the contract leaves open (order in which equally eligible messages
// are chosen); "" = not permitted.
func permitted(pre *qmodel.Model, op qmodel.Op, oa, ob *qmodel.Obs, sa, sb []qmodel.Msg) string {
	ma, mb := pre.Clone(), pre.Clone()
	ma.Edges, mb.Edges = map[string]int{}, map[string]int{}
	if ma.Apply(op, oa, sa) != "" || mb.Apply(op, ob, sb) != "" {
		return ""
	}
	switch op.Kind {
	case "deq":
		if oa.Err == ob.Err && len(oa.Items) == len(ob.Items) {
			return "dequeue-choice-among-ready"
		}
	case "enq", "enqb":
		// both answers are legal and the queued rows that are candidates for eviction contain a received_at tie:
		// which of the equally old rows goes is the backend's choice, and with it whether the new id still collides
		if pre.Cfg.DropOldest && queuedTie(pre) {
			return "drop_oldest-victim-among-equal-received_at"
		}
	case "listdead":
		if oa.Err == ob.Err && len(oa.Items) == len(ob.Items) {
			return "listdead-tie-order"
		}
	}
	if pre.Cfg.DLQMaxDepth > 0 && oa.Err == ob.Err && obsDiff(op.Kind, oa, ob) == "" {
		// same answer, different dlq-depth prune victim among equal received_at
		return "dlq-depth-prune-tie"
	}
	if pre.Cfg.DLQMaxDepth > 0 && deadTieOverDepth(pre) {
		// the DLQ is over its depth limit and the candidates for the depth prune contain a tie: the prune that runs
		// inside this call removes one of several equally old dead rows (memory: map order, i.e. different from run to
		// run); whether an id of the call still exists, and what a listing shows, follows from that choice. Both
		// answers were validated against the contract above.
		return "dlq-depth-prune-tie"
	}
	return ""
}

// deadTieOverDepth: more dead rows than dlq max_depth, two of them equally old.
func deadTieOverDepth(m *qmodel.Model) bool {
	seen := map[int64]bool{}
	n, tie := 0, false
	for _, it := range m.Items {
		if it.State != qmodel.Dead {
			continue
		}
		n++
		if seen[it.ReceivedAt] {
			tie = true
		}
		seen[it.ReceivedAt] = true
	}
	return tie && n > m.Cfg.DLQMaxDepth
}

// knownCause recognises a divergence whose cause is precisely identified (so that a known-findings entry
// suppresses only that cause): the memory backend refuses with queue-full because it also counts delivered rows
// against max_depth while delivered retention is on, where SQLite (queued+leased only) goes on.
func knownCause(pre *qmodel.Model, op qmodel.Op, mem, sql *qmodel.Obs) string {
	if (op.Kind == "enq" || op.Kind == "enqb") && pre.Cfg.DropOldest && pre.Cfg.MaxDepth > 0 {
		// above max_depth (only reachable after an operator requeue/resume lifted the active count): the memory
		// backend evicts until the count is below the limit, SQLite's single Enqueue evicts exactly one
		active := 0
		for _, it := range pre.Items {
			if it.State == qmodel.Queued || it.State == qmodel.Leased {
				active++
			}
		}
		if active > pre.Cfg.MaxDepth {
			return "drop-count-above-max_depth-after-operator-requeue:" + op.Kind
		}
	}
	if (op.Kind == "enq" || op.Kind == "enqb") && mem.Err == qmodel.Full && sql.Err != qmodel.Full &&
		pre.Cfg.MaxDepth > 0 && pre.Cfg.DeliveredMaxAge > 0 {
		active, delivered := 0, 0
		for _, it := range pre.Items {
			switch it.State {
			case qmodel.Queued, qmodel.Leased:
				active++
			case qmodel.Delivered:
				delivered++
			}
		}
		n := len(op.Envs)
		if active+n <= pre.Cfg.MaxDepth && active+delivered+n > pre.Cfg.MaxDepth {
			return "memory-counts-delivered-against-max_depth:" + op.Kind
		}
	}
	return ""
}

func queuedTie(m *qmodel.Model) bool {
	seen := map[int64]bool{}
	for _, it := range m.Items {
		if it.State != qmodel.Queued {
			continue
		}
		if seen[it.ReceivedAt] {
			return true
		}
		seen[it.ReceivedAt] = true
	}
	return false
}

// RunLockstep executes the lock-step search.
func RunLockstep(spec LockSpec) *LockResult {
	if spec.Workers <= 0 {
		spec.Workers = 16
	}
	cfg := spec.Cfg
	cfg.SweepGranularity = 10 * time.Millisecond
	cfg.DeliveredCountsAgainstDepth = true
	if spec.ScaleCompaction {
		ScaleApplied = queue.VerifSetCompaction(2, 1)
		defer queue.VerifSetCompaction(1024, 4)
	}
	scratch := runner.Scratch()
	pairs := make([]*pair, spec.Workers)
	var initMu sync.Mutex
	get := func(w int) *pair {
		initMu.Lock()
		defer initMu.Unlock()
		if pairs[w] == nil {
			pairs[w] = &pair{
				mem: qsys.New("memory", cfg, ""),
				sql: qsys.New("sqlite", cfg, filepath.Join(scratch, fmt.Sprintf("%s-lock-w%d", spec.Name, w))),
			}
		}
		return pairs[w]
	}
	init := qmodel.New(cfg, qsys.T0)
	init.PostHasLeases = true
	init.Edges = map[string]int{}
	var mu sync.Mutex
	perm := map[string]int64{}
	var modelReject int64
	p0 := get(0)
	p0.mem.Reset()
	p0.sql.Reset()
	for i, h := range spec.Prefix {
		oa, ob := doBoth(p0, h)
		why := obsDiff(h.Kind, oa, ob)
		if why == "" {
			why = snapDiff(p0.mem.Snapshot(), p0.sql.Snapshot())
		}
		if why == "" {
			why = init.Apply(h, oa, p0.mem.Snapshot())
		}
		if why != "" {
			br := &bfs.Result[qmodel.Op]{Exhaustive: true, Outcomes: map[string]int64{}}
			br.Violations = append(br.Violations, bfs.Violation[qmodel.Op]{Hist: append([]qmodel.Op{}, spec.Prefix[:i]...), Op: h, Message: "(in the prefix history) " + why, Key: "diverge:prefix:" + h.Kind})
			return &LockResult{Result: br, Permitted: perm, ConfigLabel: ConfigLabel(spec.Cfg)}
		}
	}
	initKey := p0.mem.Key() + "##" + p0.sql.Key()

	eng := &bfs.Engine[*qmodel.Model, qmodel.Op]{
		Name: spec.Name, Workers: spec.Workers, MaxDepth: spec.Depth, MaxTrans: spec.MaxTrans, Deadline: spec.Deadline,
		RootShard: spec.RootShard, RootShards: spec.RootShards,
		Init: func() *qmodel.Model { return init }, InitKey: initKey, OpName: opName,
		Enabled: func(m *qmodel.Model, hist []qmodel.Op) []qmodel.Op { return spec.Alpha.Ops(m, handlesOf(m)) },
		Step: func(w int, hist []qmodel.Op, st *qmodel.Model, op qmodel.Op) bfs.StepResult[*qmodel.Model] {
			p := get(w)
			p.mem.Reset()
			p.sql.Reset()
			for _, h := range spec.Prefix {
				doBoth(p, h)
			}
			if cfg.DLQMaxDepth > 0 {
				// memory breaks DLQ-depth ties by map iteration order: a replay may take the other (equally legal) branch
				// and leave the two backends in different, both legal, states; such a replay is not extended
				for _, h := range hist {
					doBoth(p, h)
					if snapDiff(p.mem.Snapshot(), p.sql.Snapshot()) != "" {
						mu.Lock()
						perm["dlq-depth-prune-tie-on-replay"]++
						mu.Unlock()
						return bfs.StepResult[*qmodel.Model]{Key: "REPLAY-TIE:" + p.mem.Key() + "##" + p.sql.Key(), NoExtend: true, Label: "permitted:dlq-depth-prune-tie-on-replay"}
					}
				}
			} else {
				for _, h := range hist {
					doBoth(p, h)
				}
			}
			oa, ob := doBoth(p, op)
			sa := p.mem.Snapshot()
			sb := p.sql.Snapshot()
			d := obsDiff(op.Kind, oa, ob)
			where := "result"
			if d == "" {
				if d = snapDiff(sa, sb); d != "" {
					where = "contents"
				}
			}
			if d != "" {
				if cls := permitted(st, op, oa, ob, sa, sb); cls != "" {
					mu.Lock()
					perm[cls]++
					mu.Unlock()
					return bfs.StepResult[*qmodel.Model]{Key: "DIVERGED:" + p.mem.Key() + "##" + p.sql.Key(), NoExtend: true, Label: "permitted:" + cls}
				}
				vk := "diverge:" + op.Kind + ":" + classify(d)
				if c := knownCause(st, op, oa, ob); c != "" {
					vk = c
				}
				return bfs.StepResult[*qmodel.Model]{Violation: fmt.Sprintf("memory and sqlite diverge in %s: %s", where, d),
					VioKey: vk, Label: "diverge"}
			}
			m := st.Clone()
			m.Edges = map[string]int{}
			res := bfs.StepResult[*qmodel.Model]{Next: m, Key: p.mem.Key() + "##" + p.sql.Key(), Label: oa.Err}
			if why := m.Apply(op, oa, sa); why != "" {
				// both backends agree but the contract model objects: C02/C12 decide that; do not search below
				mu.Lock()
				modelReject++
				mu.Unlock()
				res.NoExtend = true
				res.Label = "model-reject"
			}
			return res
		},
	}
	br := eng.Run()
	for _, p := range pairs {
		if p != nil {
			p.mem.Close()
			p.sql.Close()
		}
	}
	return &LockResult{Result: br, Permitted: perm, ModelReject: modelReject, ConfigLabel: ConfigLabel(spec.Cfg)}
}

// classify reduces a difference description to a stable class (no ids, no numbers).
func classify(d string) string {
	d = strings.SplitN(d, ";", 2)[0]
	var b strings.Builder
	for _, f := range strings.Fields(d) {
		clean := strings.Map(func(r rune) rune {
			if (r >= '0' && r <= '9') || r == '(' || r == ')' || r == '[' || r == ']' || r == ',' || r == '/' {
				return -1
			}
			return r
		}, f)
		if len(clean) <= 1 {
			continue
		}
		if b.Len() > 0 {
			b.WriteByte('_')
		}
		b.WriteString(clean)
		if b.Len() > 60 {
			break
		}
	}
	return b.String()
}

// ReplayLockstep re-executes one history and reports whether the last operation still diverges.
func ReplayLockstep(spec LockSpec, hist []qmodel.Op, op qmodel.Op) string {
	if spec.ScaleCompaction {
		queue.VerifSetCompaction(2, 1)
		defer queue.VerifSetCompaction(1024, 4)
	}
	cfg := spec.Cfg
	cfg.SweepGranularity = 10 * time.Millisecond
	cfg.DeliveredCountsAgainstDepth = true
	mem := qsys.New("memory", cfg, "")
	sql := qsys.New("sqlite", cfg, filepath.Join(runner.Scratch(), "replay-lock"))
	defer mem.Close()
	defer sql.Close()
	pr := &pair{mem: mem, sql: sql}
	for _, h := range hist {
		doBoth(pr, h)
	}
	oa, ob := doBoth(pr, op)
	if d := obsDiff(op.Kind, oa, ob); d != "" {
		return d
	}
	return snapDiff(mem.Snapshot(), sql.Snapshot())
}

func ReportLockstep(r *runner.Run, spec LockSpec, res *LockResult) {
	r.Add("states", res.States)
	r.Add("transitions", res.Transitions)
	r.Add("traces_validated_against_impl", res.Transitions)
	label := fmt.Sprintf("%s/%s", spec.Name, res.ConfigLabel)
	if spec.PrefixName != "" {
		label += "/from:" + spec.PrefixName
	}
	if spec.ScaleCompaction {
		if ScaleApplied {
			label += "/compaction-scaled"
		} else {
			label += "/compaction-scale-not-applicable"
		}
	}
	if spec.RootShards > 1 {
		label += fmt.Sprintf("/shard%d-of-%d", spec.RootShard, spec.RootShards)
	}
	r.Set("run:"+label, map[string]any{
		"states": res.States, "transitions": res.Transitions, "depth_completed": res.DepthCompleted, "depth_target": spec.Depth,
		"exhaustive": res.Exhaustive, "cap_hit": res.CapHit, "permitted_divergences": res.Permitted, "agreeing_but_model_rejected": res.ModelReject,
	})
	if !res.Exhaustive {
		r.NotExhaustive(fmt.Sprintf("%s: %s after depth %d", label, res.CapHit, res.DepthCompleted))
	}
	for k, v := range res.Outcomes {
		r.Add("outcome:"+k, v)
		r.Distinct("outcome:" + k)
	}
	for _, h := range res.SampleHists {
		txt := make([]string, len(h))
		for i, o := range h {
			txt[i] = o.String()
		}
		r.Sample(map[string]any{"run": label, "history": txt})
	}
	for _, v := range res.Violations {
		v := v
		if len(spec.Prefix) > 0 && !strings.HasPrefix(v.Message, "(in the prefix history)") {
			v.Hist = append(append([]qmodel.Op{}, spec.Prefix...), v.Hist...)
		}
		hist := make([]string, len(v.Hist))
		for i, h := range v.Hist {
			hist[i] = h.String()
		}
		r.Violation(v.Key, fmt.Sprintf("[%s] after %v, operation %s: %s", label, hist, v.Op, v.Message),
			map[string]any{"engine": "bfs-lockstep", "harness": spec.Name, "config": spec.Cfg, "history": v.Hist, "op": v.Op, "history_text": hist, "op_text": v.Op.String()},
			func() bool { return ReplayLockstep(spec, v.Hist, v.Op) != "" })
	}
}
