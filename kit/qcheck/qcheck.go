// Package qcheck is the shared store-level explicit-state check: the real
// backend(s) are driven through every operation sequence of a small alphabet
// up to a depth, each transition is validated against qmodel, and states are
// de-duplicated on the implementation state. C02, C04, C05, C12, C13 and C14
// instantiate it with different alphabets, configurations and extra oracles.
package qcheck

import (
	"github.com/nuetzliches/hookaido/internal/queue"
	"encoding/json"
	"fmt"
	"os"
	"path/filepath"
	"sort"
	"strings"
	"sync"
	"time"

	"github.com/nuetzliches/hookaido/internal/verifkit/bfs"
	"github.com/nuetzliches/hookaido/internal/verifkit/qmodel"
	"github.com/nuetzliches/hookaido/internal/verifkit/qsys"
	"github.com/nuetzliches/hookaido/internal/verifkit/runner"
)

const (
	Sec = time.Second
)

// Alpha selects the operation alphabet.
type Alpha struct {
	IDs        []string // message ids; id i has route Routes[i%len] and target Targets[i%len]
	Routes     []string
	Targets    []string
	EnqPast    bool // enqueue variants with explicit received_at in the past / next_run_at in the future
	EnqBatch   bool
	Deq        []DeqSpec
	LeaseOps   []string // subset of ack nack nackd ext ext0 extneg dead
	LeaseBatch bool
	StaleIDs   bool // present unknown and blank lease ids too
	Operator   []string
	Filters    []qmodel.Filter // by-filter variants (applied to cancelf/requeuef/resumef as listed in FilterOps)
	FilterOps  []string
	Reads      []string // list listdead stats lookup
	Lists      []qmodel.ListSpec
	Ticks      []time.Duration
	// Churn > 0: one operation lets that many messages pass through a route of their own (enqueue, dequeue, ack each);
	// use only without delivered retention and limits. It reaches size thresholds of the store's bookkeeping (the
	// memory store compacts its order list at 1024 entries) that single steps cannot.
	Churn int
	// Reopen (SQLite searches only): a restart of the process on the same database file is an operation of the
	// alphabet; the contract says it changes nothing and every lease a worker holds stays what it was.
	Reopen bool
	MaxHandles int // only the newest MaxHandles lease handles are offered (0 = all)
}

type DeqSpec struct {
	Route, Target string
	Batch         int
	TTL           time.Duration
}

func (a Alpha) spec(i int) qmodel.EnvSpec {
	return qmodel.EnvSpec{ID: a.IDs[i], Route: a.Routes[i%len(a.Routes)], Target: a.Targets[i%len(a.Targets)],
		Payload: []byte("p-" + a.IDs[i]), Headers: map[string]string{"X-Id": a.IDs[i]}}
}

// Prefix is a named fixed history that leads to a non-initial start state.
type Prefix struct {
	Name string
	Ops  []qmodel.Op
}

// RichPrefixes: populations that a bounded search from the empty queue reaches only near its horizon - parked (dead,
// canceled) and settled messages next to live ones, a delayed message, an expired but not yet swept lease. Every
// prefix is validated against the model before the search starts from its end state.
func RichPrefixes(a Alpha) []Prefix {
	e := func(i int) qmodel.Op { return qmodel.Op{Kind: "enq", Envs: []qmodel.EnvSpec{a.spec(i)}} }
	deq := func(b int) qmodel.Op { return qmodel.Op{Kind: "deq", Batch: b, TTL: 2 * Sec} }
	h := func(i int) string { return a.IDs[i] + "#1" }
	return []Prefix{
		{"a-dead,b-settled,c-queued", []qmodel.Op{e(0), e(1), deq(2), {Kind: "dead", Lease: h(0), Reason: "boom"}, {Kind: "ack", Lease: h(1)}, e(2)}},
		{"a-canceled,b-delayed,c-queued", []qmodel.Op{e(0), e(1), e(2), deq(2), {Kind: "nack", Lease: h(1), Delay: 5 * Sec}, {Kind: "cancel", IDs: []string{a.IDs[0]}}}},
		{"a-lease-expired,b-dead,c-leased", []qmodel.Op{e(0), e(1), deq(2), {Kind: "dead", Lease: h(1), Reason: "boom"}, {Kind: "tick", Dur: 2 * Sec}, e(2), {Kind: "deq", Route: a.Routes[2%len(a.Routes)], Batch: 1, TTL: 2 * Sec}}},
	}
}

// Ops lists the alphabet in a state, simplest first.
func (a Alpha) Ops(m *qmodel.Model, handles []string) []qmodel.Op {
	var ops []qmodel.Op
	for i := range a.IDs {
		ops = append(ops, qmodel.Op{Kind: "enq", Envs: []qmodel.EnvSpec{a.spec(i)}})
	}
	if a.EnqPast {
		e := a.spec(0)
		e.ReceivedAt = m.Now - int64(time.Hour)
		ops = append(ops, qmodel.Op{Kind: "enq", Envs: []qmodel.EnvSpec{e}})
		if len(a.IDs) > 1 {
			f := a.spec(1)
			f.NextRunAt = m.Now + int64(5*Sec)
			ops = append(ops, qmodel.Op{Kind: "enq", Envs: []qmodel.EnvSpec{f}})
		}
	}
	if a.EnqBatch {
		n := len(a.IDs)
		ops = append(ops, qmodel.Op{Kind: "enqb", Envs: []qmodel.EnvSpec{a.spec(n - 1)}})
		if n >= 2 {
			ops = append(ops, qmodel.Op{Kind: "enqb", Envs: []qmodel.EnvSpec{a.spec(0), a.spec(1)}})
			ops = append(ops, qmodel.Op{Kind: "enqb", Envs: []qmodel.EnvSpec{a.spec(1), a.spec(n - 1)}})
			ops = append(ops, qmodel.Op{Kind: "enqb", Envs: []qmodel.EnvSpec{a.spec(0), a.spec(0)}})
		}
		if n >= 3 {
			ops = append(ops, qmodel.Op{Kind: "enqb", Envs: []qmodel.EnvSpec{a.spec(0), a.spec(1), a.spec(2)}})
		}
	}
	for _, d := range a.Deq {
		ops = append(ops, qmodel.Op{Kind: "deq", Route: d.Route, Target: d.Target, Batch: d.Batch, TTL: d.TTL})
	}
	hs := handles
	if a.MaxHandles > 0 && len(hs) > a.MaxHandles {
		// newest handles = highest attempt per id; keep it simple: the lexicographically last ones
		hs = hs[len(hs)-a.MaxHandles:]
	}
	leases := append([]string{}, hs...)
	if a.StaleIDs {
		leases = append(leases, "lease_unknown", " ")
	}
	for _, h := range leases {
		for _, k := range a.LeaseOps {
			switch k {
			case "ack":
				ops = append(ops, qmodel.Op{Kind: "ack", Lease: h})
			case "nack":
				ops = append(ops, qmodel.Op{Kind: "nack", Lease: h})
			case "nackd":
				ops = append(ops, qmodel.Op{Kind: "nack", Lease: h, Delay: 5 * Sec})
			case "nackneg":
				ops = append(ops, qmodel.Op{Kind: "nack", Lease: h, Delay: -Sec})
			case "ext":
				ops = append(ops, qmodel.Op{Kind: "ext", Lease: h, Delay: Sec})
			case "ext0":
				ops = append(ops, qmodel.Op{Kind: "ext", Lease: h, Delay: 0})
			case "dead":
				ops = append(ops, qmodel.Op{Kind: "dead", Lease: h, Reason: "boom"})
			}
		}
	}
	if a.LeaseBatch {
		var sets [][]string
		if len(hs) >= 1 {
			sets = append(sets, []string{hs[0], hs[0]}, []string{hs[len(hs)-1], "lease_unknown", " "})
		}
		if len(hs) >= 2 {
			sets = append(sets, []string{hs[0], hs[1]}, []string{hs[len(hs)-1], hs[0]})
		}
		if len(hs) == 0 {
			sets = append(sets, []string{"lease_unknown", ""})
		}
		for _, s := range sets {
			ops = append(ops, qmodel.Op{Kind: "ackb", Leases: s}, qmodel.Op{Kind: "nackb", Leases: s, Delay: 5 * Sec}, qmodel.Op{Kind: "deadb", Leases: s, Reason: "boom"})
		}
	}
	for _, k := range a.Operator {
		ops = append(ops, qmodel.Op{Kind: k, IDs: []string{a.IDs[0]}})
		if len(a.IDs) > 1 {
			ops = append(ops, qmodel.Op{Kind: k, IDs: []string{a.IDs[1], " " + a.IDs[0] + " ", a.IDs[1], "", "nope"}})
		}
	}
	for _, k := range a.FilterOps {
		for _, f := range a.Filters {
			ops = append(ops, qmodel.Op{Kind: k, Filter: f})
		}
	}
	for _, k := range a.Reads {
		switch k {
		case "list":
			if len(a.Lists) == 0 {
				ops = append(ops, qmodel.Op{Kind: "list", List: qmodel.ListSpec{Order: "asc"}})
			}
			for _, l := range a.Lists {
				ops = append(ops, qmodel.Op{Kind: "list", List: l})
			}
		case "listdead":
			ops = append(ops, qmodel.Op{Kind: "listdead"})
			ops = append(ops, qmodel.Op{Kind: "listdead", List: qmodel.ListSpec{Limit: 1}})
		case "stats":
			ops = append(ops, qmodel.Op{Kind: "stats"})
		case "lookup":
			ops = append(ops, qmodel.Op{Kind: "lookup", IDs: []string{a.IDs[len(a.IDs)-1], " " + a.IDs[0], a.IDs[0], "nope"}})
		}
	}
	if a.Reopen {
		ops = append(ops, qmodel.Op{Kind: "reopen"})
	}
	if a.Churn > 0 && !m.Churned {
		ops = append(ops, qmodel.Op{Kind: "churn", Batch: a.Churn})
	}
	for _, d := range a.Ticks {
		ops = append(ops, qmodel.Op{Kind: "tick", Dur: d})
	}
	return ops
}

// Spec of one single-backend run.
type Spec struct {
	Name     string
	Backend  string
	Cfg      qmodel.Config
	Alpha    Alpha
	Depth    int
	MaxTrans int64
	Deadline time.Time
	Workers  int
	// RootShard/RootShards split the search below the initial state over processes (see bfs.Engine).
	RootShard, RootShards int
	// Prefix: a fixed history applied (and validated against the model) before the search starts, so that the search
	// begins in a non-initial state ("rich" populations a bounded depth cannot reach from the empty queue). Lease
	// handles the prefix obtained are known to the alphabet. PrefixName labels the run.
	Prefix     []qmodel.Op
	PrefixName string
	// ScaleCompaction (memory backend): lower the order-list compaction thresholds (1024 entries, factor 4) to 2 and 1
	// so that compactions happen inside the explored histories; the reference model is unchanged (a compaction must
	// be unobservable).
	ScaleCompaction bool
	// Extra runs after qmodel accepted the transition; pre is the model before the operation.
	Extra func(pre, post *qmodel.Model, op qmodel.Op, obs *qmodel.Obs) string
	// Skip prunes successor states that are outside the property's quantifier.
	Skip func(m *qmodel.Model) bool
	// VioKey derives the known-finding key of a violation (default: op kind + first words).
	VioKey func(hist []qmodel.Op, op qmodel.Op, msg string) string
}

type Result struct {
	*bfs.Result[qmodel.Op]
	Edges       map[string]int
	FastResets  int
	Reopens     int
	SelfChecks  int
	Backend     string
	ConfigLabel string
}

func ConfigLabel(c qmodel.Config) string {
	var p []string
	if c.MaxDepth > 0 {
		p = append(p, fmt.Sprintf("max_depth=%d", c.MaxDepth))
		if c.DropOldest {
			p = append(p, "drop_oldest")
		} else {
			p = append(p, "reject")
		}
	}
	if c.RetentionMaxAge > 0 {
		p = append(p, fmt.Sprintf("queue_retention=%s/%s", c.RetentionMaxAge, c.PruneInterval))
	}
	if c.DeliveredMaxAge > 0 {
		p = append(p, fmt.Sprintf("delivered_retention=%s", c.DeliveredMaxAge))
	}
	if c.DLQMaxAge > 0 || c.DLQMaxDepth > 0 {
		p = append(p, fmt.Sprintf("dlq_retention=%s/%d", c.DLQMaxAge, c.DLQMaxDepth))
	}
	if len(p) == 0 {
		return "no-limits"
	}
	return strings.Join(p, ",")
}

func opName(op qmodel.Op) string { return op.Kind }

// ScaleApplied reports whether the last ScaleCompaction request found the literals in the code under test.
var ScaleApplied bool

// Run executes the search.
func Run(spec Spec) *Result {
	if spec.Workers <= 0 {
		spec.Workers = 16
	}
	cfg := spec.Cfg
	if spec.Backend == "sqlite" && cfg.SweepGranularity == 0 {
		cfg.SweepGranularity = 10 * time.Millisecond
	}
	if spec.Backend == "memory" {
		cfg.DeliveredCountsAgainstDepth = true
	}
	if spec.ScaleCompaction && spec.Backend == "memory" {
		ScaleApplied = queue.VerifSetCompaction(2, 1)
		defer queue.VerifSetCompaction(1024, 4)
	}
	if spec.Backend != "sqlite" {
		spec.Alpha.Reopen = false
	}
	if spec.Backend != "memory" {
		spec.Alpha.Churn = 0 // the thresholds it is after are the memory store's; thousands of SQLite transactions per step are not affordable
	}
	scratch := runner.Scratch()
	systems := make([]*qsys.Sys, spec.Workers)
	var initMu sync.Mutex
	get := func(w int) *qsys.Sys {
		initMu.Lock()
		defer initMu.Unlock()
		if systems[w] == nil {
			systems[w] = qsys.New(spec.Backend, cfg, filepath.Join(scratch, fmt.Sprintf("%s-%s-w%d", spec.Name, spec.Backend, w)))
		}
		return systems[w]
	}
	edges := map[string]int{}
	init := qmodel.New(cfg, qsys.T0)
	init.Edges = edges // shared; guarded by edgeMu
	init.PostHasLeases = true
	revalidate := spec.Backend == "memory" && cfg.DLQMaxDepth > 0
	var edgeMu sync.Mutex
	var selfChecks int
	var stepN int64
	s0 := get(0)
	s0.Reset()
	base := init
	if len(spec.Prefix) > 0 {
		init = base.Clone()
		init.Edges = edges
		for i, h := range spec.Prefix {
			obs := s0.Do(h)
			if why := init.Apply(h, obs, s0.Snapshot()); why != "" {
				br := &bfs.Result[qmodel.Op]{Exhaustive: true, Outcomes: map[string]int64{}}
				br.Violations = append(br.Violations, bfs.Violation[qmodel.Op]{Hist: append([]qmodel.Op{}, spec.Prefix[:i]...), Op: h, Message: "(in the prefix history) " + why})
				return &Result{Result: br, Edges: edges, Backend: spec.Backend, ConfigLabel: ConfigLabel(spec.Cfg)}
			}
		}
	}
	initKey := s0.Key()

	eng := &bfs.Engine[*qmodel.Model, qmodel.Op]{
		Name: spec.Name, Workers: spec.Workers, MaxDepth: spec.Depth, MaxTrans: spec.MaxTrans, Deadline: spec.Deadline,
		RootShard: spec.RootShard, RootShards: spec.RootShards,
		Init: func() *qmodel.Model { return init }, InitKey: initKey, OpName: opName,
		Enabled: func(m *qmodel.Model, hist []qmodel.Op) []qmodel.Op {
			return spec.Alpha.Ops(m, handlesOf(m))
		},
		Step: func(w int, hist []qmodel.Op, st *qmodel.Model, op qmodel.Op) bfs.StepResult[*qmodel.Model] {
			sys := get(w)
			sys.Reset()
			local := map[string]int{}
			var m *qmodel.Model
			if revalidate {
				// The memory backend breaks DLQ-depth ties by map iteration order, so the same history may take another
				// (equally legal) branch when replayed: re-derive the model along the replay instead of trusting the
				// snapshot taken when the history was first explored.
				m = base.Clone()
				m.Edges = local
				for i, h := range append(append([]qmodel.Op{}, spec.Prefix...), hist...) {
					obs := sys.Do(h)
					if why := m.Apply(h, obs, sys.Snapshot()); why != "" {
						return bfs.StepResult[*qmodel.Model]{Violation: fmt.Sprintf("(while replaying step %d %s) %s", i, h, why), Label: obs.Err}
					}
				}
				st = m.Clone()
			} else {
				if len(spec.Prefix) > 0 {
					sys.Replay(spec.Prefix)
				}
				sys.Replay(hist)
				m = st.Clone()
				m.Edges = local
			}
			obs := sys.Do(op)
			post := sys.Snapshot()
			why := m.Apply(op, obs, post)
			label := obs.Err
			if why == "" && spec.Extra != nil {
				why = spec.Extra(st, m, op, obs)
			}
			if why == "" {
				if cq, cl, rq, rl, ok := sys.Counters(); ok && (cq != rq || cl != rl) {
					why = fmt.Sprintf("queue_counters (queued=%d leased=%d) differ from the real counts (%d, %d)", cq, cl, rq, rl)
				}
			}
			edgeMu.Lock()
			for k, v := range local {
				edges[k] += v
			}
			stepN++
			doSelf := spec.Backend == "sqlite" && stepN%1000 == 0
			edgeMu.Unlock()
			if why != "" {
				vk := ""
				if spec.VioKey != nil {
					vk = spec.VioKey(hist, op, why)
				}
				return bfs.StepResult[*qmodel.Model]{Violation: why, VioKey: vk, Label: label}
			}
			key := sys.Key()
			if doSelf {
				// self-check of the fast reset: re-derive this state on a freshly opened database
				sys.ForceReopen()
				sys.Reset()
				sys.Replay(spec.Prefix)
				sys.Replay(hist)
				sys.Do(op)
				if k2 := sys.Key(); k2 != key {
					return bfs.StepResult[*qmodel.Model]{Violation: "INFRA fast-reset self-check: state differs on a fresh database\n" + key + "\n" + k2, VioKey: "infra-selfcheck", Label: label}
				}
				edgeMu.Lock()
				selfChecks++
				edgeMu.Unlock()
			}
			m.Edges = edges
			res := bfs.StepResult[*qmodel.Model]{Next: m, Key: key, Label: label}
			if spec.Skip != nil && spec.Skip(m) {
				res.NoExtend = true
			}
			return res
		},
	}
	br := eng.Run()
	out := &Result{Result: br, Edges: edges, SelfChecks: selfChecks, Backend: spec.Backend, ConfigLabel: ConfigLabel(spec.Cfg)}
	for _, s := range systems {
		if s != nil {
			out.FastResets += s.FastResets
			out.Reopens += s.Reopens
			s.Close()
		}
	}
	return out
}

func handlesOf(m *qmodel.Model) []string {
	hs := make([]string, 0, len(m.Issued))
	for h := range m.Issued {
		hs = append(hs, h)
	}
	sort.Strings(hs)
	return hs
}

// Replay re-executes one history + operation on a fresh instance and returns the oracle verdict (used to
// re-check violations and by --replay).
func Replay(spec Spec, hist []qmodel.Op, op qmodel.Op) string {
	if spec.ScaleCompaction && spec.Backend == "memory" {
		queue.VerifSetCompaction(2, 1)
		defer queue.VerifSetCompaction(1024, 4)
	}
	cfg := spec.Cfg
	if spec.Backend == "sqlite" && cfg.SweepGranularity == 0 {
		cfg.SweepGranularity = 10 * time.Millisecond
	}
	if spec.Backend == "memory" {
		cfg.DeliveredCountsAgainstDepth = true
	}
	sys := qsys.New(spec.Backend, cfg, filepath.Join(runner.Scratch(), "replay-"+spec.Backend))
	defer sys.Close()
	m := qmodel.New(cfg, qsys.T0)
	m.PostHasLeases = true
	for i, h := range hist {
		obs := sys.Do(h)
		if why := m.Apply(h, obs, sys.Snapshot()); why != "" {
			return fmt.Sprintf("at step %d (%s): %s", i, h, why)
		}
	}
	pre := m.Clone()
	obs := sys.Do(op)
	why := m.Apply(op, obs, sys.Snapshot())
	if why == "" && spec.Extra != nil {
		why = spec.Extra(pre, m, op, obs)
	}
	if why == "" {
		// the same cross-check Run makes after every transition (without it a violation of this kind was filed as
		// "failed once but not on re-run", i.e. as an infrastructure error)
		if cq, cl, rq, rl, ok := sys.Counters(); ok && (cq != rq || cl != rl) {
			why = fmt.Sprintf("queue_counters (queued=%d leased=%d) differ from the real counts (%d, %d)", cq, cl, rq, rl)
		}
	}
	return why
}

// Report registers the outcome of a run with the runner (violations, counters, samples).
func Report(r *runner.Run, spec Spec, res *Result) {
	r.Add("states", res.States)
	r.Add("transitions", res.Transitions)
	r.Add("traces_validated_against_impl", res.Transitions)
	label := fmt.Sprintf("%s/%s/%s", spec.Name, spec.Backend, res.ConfigLabel)
	if spec.ScaleCompaction && spec.Backend == "memory" {
		if ScaleApplied {
			label += "/compaction-scaled"
		} else {
			label += "/compaction-scale-not-applicable"
		}
	}
	if spec.PrefixName != "" {
		label += "/from:" + spec.PrefixName
	}
	if spec.RootShards > 1 {
		label += fmt.Sprintf("/shard%d-of-%d", spec.RootShard, spec.RootShards)
	}
	r.Set("run:"+label, map[string]any{
		"states": res.States, "transitions": res.Transitions, "depth_completed": res.DepthCompleted, "depth_target": spec.Depth,
		"exhaustive": res.Exhaustive, "cap_hit": res.CapHit, "per_depth_new_states": res.PerDepth,
		"sqlite_fast_resets": res.FastResets, "sqlite_reopens": res.Reopens, "fast_reset_self_checks": res.SelfChecks,
	})
	if !res.Exhaustive {
		r.NotExhaustive(fmt.Sprintf("%s: %s after depth %d", label, res.CapHit, res.DepthCompleted))
	}
	for k, v := range res.Outcomes {
		r.Add("outcome:"+k, v)
		r.Distinct("outcome:" + k)
	}
	for _, h := range res.SampleHists {
		txt := make([]string, len(h))
		for i, o := range h {
			txt[i] = o.String()
		}
		r.Sample(map[string]any{"run": label, "history": txt})
	}
	for k := range res.Edges {
		r.Distinct("edge:" + k)
	}
	for _, v := range res.Violations {
		v := v
		if strings.HasPrefix(v.Message, "INFRA") {
			r.Infra("%s: %s", label, v.Message)
			continue
		}
		key := v.Key
		if key == "" {
			key = fmt.Sprintf("%s:%s:%s", spec.Backend, v.Op.Kind, firstWords(v.Message, 6))
		}
		full := v.Hist
		if len(spec.Prefix) > 0 && !strings.HasPrefix(v.Message, "(in the prefix history)") {
			full = append(append([]qmodel.Op{}, spec.Prefix...), v.Hist...)
		}
		hist := make([]string, len(full))
		for i, h := range full {
			hist[i] = h.String()
		}
		r.Violation(key, fmt.Sprintf("[%s] after %v, operation %s: %s", label, hist, v.Op, v.Message),
			map[string]any{"engine": "bfs", "harness": spec.Name, "backend": spec.Backend, "config": spec.Cfg, "scaled": spec.ScaleCompaction, "history": full, "op": v.Op, "history_text": hist, "op_text": v.Op.String()},
			func() bool { return Replay(spec, full, v.Op) != "" })
	}
}

func firstWords(s string, n int) string {
	f := strings.Fields(s)
	if len(f) > n {
		f = f[:n]
	}
	return strings.Join(f, "_")
}

// HandleReplay implements --replay for the store-level searches: when the replay file names a violation found by one
// of the given specs (engine "bfs", matched by harness name) or lock-step specs (engine "bfs-lockstep"), the recorded
// history + operation is re-executed on a fresh instance and judged by the same oracle. It returns true when the
// file was handled (the caller finishes the run).
func HandleReplay(r *runner.Run, specs []Spec, locks []LockSpec) bool {
	path := runner.ReplayPath()
	if path == "" {
		return false
	}
	b, err := os.ReadFile(path)
	if err != nil {
		r.Infra("replay: %v", err)
		return true
	}
	var doc struct {
		Key    string
		Replay struct {
			Engine, Harness, Backend string
			Scaled                   bool
			Config                   qmodel.Config
			History                  []qmodel.Op
			Op                       qmodel.Op
		}
	}
	if err := json.Unmarshal(b, &doc); err != nil {
		r.Infra("replay: %v", err)
		return true
	}
	rp := doc.Replay
	verdict := func(why string) {
		var txt []string
		for _, h := range rp.History {
			txt = append(txt, h.String())
		}
		if why != "" {
			r.Violation(doc.Key, fmt.Sprintf("[replay %s/%s] after %v, operation %s: %s", rp.Harness, rp.Backend, txt, rp.Op, why),
				map[string]any{"engine": rp.Engine, "harness": rp.Harness, "backend": rp.Backend, "config": rp.Config, "history": rp.History, "op": rp.Op}, nil)
		} else {
			fmt.Printf("REPLAY property=%s harness=%s: the recorded history no longer violates the property\n", r.Prop, rp.Harness)
		}
		r.Add("states", int64(len(rp.History)+1))
		r.Add("transitions", int64(len(rp.History)+1))
		r.Add("traces_validated_against_impl", 1)
		r.Sample(map[string]any{"replayed": path})
	}
	switch rp.Engine {
	case "bfs":
		for _, s := range specs {
			if s.Name == rp.Harness {
				s.Backend, s.Cfg = rp.Backend, rp.Config
				s.ScaleCompaction = rp.Scaled
				verdict(Replay(s, rp.History, rp.Op))
				return true
			}
		}
	case "bfs-lockstep":
		for _, s := range locks {
			if s.Name == rp.Harness {
				s.Cfg = rp.Config
				if s.ScaleCompaction {
					queue.VerifSetCompaction(2, 1)
				}
				verdict(ReplayLockstep(s, rp.History, rp.Op))
				return true
			}
		}
	}
	return false
}
