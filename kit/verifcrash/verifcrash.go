// Package verifcrash implements crash points by real process death: the child
// process counts hits (file-mutating syscalls of SQLite reported by the patched
// libc trampoline, or statement-level Point calls inserted by verifgen) and
// SIGKILLs itself BEFORE performing the n-th one. It also provides the side log
// on which the child records START/ACK lines with raw O_APPEND writes.
package verifcrash

import (
	"fmt"
	"hash/fnv"
	"os"
	"strconv"
	"sync"
	"syscall"
	"unsafe"
)

var (
	mu      sync.Mutex
	armed   bool
	count   int
	killAt  int
	logFD   = -1
	labels  []string
	keepLab bool
)

// Init reads VERIF_CRASH_AT (0 = count only) and opens VERIF_CRASH_LOG.
func Init() {
	killAt, _ = strconv.Atoi(os.Getenv("VERIF_CRASH_AT"))
	keepLab = os.Getenv("VERIF_CRASH_LABELS") != ""
	if p := os.Getenv("VERIF_CRASH_LOG"); p != "" {
		fd, err := syscall.Open(p, syscall.O_WRONLY|syscall.O_CREAT|syscall.O_APPEND, 0o644)
		if err != nil {
			fmt.Fprintln(os.Stderr, "verifcrash: open log:", err)
			os.Exit(3)
		}
		logFD = fd
	}
}

func Arm()    { mu.Lock(); armed = true; mu.Unlock() }
func Disarm() { mu.Lock(); armed = false; mu.Unlock() }

// Reset zeroes the hit counter (one process measuring several executions).
func Reset() { mu.Lock(); count = 0; labels = nil; sig = 1469598103934665603; mu.Unlock() }

// TrackSig makes the syscall hook keep a running signature of the file mutations performed so far: which client
// issued it (Who), syscall, file descriptor, length and offset. The bytes themselves are left out on purpose: message
// and lease ids are random, so two executions never write the same bytes, while "the same clients performed the same
// writes in the same order" is the same file state up to the renaming of those ids. The concurrent crash enumeration
// uses it to skip (schedule, crash point) pairs that would repeat a run. Sig returns the signature BEFORE the crash
// point that is being counted.
var TrackSig bool

// Who names the client on whose behalf the current syscall is issued (set by the harness; nil = not tracked).
var Who func() int
var sig uint64 = 1469598103934665603

func Sig() uint64 { mu.Lock(); defer mu.Unlock(); return sig }

func mix(vals ...uint64) {
	h := fnv.New64a()
	var b [8]byte
	put := func(v uint64) {
		for i := 0; i < 8; i++ {
			b[i] = byte(v >> (8 * i))
		}
		h.Write(b[:])
	}
	put(sig)
	for _, v := range vals {
		put(v)
	}
	sig = h.Sum64()
}

func contentHash(ptr, n int64) uint64 {
	if ptr == 0 || n <= 0 || n > 1<<26 {
		return 0
	}
	h := fnv.New64a()
	h.Write(unsafe.Slice((*byte)(unsafe.Pointer(uintptr(ptr))), int(n)))
	return h.Sum64()
}

// Count returns the number of crash points passed so far.
func Count() int { mu.Lock(); defer mu.Unlock(); return count }

// Labels returns the recorded labels (count mode with VERIF_CRASH_LABELS).
func Labels() []string { mu.Lock(); defer mu.Unlock(); return append([]string{}, labels...) }

// OnHit, when set, observes every counted crash point (count mode of concurrent scenarios).
var OnHit func(n int)

func hit(label string) {
	mu.Lock()
	if !armed {
		mu.Unlock()
		return
	}
	count++
	n := count
	if keepLab {
		labels = append(labels, label)
	}
	mu.Unlock()
	if OnHit != nil {
		OnHit(n)
	}
	if killAt > 0 && n == killAt {
		Log("CRASH " + strconv.Itoa(n) + " " + label)
		syscall.Kill(syscall.Getpid(), syscall.SIGKILL)
		select {}
	}
}

// Point is a statement-level crash point (inserted by verifgen -crashfuncs).
func Point(label string) { hit(label) }

// file-mutating syscalls (linux/amd64 numbers)
var mutating = map[int64]string{
	1: "write", 18: "pwrite64", 20: "writev", 296: "pwritev", 74: "fsync", 75: "fdatasync", 76: "truncate", 77: "ftruncate",
	285: "fallocate", 82: "rename", 264: "renameat", 316: "renameat2", 87: "unlink", 263: "unlinkat", 83: "mkdir", 258: "mkdirat",
	86: "link", 265: "linkat", 26: "msync",
}

// Syscall is installed into the patched libc; it sees every syscall SQLite issues.
func Syscall(n, a1, a2, a3, a4, a5, a6 int64) {
	name, ok := mutating[n]
	if !ok {
		switch n {
		case 257: // openat: only with O_CREAT
			if a3&0x40 == 0 {
				return
			}
			name = "openat|O_CREAT"
		case 2: // open
			if a2&0x40 == 0 {
				return
			}
			name = "open|O_CREAT"
		default:
			return
		}
	}
	hit("sys:" + name)
	if TrackSig {
		// after the crash point was counted: this mutation is part of what later crash points find on disk
		mu.Lock()
		if armed {
			who := uint64(0)
			if Who != nil {
				who = uint64(Who() + 1)
			}
			switch n {
			case 1: // write(fd, buf, len)
				mix(who, uint64(n), uint64(a1), uint64(a3))
			case 18: // pwrite64(fd, buf, len, off)
				mix(who, uint64(n), uint64(a1), uint64(a3), uint64(a4))
			case 77, 76: // ftruncate(fd, len) / truncate
				mix(who, uint64(n), uint64(a1), uint64(a2))
			default:
				mix(who, uint64(n), uint64(a1))
			}
		}
		mu.Unlock()
	}
}

// Log appends one line to the side log with a raw write(2).
func Log(line string) {
	if logFD < 0 {
		return
	}
	b := []byte(line + "\n")
	for len(b) > 0 {
		n, err := syscall.Write(logFD, b)
		if err != nil {
			return
		}
		b = b[n:]
	}
}
