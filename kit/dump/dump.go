// Package dump renders a canonical, deterministic text of an arbitrary Go value
// including unexported fields (reflect + unsafe), for de-duplicating search
// states on the real implementation state. Maps are sorted, funcs, channels and
// synchronisation primitives are skipped, strings go through a rename function
// (lease ids -> stable handles). Fields are not referenced by name except in
// the optional skip list, so a renamed or added field neither breaks the build
// nor weakens the key.
package dump

import (
	"fmt"
	"reflect"
	"sort"
	"strings"
	"time"
	"unsafe"
)

type Options struct {
	Rename func(string) string
	Skip   map[string]bool // field names to leave out (metrics, callbacks)
	MaxLen int
}

var timeType = reflect.TypeOf(time.Time{})

func Canonical(v any, opt Options) string {
	var b strings.Builder
	seen := map[uintptr]bool{}
	walk(&b, reflect.ValueOf(v), opt, seen, 0)
	return b.String()
}

func accessible(v reflect.Value) reflect.Value {
	if v.CanInterface() {
		return v
	}
	if v.CanAddr() {
		return reflect.NewAt(v.Type(), unsafe.Pointer(v.UnsafeAddr())).Elem()
	}
	// copy into an addressable value
	c := reflect.New(v.Type()).Elem()
	defer func() { recover() }()
	c.Set(v)
	return c
}

func walk(b *strings.Builder, v reflect.Value, opt Options, seen map[uintptr]bool, depth int) {
	if depth > 12 {
		b.WriteString("…")
		return
	}
	if !v.IsValid() {
		b.WriteString("nil")
		return
	}
	t := v.Type()
	if t == timeType {
		tv := accessible(v)
		if tv.CanInterface() {
			tm := tv.Interface().(time.Time)
			if tm.IsZero() {
				b.WriteString("t0")
			} else {
				fmt.Fprintf(b, "t%d", tm.UnixNano())
			}
			return
		}
	}
	pk := t.PkgPath()
	if strings.HasSuffix(pk, "/vsync") || pk == "sync" || strings.HasSuffix(pk, "/vsql") || pk == "database/sql" {
		b.WriteString("_")
		return
	}
	switch v.Kind() {
	case reflect.Ptr:
		if v.IsNil() {
			b.WriteString("nil")
			return
		}
		p := v.Pointer()
		if seen[p] {
			b.WriteString("^")
			return
		}
		seen[p] = true
		walk(b, v.Elem(), opt, seen, depth+1)
		delete(seen, p)
	case reflect.Interface:
		if v.IsNil() {
			b.WriteString("nil")
			return
		}
		walk(b, v.Elem(), opt, seen, depth+1)
	case reflect.Struct:
		b.WriteString("{")
		for i := 0; i < v.NumField(); i++ {
			f := t.Field(i)
			if opt.Skip[f.Name] {
				continue
			}
			fv := v.Field(i)
			switch fv.Kind() {
			case reflect.Func, reflect.Chan, reflect.UnsafePointer:
				continue
			}
			b.WriteString(f.Name)
			b.WriteString(":")
			if !fv.CanAddr() && !fv.CanInterface() {
				// unexported field of a non-addressable struct: make the struct addressable
				c := reflect.New(t).Elem()
				c.Set(accessible(v))
				fv = c.Field(i)
			}
			walk(b, accessible(fv), opt, seen, depth+1)
			b.WriteString(";")
		}
		b.WriteString("}")
	case reflect.Map:
		if v.IsNil() || v.Len() == 0 {
			b.WriteString("map[]")
			return
		}
		type kv struct{ k, v string }
		var ents []kv
		it := v.MapRange()
		for it.Next() {
			var kb, vb strings.Builder
			walk(&kb, it.Key(), opt, seen, depth+1)
			walk(&vb, it.Value(), opt, seen, depth+1)
			ents = append(ents, kv{kb.String(), vb.String()})
		}
		sort.Slice(ents, func(i, j int) bool { return ents[i].k < ents[j].k })
		b.WriteString("map[")
		for _, e := range ents {
			b.WriteString(e.k)
			b.WriteString("=")
			b.WriteString(e.v)
			b.WriteString(",")
		}
		b.WriteString("]")
	case reflect.Slice, reflect.Array:
		if v.Kind() == reflect.Slice && v.Type().Elem().Kind() == reflect.Uint8 {
			fmt.Fprintf(b, "%x", v.Bytes())
			return
		}
		b.WriteString("[")
		for i := 0; i < v.Len(); i++ {
			walk(b, v.Index(i), opt, seen, depth+1)
			b.WriteString(",")
		}
		b.WriteString("]")
	case reflect.String:
		s := v.String()
		if opt.Rename != nil {
			s = opt.Rename(s)
		}
		fmt.Fprintf(b, "%q", s)
	case reflect.Bool:
		fmt.Fprintf(b, "%v", v.Bool())
	case reflect.Int, reflect.Int8, reflect.Int16, reflect.Int32, reflect.Int64:
		fmt.Fprintf(b, "%d", v.Int())
	case reflect.Uint, reflect.Uint8, reflect.Uint16, reflect.Uint32, reflect.Uint64, reflect.Uintptr:
		fmt.Fprintf(b, "%d", v.Uint())
	case reflect.Float32, reflect.Float64:
		fmt.Fprintf(b, "%g", v.Float())
	case reflect.Func, reflect.Chan, reflect.UnsafePointer:
		b.WriteString("_")
	default:
		b.WriteString("?")
	}
}

// SetField sets an unexported field by name (accelerators such as fast reset); it reports false when the field is gone.
func SetField(obj any, name string, val any) bool {
	v := reflect.ValueOf(obj)
	if v.Kind() != reflect.Ptr || v.Elem().Kind() != reflect.Struct {
		return false
	}
	f := v.Elem().FieldByName(name)
	if !f.IsValid() {
		return false
	}
	f = reflect.NewAt(f.Type(), unsafe.Pointer(f.UnsafeAddr())).Elem()
	nv := reflect.ValueOf(val)
	if !nv.Type().AssignableTo(f.Type()) {
		if nv.Type().ConvertibleTo(f.Type()) {
			nv = nv.Convert(f.Type())
		} else {
			return false
		}
	}
	f.Set(nv)
	return true
}

// ZeroField sets an unexported field to its zero value by name (false when the field is gone).
func ZeroField(obj any, name string) bool {
	v := reflect.ValueOf(obj)
	if v.Kind() != reflect.Ptr || v.Elem().Kind() != reflect.Struct {
		return false
	}
	f := v.Elem().FieldByName(name)
	if !f.IsValid() {
		return false
	}
	f = reflect.NewAt(f.Type(), unsafe.Pointer(f.UnsafeAddr())).Elem()
	f.Set(reflect.Zero(f.Type()))
	return true
}

// Field returns a pointer to an unexported field by name (nil when gone).
func Field(obj any, name string) any {
	v := reflect.ValueOf(obj)
	if v.Kind() != reflect.Ptr || v.Elem().Kind() != reflect.Struct {
		return nil
	}
	f := v.Elem().FieldByName(name)
	if !f.IsValid() {
		return nil
	}
	return reflect.NewAt(f.Type(), unsafe.Pointer(f.UnsafeAddr())).Interface()
}
