package queue

// Verification seam (build overlay only).

import (
	"reflect"
	"unsafe"
)

// VerifSilentLocks returns the addresses of locks that cannot influence any queue property (the SQLite metrics
// mutex): every mutex-typed field of the struct the "metrics" field points to. Found by reflection so that a
// refactor only makes the exploration finer (more choice points), never wrong.
func VerifSilentLocks(s *SQLiteStore) []any {
	var out []any
	v := reflect.ValueOf(s).Elem()
	f := v.FieldByName("metrics")
	if !f.IsValid() || f.Kind() != reflect.Ptr || f.IsNil() {
		return nil
	}
	e := f.Elem()
	for i := 0; i < e.NumField(); i++ {
		fi := e.Field(i)
		if fi.Kind() == reflect.Struct && fi.Type().Name() == "Mutex" && fi.CanAddr() {
			out = append(out, reflect.NewAt(fi.Type(), unsafe.Pointer(fi.UnsafeAddr())).Interface())
		}
	}
	return out
}

// VerifCheckpoint runs the store's own passive WAL checkpoint (what the background loop does once a minute).
func VerifCheckpoint(s *SQLiteStore) error { return s.checkpointPassive() }

// Scaled thresholds (see tools/verifgen "scales"): MemoryStore compacts its dequeue-order list only once it holds
// 1024 entries and more than 4 per stored item - unreachable for any bounded history. verifgen replaces the two literals
// by these variables (defaults = the literals); a harness lowers them to bring the compaction into the explored space.
var (
	verifCompactMin    = 1024
	verifCompactFactor = 4
	verifScaled        = map[string]bool{}
)

// VerifSetCompaction sets the order-list compaction thresholds and reports whether both literals were found and
// replaced in this build (false: the code changed, the thresholds are the code's own).
func VerifSetCompaction(min, factor int) bool {
	verifCompactMin, verifCompactFactor = min, factor
	return verifScaled["memory-compaction-min"] && verifScaled["memory-compaction-factor"]
}
