package app

// Verification seam (added by the /verif build overlay, never part of the
// repository): boots the application exactly as run() does — Parse, Compile,
// newRuntimeState, loadAuth, newQueueStore, startServers — but without flags,
// signals, pid file and sockets (run.go's "net" is the in-memory vnet in this
// build), and hands the resulting handlers to the harness.

import (
	"github.com/nuetzliches/hookaido/internal/verifkit/dump"
	"context"
	"fmt"
	"io"
	"log/slog"
	"net/http"
	"os"
	"path/filepath"
	"runtime"
	"sync"
	"time"

	"github.com/nuetzliches/hookaido/internal/admin"
	"github.com/nuetzliches/hookaido/internal/config"
	"github.com/nuetzliches/hookaido/internal/dispatcher"
	"github.com/nuetzliches/hookaido/internal/queue"
	"github.com/nuetzliches/hookaido/internal/verifkit/vnet"
)

type VerifBootOptions struct {
	ConfigText string // written to ConfigPath (or <Dir>/Hookaidofile) when non-empty
	ConfigPath string
	Dir        string      // scratch directory (config file, sqlite db)
	Store      queue.Store // nil: newQueueStore(compiled, <Dir>/hookaido.db, "")
	Now        func() time.Time
	LogTo      io.Writer // runtime log sink (nil: discard)
}

type VerifApp struct {
	ConfigPath string
	Running    config.Compiled
	State      *runtimeState
	Store      queue.Store
	Backend    string
	Servers    []shutdownServer
	Ingress    http.Handler
	Pull       http.Handler
	Admin      http.Handler
	Logger     *slog.Logger

	reloadMu   sync.Mutex
	closeStore func() error
	cancel     context.CancelFunc
	Canceled   bool
}

func VerifBoot(o VerifBootOptions) (*VerifApp, error) {
	a := &VerifApp{ConfigPath: o.ConfigPath}
	if a.ConfigPath == "" {
		a.ConfigPath = filepath.Join(o.Dir, "Hookaidofile")
	}
	if o.ConfigText != "" {
		if err := os.MkdirAll(filepath.Dir(a.ConfigPath), 0o755); err != nil {
			return nil, err
		}
		if err := os.WriteFile(a.ConfigPath, []byte(o.ConfigText), 0o644); err != nil {
			return nil, err
		}
	}
	data, err := os.ReadFile(a.ConfigPath)
	if err != nil {
		return nil, err
	}
	cfg, err := config.Parse(data)
	if err != nil {
		return nil, fmt.Errorf("parse: %w", err)
	}
	compiled, res := config.Compile(cfg)
	if !res.OK {
		return nil, fmt.Errorf("compile: %s", config.FormatValidationText(res))
	}
	if o.LogTo != nil {
		a.Logger = slog.New(slog.NewTextHandler(o.LogTo, nil))
	} else {
		a.Logger = newDiscardLogger()
	}
	appMetrics := newRuntimeMetrics()
	state := newRuntimeState(compiled)
	if o.Now != nil {
		// the limiters newRuntimeState built carry the real clock's start instant: forget them (by name, so that a
		// tree that renames the fields still builds) and build them again under the injected clock
		state.now = o.Now
		dump.ZeroField(state, "ingressGlobalLimit")
		dump.ZeroField(state, "ingressRouteLimits")
		state.configureIngressRateLimits(compiled)
	}
	if err := state.loadAuth(compiled); err != nil {
		return nil, fmt.Errorf("load auth: %w", err)
	}
	a.State = state
	a.Running = compiled
	a.Store = o.Store
	if a.Store == nil {
		st, backend, closeStore, err := newQueueStore(compiled, filepath.Join(o.Dir, "hookaido.db"), "")
		if err != nil {
			return nil, fmt.Errorf("open queue: %w", err)
		}
		a.Store, a.Backend, a.closeStore = st, backend, closeStore
	}
	appMetrics.queueStore = a.Store
	_, cancel := context.WithCancel(context.Background())
	a.cancel = func() { a.Canceled = true; cancel() }
	upsert := func(req admin.ManagementEndpointUpsertRequest) (admin.ManagementEndpointMutationResult, error) {
		a.reloadMu.Lock()
		defer a.reloadMu.Unlock()
		result, updated, err := mutateManagedEndpointConfig(a.ConfigPath, a.Running, state, a.Logger, func(cfg *config.Config, compiled config.Compiled) (admin.ManagementEndpointMutationResult, error) {
			return applyManagedEndpointUpsert(cfg, compiled, req, a.Store)
		}, "admin_management_upsert")
		if err != nil {
			return admin.ManagementEndpointMutationResult{}, err
		}
		a.Running = updated
		return result, nil
	}
	del := func(req admin.ManagementEndpointDeleteRequest) (admin.ManagementEndpointMutationResult, error) {
		a.reloadMu.Lock()
		defer a.reloadMu.Unlock()
		result, updated, err := mutateManagedEndpointConfig(a.ConfigPath, a.Running, state, a.Logger, func(cfg *config.Config, compiled config.Compiled) (admin.ManagementEndpointMutationResult, error) {
			return applyManagedEndpointDelete(cfg, compiled, req, a.Store)
		}, "admin_management_delete")
		if err != nil {
			return admin.ManagementEndpointMutationResult{}, err
		}
		a.Running = updated
		return result, nil
	}
	servers, err := startServers(a.Store, compiled, state, a.Logger, nil, appMetrics, upsert, del, a.cancel)
	if err != nil {
		if a.closeStore != nil {
			a.closeStore()
		}
		return nil, fmt.Errorf("start servers: %w", err)
	}
	a.Servers = servers
	for _, s := range servers {
		hs, ok := s.(*http.Server)
		if !ok {
			continue
		}
		switch hs.Addr {
		case compiled.Ingress.Listen:
			if a.Ingress == nil {
				a.Ingress = hs.Handler
				continue
			}
		}
		if hs.Addr == compiled.PullAPI.Listen && compiled.HasPullRoutes && a.Pull == nil {
			a.Pull = hs.Handler
		}
		if hs.Addr == compiled.AdminAPI.Listen && a.Admin == nil {
			a.Admin = hs.Handler
		}
	}
	return a, nil
}

// Reload is run()'s reloadNow.
func (a *VerifApp) Reload(trigger string) bool {
	a.reloadMu.Lock()
	defer a.reloadMu.Unlock()
	updated, ok := reloadConfig(a.ConfigPath, a.Running, a.State, a.Logger, trigger)
	if ok {
		a.Running = updated
	}
	return ok
}

// Shutdown stops the servers and closes the store the boot opened.
func (a *VerifApp) Shutdown() {
	ctx, cancel := context.WithTimeout(context.Background(), 5*time.Second)
	defer cancel()
	for _, s := range a.Servers {
		_ = s.Shutdown(ctx)
	}
	// A server goroutine that had not reached Serve yet closes its listener only when it runs: wait until every
	// in-memory address of this instance is free again, so that the next boot can listen on it.
	addrs := []string{a.Running.Ingress.Listen, a.Running.PullAPI.Listen, a.Running.AdminAPI.Listen, a.Running.PullAPI.GRPCListen, a.Running.Observability.Metrics.Listen}
	for i := 0; i < 1000000; i++ {
		busy := false
		for _, l := range vnet.Listening() {
			for _, x := range addrs {
				if x != "" && l == x {
					busy = true
				}
			}
		}
		if !busy {
			break
		}
		runtime.Gosched()
	}
	if a.closeStore != nil {
		_ = a.closeStore()
	}
}

// VerifDispatcher builds the push dispatcher exactly as run() does (not started).
func (a *VerifApp) VerifDispatcher(client *http.Client) *dispatcher.PushDispatcher {
	compiled := a.Running
	policy := dispatcher.EgressPolicy{
		HTTPSOnly:           compiled.Defaults.EgressPolicy.HTTPSOnly,
		Redirects:           compiled.Defaults.EgressPolicy.Redirects,
		DNSRebindProtection: compiled.Defaults.EgressPolicy.DNSRebindProtection,
		Allow:               mapEgressRules(compiled.Defaults.EgressPolicy.Allow),
		Deny:                mapEgressRules(compiled.Defaults.EgressPolicy.Deny),
	}
	return &dispatcher.PushDispatcher{
		Store:     a.Store,
		Deliverer: dispatcher.NewHTTPDeliverer(client, policy),
		Routes:    buildDispatchRoutes(compiled),
		Logger:    a.Logger,
	}
}

// VerifForwardAuthClient installs an http.Client into every forward-auth authenticator of the running state.
func (a *VerifApp) VerifForwardAuthClient(c *http.Client) {
	a.State.mu.Lock()
	defer a.State.mu.Unlock()
	for _, f := range a.State.forwardByRoute {
		if f != nil {
			f.Client = c
		}
	}
}

// VerifRequiresRestart exposes requiresRestartForReload.
func VerifRequiresRestart(next, running config.Compiled) bool {
	return requiresRestartForReload(next, running)
}

// VerifAllowIngress is the rate-limit decision the ingress handler makes for a resolved route (narrow seam for the
// concurrent limiter exploration; the full handler path is covered by the sequential enumeration).
func (a *VerifApp) VerifAllowIngress(route string) bool { return a.State.allowIngress(route) }
