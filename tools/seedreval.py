#!/usr/bin/env python3
"""Re-runs the quick tier of the check(s) that caught a STORED seeded change (seeded/<Cnn-X>/patch.diff) against the
current harness, to see that strengthening a harness did not lose an earlier detection. Does not touch meta.json.
Usage: tools/seedreval.py [-j 4] C10 C15 ...   (property ids: all stored changes of that property; or Cnn-X names)
Prints one line per change: STILL-DETECTED / LOST (<check>) / DOES-NOT-APPLY."""
import os, sys, json, glob, subprocess, queue, threading

ROOT = os.path.dirname(os.path.dirname(os.path.abspath(__file__)))

def sh(cmd, cwd=None, env=None):
    p = subprocess.run(cmd, shell=True, cwd=cwd, env=env, capture_output=True, text=True, errors="replace")
    return p.returncode, p.stdout + p.stderr

def main():
    args, par = sys.argv[1:], 4
    if args and args[0] == "-j":
        par = int(args[1]); args = args[2:]
    names = []
    for a in args:
        if "-" in a: names.append(a)
        else: names += sorted(os.path.basename(os.path.dirname(p)) for p in glob.glob(ROOT + "/seeded/%s-*/meta.json" % a))
    jq = queue.Queue()
    for n in names: jq.put(n)
    lock = threading.Lock()
    def worker(i):
        wt = "/tmp/wt-reval-%d" % i
        sh("git -C /repo worktree add --detach %s HEAD" % wt)
        while True:
            try: n = jq.get_nowait()
            except queue.Empty: break
            meta = json.load(open(ROOT + "/seeded/%s/meta.json" % n))
            caught = [k for k, v in meta.get("checks", {}).items() if v["verdict"] == "DETECTED"]
            sh("git checkout -q -f --detach $(git -C /repo rev-parse HEAD) && git clean -fdq", cwd=wt)
            rc, out = sh("git apply %s/seeded/%s/patch.diff" % (ROOT, n), cwd=wt)
            if rc != 0:
                with lock: print(n, "DOES-NOT-APPLY", flush=True)
                continue
            if not caught:
                with lock: print(n, "was never caught", flush=True)
                continue
            chk, tier = caught[0].split("/")
            env = dict(os.environ, VERIF_REPO=wt, VERIF_EVIDENCE_OUT="/tmp/reval-evidence-%d.json" % i)
            rc, out = sh("bin/check %s --tier %s" % (chk, tier), cwd=ROOT, env=env)
            v = "STILL-DETECTED" if "VIOLATION property=" in out else "LOST rc=%d" % rc
            with lock: print(n, v, "(%s)" % caught[0], flush=True)
        sh("git -C /repo worktree remove --force %s" % wt)
    ts = [threading.Thread(target=worker, args=(i,)) for i in range(par)]
    for t in ts: t.start()
    for t in ts: t.join()

if __name__ == "__main__":
    main()
