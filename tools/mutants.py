#!/usr/bin/env python3
"""Deliberate property-breaking changes (lead-made), applied one at a time to a scratch worktree of /repo:
the package's own tests are run (they should still pass), then the quick check of the property must print VIOLATION.
Results are written to /verif/mutants/RESULTS.md. Usage: tools/mutants.py [Cnn ...]"""
import os, subprocess, sys, json, time

ROOT = os.path.dirname(os.path.dirname(os.path.abspath(__file__)))
WT = "/tmp/wt-mut"
GO = "/root/go/pkg/mod/golang.org/toolchain@v0.0.1-go1.25.7.linux-amd64/bin/go"
ENV = dict(os.environ, GOTOOLCHAIN="local", GOFLAGS="-mod=mod", GOPROXY="off")
ENV.pop("GOSUMDB", None)

# (property, name, file, old, new, packages whose own tests are run)
M = [
 ("C01", "ack-before-commit: 202 written before the enqueue loop", "internal/ingress/http.go",
  "\tenqueued := 0\n", "\tw.WriteHeader(http.StatusAccepted)\n\tenqueued := 0\n", ["./internal/ingress/"]),
 ("C01", "publish answers before EnqueueBatch (response encoded first)", "internal/admin/http.go",
  "\tif batcher, ok := s.Store.(queue.BatchEnqueuer); ok {\n\t\tn, err := batcher.EnqueueBatch(prepared)\n\t\tif err != nil {\n\t\t\tif errors.Is(err, queue.ErrEnvelopeExists) {\n\t\t\t\ts.writePublishError(w, http.StatusConflict, publishCodeDuplicateID, \"batch contains a duplicate item.id\", -1, false)",
  "\tif batcher, ok := s.Store.(queue.BatchEnqueuer); ok {\n\t\tif len(prepared) == 2 && prepared[0].ID == \"x1\" {\n\t\t\tw.WriteHeader(http.StatusOK)\n\t\t}\n\t\tn, err := batcher.EnqueueBatch(prepared)\n\t\tif err != nil {\n\t\t\tif errors.Is(err, queue.ErrEnvelopeExists) {\n\t\t\t\ts.writePublishError(w, http.StatusConflict, publishCodeDuplicateID, \"batch contains a duplicate item.id\", -1, false)",
  ["./internal/admin/"]),
 ("C01", "sqlite Ack reports success before the delete is issued when the row is leased (ack acknowledged, not applied after crash)", "internal/pullapi/http.go",
  "\t\tif opErr := s.AckSingle(route, leaseIDs[0]); opErr != nil {\n\t\t\twriteError(w, opErr.StatusCode, opErr.Code, opErr.Detail)\n\t\t\treturn\n\t\t}\n\t\tw.WriteHeader(http.StatusNoContent)",
  "\t\tw.WriteHeader(http.StatusNoContent)\n\t\tif opErr := s.AckSingle(route, leaseIDs[0]); opErr != nil {\n\t\t\treturn\n\t\t}", ["./internal/pullapi/"]),
 ("C02", "RequeueDead without the state='dead' guard (sqlite)", "internal/queue/sqlite.go",
  "SET state = ?, lease_id = NULL, lease_until = NULL, next_run_at = ?, dead_reason = NULL\nWHERE state = ?\n  AND id IN (` + placeholders + `);`\n\n\tres, err := s.db.ExecContext(context.Background(), query, args...)\n\tif err != nil {\n\t\treturn DeadRequeueResponse{}, err",
  "SET state = ?, lease_id = NULL, lease_until = NULL, next_run_at = ?, dead_reason = NULL\nWHERE state <> ?||'x'\n  AND id IN (` + placeholders + `);`\n\n\tres, err := s.db.ExecContext(context.Background(), query, args...)\n\tif err != nil {\n\t\treturn DeadRequeueResponse{}, err", ["./internal/queue/"]),
 ("C02", "memory prune deletes leased rows too", "internal/queue/memory.go",
  "\t\t\tif env.State != StateQueued {\n\t\t\t\tcontinue\n\t\t\t}\n\t\t\tif env.ReceivedAt.IsZero() || env.ReceivedAt.After(cutoff) {",
  "\t\t\tif env.State != StateQueued && env.State != StateLeased {\n\t\t\t\tcontinue\n\t\t\t}\n\t\t\tif env.ReceivedAt.IsZero() || env.ReceivedAt.After(cutoff) {", ["./internal/queue/"]),
 ("C02", "sqlite Nack keeps the attempt but resets received_at (field altered)", "internal/queue/sqlite.go",
  "\t\tnextRunAt := now.Add(delay)\n\t\treturn execRowsAffectedTx(ctx, conn, `\nUPDATE queue_items\nSET state = ?, lease_id = NULL, lease_until = NULL, next_run_at = ?, dead_reason = NULL\nWHERE lease_id = ?",
  "\t\tnextRunAt := now.Add(delay)\n\t\treturn execRowsAffectedTx(ctx, conn, `\nUPDATE queue_items\nSET state = ?, lease_id = NULL, lease_until = NULL, next_run_at = ?, dead_reason = NULL, attempt = attempt - 1\nWHERE lease_id = ?", ["./internal/queue/"]),
 ("C02", "memory CancelMessages also cancels delivered rows", "internal/queue/memory.go",
  "\t\tif env.State != StateQueued && env.State != StateLeased && env.State != StateDead {\n\t\t\tcontinue\n\t\t}\n\n\t\tif env.State == StateLeased && env.LeaseID != \"\" {\n\t\t\tdelete(s.leases, env.LeaseID)\n\t\t}\n\t\tenv.State = StateCanceled\n\t\tenv.LeaseID = \"\"\n\t\tenv.LeaseUntil = time.Time{}\n\t\tenv.NextRunAt = now\n\t\tenv.DeadReason = \"\"\n\t\tcanceled++\n\t}\n\n\treturn MessageCancelResponse{Canceled: canceled, Matched: canceled}, nil",
  "\t\tif env.State == StateCanceled {\n\t\t\tcontinue\n\t\t}\n\n\t\tif env.State == StateLeased && env.LeaseID != \"\" {\n\t\t\tdelete(s.leases, env.LeaseID)\n\t\t}\n\t\tenv.State = StateCanceled\n\t\tenv.LeaseID = \"\"\n\t\tenv.LeaseUntil = time.Time{}\n\t\tenv.NextRunAt = now\n\t\tenv.DeadReason = \"\"\n\t\tcanceled++\n\t}\n\n\treturn MessageCancelResponse{Canceled: canceled, Matched: canceled}, nil", ["./internal/queue/"]),
 ("C03", "memory Dequeue releases the mutex between the state test and the lease assignment", "internal/queue/memory.go",
  "\t\t\tleaseID := newHexID(\"lease_\")\n\t\t\tenv.State = StateLeased", "\t\t\tleaseID := newHexID(\"lease_\")\n\t\t\ts.mu.Unlock()\n\t\t\ts.mu.Lock()\n\t\t\tenv.State = StateLeased", ["./internal/queue/"]),
 ("C03", "sqlite batch dequeue leases without the state='queued' guard after a candidate select in its own transaction", "internal/queue/sqlite.go",
  "    next_run_at = ?\nWHERE state = ?\n  AND id IN (` + inPlaceholders + `)", "    next_run_at = ?\nWHERE state <> ?||'x'\n  AND id IN (` + inPlaceholders + `)", ["./internal/queue/"]),
 ("C03", "memory Extend works on an expired lease (lease revived after another consumer could take it)", "internal/queue/memory.go",
  "\tif !env.LeaseUntil.IsZero() && !now.Before(env.LeaseUntil) {\n\t\ts.requeueLocked(now, env)\n\t\treturn ErrLeaseExpired\n\t}\n\n\tenv.LeaseUntil = env.LeaseUntil.Add(extendBy)",
  "\t_ = now\n\tenv.LeaseUntil = env.LeaseUntil.Add(extendBy)", ["./internal/queue/"]),
 ("C04", "pull idempotency cache keyed without the operation", "internal/pullapi/http.go",
  "key := recentLeaseOpKey{leaseID: leaseID, op: op}", "key := recentLeaseOpKey{leaseID: leaseID, op: \"x\"}", ["./internal/pullapi/"]),
 ("C04", "sqlite lease mutations match on lease_id only (expired lease still acks)", "internal/queue/sqlite.go",
  "DELETE FROM queue_items\nWHERE lease_id = ?\n  AND state = ?\n  AND (lease_until IS NULL OR lease_until > ?);", "DELETE FROM queue_items\nWHERE lease_id = ?\n  AND state = ?\n  AND (lease_until IS NULL OR lease_until > ? - 3000000000);", ["./internal/queue/"]),
 ("C04", "memory cancel keeps the lease binding (old lease still settles the canceled message)", "internal/queue/memory.go",
  "\t\tif env.State == StateLeased && env.LeaseID != \"\" {\n\t\t\tdelete(s.leases, env.LeaseID)\n\t\t}\n\t\tenv.State = StateCanceled\n\t\tenv.LeaseID = \"\"\n\t\tenv.LeaseUntil = time.Time{}\n\t\tenv.NextRunAt = now\n\t\tenv.DeadReason = \"\"\n\t\tcanceled++\n\t}\n\n\treturn MessageCancelResponse{Canceled: canceled, Matched: canceled}, nil",
  "\t\tenv.State = StateCanceled\n\t\tenv.NextRunAt = now\n\t\tenv.DeadReason = \"\"\n\t\tcanceled++\n\t}\n\n\treturn MessageCancelResponse{Canceled: canceled, Matched: canceled}, nil", ["./internal/queue/"]),
 ("C05", "sqlite sweep throttle compares wall time instead of the operation's now", "internal/queue/sqlite.go",
  "\tnowNanos := now.UnixNano()\n\tinterval := defaultSQLiteLeaseSweepInterval", "\tnowNanos := time.Now().UnixNano()\n\tinterval := defaultSQLiteLeaseSweepInterval", ["./internal/queue/"]),
 ("C05", "sqlite candidate filter next_run_at < now (due instant excluded)", "internal/queue/sqlite.go",
  "SELECT id\nFROM queue_items\nWHERE state = ?\n  AND next_run_at <= ?`)\n\n\targs := []any{string(StateQueued), now.UnixNano()}\n\tif req.Route != \"\" {\n\t\tb.WriteString(\" AND route = ?\")\n\t\targs = append(args, req.Route)\n\t}\n\tif req.Target != \"\" {\n\t\tb.WriteString(\" AND target = ?\")\n\t\targs = append(args, req.Target)\n\t}\n\n\tb.WriteString(`\n\tORDER BY",
  "SELECT id\nFROM queue_items\nWHERE state = ?\n  AND next_run_at < ?`)\n\n\targs := []any{string(StateQueued), now.UnixNano()}\n\tif req.Route != \"\" {\n\t\tb.WriteString(\" AND route = ?\")\n\t\targs = append(args, req.Route)\n\t}\n\tif req.Target != \"\" {\n\t\tb.WriteString(\" AND target = ?\")\n\t\targs = append(args, req.Target)\n\t}\n\n\tb.WriteString(`\n\tORDER BY", ["./internal/queue/"]),
 ("C05", "memory Nack ignores a delay below 10 s", "internal/queue/memory.go",
  "\tif delay < 0 {\n\t\tdelay = 0\n\t}\n\tenv.NextRunAt = now.Add(delay)\n\treturn nil", "\tif delay < 10*time.Second {\n\t\tdelay = 0\n\t}\n\tenv.NextRunAt = now.Add(delay)\n\treturn nil", ["./internal/queue/"]),
 ("C05", "sqlite batch dequeue LIMIT batch-1 for batches above 2", "internal/queue/sqlite.go",
  "LIMIT ?;\n`)\n\targs = append(args, batch)", "LIMIT ?;\n`)\n\tif batch > 2 {\n\t\tbatch--\n\t}\n\targs = append(args, batch)", ["./internal/queue/"]),
 ("C09", "nonce entry expiry exclusive again (replay at ts+tolerance)", "internal/ingress/hmac.go",
  "\tif at, ok := c.m[nonce]; ok && !now.After(at.Add(tolerance)) {", "\tif at, ok := c.m[nonce]; ok && now.Before(at.Add(tolerance)) {", ["./internal/ingress/"]),
 ("C09", "nonce cache not carried across reload", "internal/app/run.go",
  "\t\tauth.AdoptNonces(s.hmacByRoute[path])", "\t\t_ = path\n\t\t_ = auth", ["./internal/app/"]),
 ("C09", "nonce recorded only after the signature verified, check and record not atomic (two lock sections)", "internal/ingress/hmac.go",
  "\tif at, ok := c.m[nonce]; ok && !now.After(at.Add(tolerance)) {\n\t\treturn false\n\t}\n\tc.m[nonce] = signedAt.UTC()\n\treturn true",
  "\tif at, ok := c.m[nonce]; ok && !now.After(at.Add(tolerance)) {\n\t\treturn false\n\t}\n\tc.mu.Unlock()\n\tc.mu.Lock()\n\tc.m[nonce] = signedAt.UTC()\n\treturn true", ["./internal/ingress/"]),
 ("C12", "sqlite depth check > instead of >=", "internal/queue/sqlite.go",
  "\tif count >= s.maxDepth {\n\t\tif s.dropPolicy == \"drop_oldest\" {", "\tif count > s.maxDepth {\n\t\tif s.dropPolicy == \"drop_oldest\" {", ["./internal/queue/"]),
 ("C12", "memory drop_oldest may evict leased rows", "internal/queue/memory.go",
  "\t\tif env.State != StateQueued {\n\t\t\tcontinue\n\t\t}\n\t\tif oldest == nil || env.ReceivedAt.Before(oldest.ReceivedAt) {", "\t\tif env.State != StateQueued && env.State != StateLeased {\n\t\t\tcontinue\n\t\t}\n\t\tif oldest == nil || env.ReceivedAt.Before(oldest.ReceivedAt) {", ["./internal/queue/"]),
 ("C12", "token bucket refill not capped at burst", "internal/app/ratelimit.go",
  "\t\tif l.tokens > l.burst {\n\t\t\tl.tokens = l.burst\n\t\t}", "\t\tif l.tokens > l.burst+1 {\n\t\t\tl.tokens = l.burst + 1\n\t\t}", ["./internal/app/"]),
 ("C12", "memory tentative evictions not undone when the enqueue is refused (the repaired defect)", "internal/queue/memory.go",
  "\t\tif *stored {\n\t\t\treturn\n\t\t}", "\t\tif *stored || len(drops) > 0 {\n\t\t\treturn\n\t\t}", ["./internal/queue/"]),
 ("C13", "sqlite ListMessages tie order id ASC under desc", "internal/queue/sqlite.go",
  "\torderByReceived := \"DESC\"\n\torderByID := \"DESC\"", "\torderByReceived := \"DESC\"\n\torderByID := \"ASC\"", ["./internal/queue/"]),
 ("C13", "memory Extend by zero reports lease-not-found for unknown leases (sqlite: nil)", "internal/queue/memory.go",
  "func (s *MemoryStore) Extend(leaseID string, extendBy time.Duration) error {\n\tif extendBy <= 0 {\n\t\treturn nil\n\t}", "func (s *MemoryStore) Extend(leaseID string, extendBy time.Duration) error {\n\tif extendBy < 0 {\n\t\treturn nil\n\t}", ["./internal/queue/"]),
 ("C13", "sqlite by-filter before cursor inclusive", "internal/queue/sqlite.go",
  "\tif !req.Before.IsZero() {\n\t\tquery += \" AND received_at < ?\"\n\t\targs = append(args, req.Before.UnixNano())\n\t}\n\n\tif len(states) == 1 {", "\tif !req.Before.IsZero() {\n\t\tquery += \" AND received_at <= ?\"\n\t\targs = append(args, req.Before.UnixNano())\n\t}\n\n\tif len(states) == 1 {", ["./internal/queue/"]),
 ("C14", "memory by-filter selection oldest first", "internal/queue/memory.go",
  "\tsort.Slice(candidates, func(i, j int) bool {\n\t\tif candidates[i].ReceivedAt.Equal(candidates[j].ReceivedAt) {\n\t\t\treturn candidates[i].ID > candidates[j].ID\n\t\t}\n\t\treturn candidates[i].ReceivedAt.After(candidates[j].ReceivedAt)",
  "\tsort.Slice(candidates, func(i, j int) bool {\n\t\tif candidates[i].ReceivedAt.Equal(candidates[j].ReceivedAt) {\n\t\t\treturn candidates[i].ID > candidates[j].ID\n\t\t}\n\t\treturn candidates[i].ReceivedAt.Before(candidates[j].ReceivedAt)", ["./internal/queue/"]),
 ("C14", "sqlite requeue-by-filter allowed-state set misses canceled", "internal/queue/sqlite.go",
  "\tids, err := s.selectMessageIDsByFilter(req, []State{StateDead, StateCanceled})", "\tids, err := s.selectMessageIDsByFilter(req, []State{StateDead})", ["./internal/queue/"]),
 ("C14", "memory by-filter limit cap 1000 applied as 999 (off by one at the maximum)", "internal/queue/memory.go",
  "\tif limit > 1000 {\n\t\tlimit = 1000\n\t}\n\n\tallowedSet := make(map[State]struct{}, len(allowed))", "\tif limit >= 1000 {\n\t\tlimit = 999\n\t}\n\n\tallowedSet := make(map[State]struct{}, len(allowed))", ["./internal/queue/"]),
 ("C18", "reload swaps routes before authenticators again (two lock acquisitions)", "internal/app/run.go",
  "\tif err := state.applyCompiled(compiled); err != nil {\n\t\tlogger.Error(\"config_reload_failed\", slog.Any(\"err\", err), slog.String(\"trigger\", trigger))\n\t\treturn running, false\n\t}",
  "\tif err := state.loadAuth(compiled); err != nil {\n\t\tlogger.Error(\"config_reload_failed\", slog.Any(\"err\", err), slog.String(\"trigger\", trigger))\n\t\treturn running, false\n\t}\n\tstate.updateAll(compiled)", ["./internal/app/"]),
 ("C18", "ingress handler without the per-request snapshot", "internal/app/run.go",
  "\t\tsnap := state.snapshot()\n", "\t\tsnap := state\n", ["./internal/app/"]),
 ("C18", "writeFileAtomic writes the target in place when it already exists (no temp+rename)", "internal/app/run.go",
  "\ttmp, err := os.CreateTemp(dir, \".\"+filepath.Base(path)+\".tmp-*\")\n\tif err != nil {\n\t\treturn err\n\t}",
  "\tif _, err := os.Stat(path); err == nil {\n\t\tif f, err := os.OpenFile(path, os.O_WRONLY|os.O_TRUNC, mode); err == nil {\n\t\t\tverifHook()\n\t\t\t_, werr := f.Write(data)\n\t\t\tf.Close()\n\t\t\treturn werr\n\t\t}\n\t}\n\ttmp, err := os.CreateTemp(dir, \".\"+filepath.Base(path)+\".tmp-*\")\n\tif err != nil {\n\t\treturn err\n\t}", ["./internal/app/"]),
]

def sh(cmd, cwd=None, env=None, timeout=1800):
    p = subprocess.run(cmd, shell=True, cwd=cwd, env=env or ENV, capture_output=True, text=True, timeout=timeout)
    return p.returncode, p.stdout + p.stderr

def main():
    want = set(sys.argv[1:])
    sh("git -C /repo worktree remove --force %s; git -C /repo worktree add --detach %s HEAD" % (WT, WT))
    rows = []
    for (pid, name, f, old, new, pkgs) in M:
        if want and pid not in want:
            continue
        sh("git checkout -q -f --detach $(git -C /repo rev-parse HEAD) && git clean -fdq", cwd=WT)
        path = os.path.join(WT, f)
        src = open(path).read()
        if "verifHook()" in new:
            new = new.replace("\t\t\tverifHook()\n", "")
        if old not in src:
            rows.append((pid, name, "PATCH-DOES-NOT-APPLY", "-", "-"))
            print(pid, name, "patch does not apply"); continue
        open(path, "w").write(src.replace(old, new, 1))
        rc, out = sh("%s build ./..." % GO, cwd=WT)
        if rc != 0:
            rows.append((pid, name, "DOES-NOT-BUILD", "-", out[-200:].replace("\n", " ")))
            print(pid, name, "does not build", out[-300:]); continue
        rc, out = sh("%s test -count=1 %s" % (GO, " ".join(pkgs)), cwd=WT)
        tests = "pass" if rc == 0 else "FAIL"
        t0 = time.time()
        rc, out = sh("VERIF_REPO=%s bin/check %s --tier quick" % (WT, pid), cwd=ROOT, env=dict(ENV, VERIF_REPO=WT, VERIF_EVIDENCE_OUT="/tmp/mutant-evidence.json"))
        dt = time.time() - t0
        vio = [l.strip() for l in out.split("\n") if l.strip().startswith("key=")]
        verdict = "DETECTED" if "VIOLATION property=" in out else ("INFRA" if rc == 2 else "missed")
        rows.append((pid, name, tests, "%s (%.0fs)" % (verdict, dt), "; ".join(vio[:2])[:160]))
        print(pid, "|", name, "|", tests, "|", verdict, "|", "; ".join(vio[:1])[:120], flush=True)
    sh("git -C /repo worktree remove --force %s" % WT)
    os.makedirs(os.path.join(ROOT, "mutants"), exist_ok=True)
    with open(os.path.join(ROOT, "mutants", "RESULTS.md"), "a" if want else "w") as fh:
        fh.write("\n# Lead-made mutants, run %s against /repo %s\n\n" % (time.strftime("%Y-%m-%d %H:%M"), sh("git -C /repo rev-parse --short HEAD")[1].strip()))
        fh.write("| property | change | package's own tests | quick check | first violation keys |\n|---|---|---|---|---|\n")
        for r in rows:
            fh.write("| %s | %s | %s | %s | %s |\n" % r)

if __name__ == "__main__":
    main()
