#!/usr/bin/env python3
"""Prints the markdown table of DESIGN.md §12.2 from the committed evidence files (quick tier)."""
import json, glob, os
ROOT = os.path.dirname(os.path.dirname(os.path.abspath(__file__)))
m = json.load(open(os.path.join(ROOT, "MANIFEST.json")))
eng = {c["property_id"]: c.get("engine", "") for c in m["checks"]}
print("| id | engine | tier | exhaustive | states / cases | transitions / evaluations | distinct non-trivial | wall |")
print("|----|--------|------|-----------|----------------|---------------------------|---------------------|------|")
for f in sorted(glob.glob(os.path.join(ROOT, "evidence", "C*.json"))):
    e = json.load(open(f)); c = e.get("coverage", {})
    pid = e["property_id"]
    states = c.get("states", c.get("cases", c.get("configs", "")))
    trans = c.get("transitions", c.get("evaluations", ""))
    print("| %s | %s | %s | %s | %s | %s | %s | %.0f s |" % (pid, eng.get(pid, ""), e.get("tier"), c.get("exhaustive"), f"{states:,}" if isinstance(states, int) else states,
          f"{trans:,}" if isinstance(trans, int) else trans, c.get("distinct_nontrivial", ""), e.get("wall_s", 0)))
