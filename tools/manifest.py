#!/usr/bin/env python3
"""Regenerates /verif/MANIFEST.json from the table below (run after adding/removing a check)."""
import json, os, sys

ROOT = os.path.dirname(os.path.dirname(os.path.abspath(__file__)))

# id -> (engine, level category, technique, level text, level note, design ref)
CHECKS = {
 "C02": ("bfs", "model_checking",
  "explicit-state model checking: breadth-first search over every operation sequence on the real MemoryStore/SQLiteStore, de-duplicated on the implementation state, every transition checked against the qmodel reference model; plus stateless exploration of two SQLite handles on one file under the controlled scheduler",
  "Every sequence of store operations over the alphabet (enqueue/batch incl. duplicates and explicit timestamps, dequeue with filters, ack/nack/extend/mark-dead single and batch with current/stale/unknown/blank leases, cancel/requeue/resume by id and by filter, DLQ requeue/delete, list/stats, clock steps) up to the stated depth, on both executable backends and every limits/retention configuration of the tier, is executed on the real store; after every transition the result and a private-state snapshot of all rows must equal what the relational reference model allows, SQLite's trigger-maintained counters must equal the real counts, and every observed state change must be an edge of the documented machine. Two-handle part: the gateway's SQLiteStore and a second default-option SQLiteStore on the same file (what the MCP server's direct mode opens) run settlements against cancel/requeue/resume/DLQ operations; every interleaving of their statements that SQLite's write lock admits is executed (statement-level scheduling points, unbounded under sleep-set reduction) and must be linearizable against the model. A bounded-exhaustive coverage statement (states, transitions, depth), not a proof for unbounded histories.",
  "Trusted: the reference model kit/qmodel (written from the property statements, DESIGN.md app. A), the canonical state dump (over-fine keys only cost time), the alphabet as the small scope. Postgres is not executed.",
  "DESIGN.md §4.2 §5 §6 C02"),
 "C03": ("sched", "model_checking",
  "stateless model checking of the real store under a controlled scheduler (testing/synctest bubble + import-rewritten sync/atomic/database-sql shims): DFS over all interleavings (memory) / preemption-bounded and sleep-set-reduced unbounded (SQLite), linearizability against qmodel per execution",
  "Every interleaving (memory backend: all; SQLite: up to the stated preemption bound at lock, atomic and connection-acquisition points) of 2-3 consumers that dequeue and then ack/nack/extend their own lease, an operator that cancels and requeues, and a clock that crosses the lease expiry is executed on the real store; each execution's call/return history must be linearizable against the reference model and pass a direct lease-exclusivity monitor (fresh lease ids, attempt+1, no second grant unless something ended the first). Determinism of the harness is re-proved on every run (default schedule twice, replay divergence = hard error).",
  "Trusted: scheduling points at synchronisation operations suffice provided the code is data-race free (separate free-running -race pass is a side condition); virtual clock moves only between store operations; small scope: 2 messages, 3-4 threads.",
  "DESIGN.md §4.1 §6 C03"),
 "C09": ("bfs+sched", "model_checking",
  "explicit-state search over send/clock/reload histories through the real ingress handler and real reloadConfig in a virtual-time bubble, plus exhaustive interleavings of concurrent duplicates and a reload under the controlled scheduler",
  "Every history (the state space is finite once the state is keyed by clock position, tolerance in force, nonce caches and the set of honoured pairs; the search runs to its fixpoint, depth 19) over valid/invalid/duplicate signed requests (2 nonces, 2 signed timestamps), clock moves through 12 positions at and around ts-tol, ts, ts+tol, ts+2tol, ts+3tol (+/-1 ns) and reloads (same file, doubled tolerance) is run through the handler wired by startServers; a (nonce, signed timestamp) pair may be honoured at most once while it passes the tolerance check in force, and stored messages must equal 202 answers. Every interleaving of two identical signed requests with a concurrent reload is enumerated as well; a free-running -race side pass covers unsynchronised sharing between reload and requests.",
  "Narrow reading of the statement (same nonce AND same signed timestamp); reload keeps the route HMAC-protected; virtual time via testing/synctest.",
  "DESIGN.md §6 C09"),
 "C12": ("bfs+enum", "model_checking",
  "explicit-state search of store admission for every max_depth/policy/backend with an independent admission monitor, plus complete enumeration of limiter arrival sequences and size-limit boundaries through the real ingress handler",
  "(A) every store operation sequence up to the depth for max_depth 1..3 x reject/drop_oldest x memory/SQLite with a monitor that looks only at contents before/after each enqueue (admitted only below max_depth, one queued-never-leased eviction per stored message, refusal = identical contents); (B) every arrival sequence of length <= 6/8 over gaps {0,1/4,1/2,1,2 s} for 5 limiter configurations incl. route override, every window checked against burst + rps x span; (C) every body/header size around max_body/max_headers and every fan-out refusal position, and the same boundary tables after a production reload for every ordered pair of three limit configurations (route overrides lowered/raised, a route added/removed, a route falling back to defaults); (D) concurrent admissions under the controlled scheduler incl. two enqueues racing for a slot freed by an ack right after a refusal, and concurrent requests on one rate limiter.",
  "Memory-pressure refusals (> 1000 retained items) are outside the small scope; rate arithmetic exact by construction of the alphabet; histories above max_depth after operator requeue are excluded as the quantifier says.",
  "DESIGN.md §6 C12"),
 "C13": ("bfs", "model_checking",
  "lock-step explicit-state search: the same operation sequences on MemoryStore and SQLiteStore on one injected clock, every return value and the full contents compared after every step",
  "Every operation sequence up to the depth over the C02 alphabet extended with argument edge cases (negative/zero batch and TTL, negative delay, limits 0/-1/1001, before-cursors, bogus state and order strings, padded/duplicate/blank ids) is applied to both backends in lock step; error class, counts, item sets with all fields modulo lease-id renaming, conflict multisets, stats and a private-state snapshot of all rows must agree, except for choices the contract leaves open (which equally eligible message is chosen), which are validated against qmodel and counted as permitted divergences.",
  "Postgres is not executed (no server in the sandbox). Clock steps >= 1 s keep SQLite's documented 10 ms sweep granularity out of the comparison. The documented memory-only rule 'delivered rows count against max_depth' is a listed known finding.",
  "DESIGN.md §6 C13"),
 "C14": ("enum", "exploration",
  "complete enumeration of small populations x selectors on the real stores against the qmodel selection rule (bounded-exhaustive input-space model checking)",
  "Every multiset of <= 2 (thorough: 3) messages over route x target x 5 states x 2 timestamps (ties included), built with real operations, is crossed with every by-filter selector (route, target, state, before on/around the tie timestamps, limit 0/1/2, preview) for cancel/requeue/resume and with id lists (hit, miss, blank, duplicate, padded) for cancel/requeue/resume/DLQ requeue/DLQ delete/lookup on both backends, plus bulk populations for the default (100) and maximum (1000) limits; changed set, counts, preview count and untouched remainder must equal the reference selection; a canceled leased message's old lease must be void.",
  "Admin HTTP/MCP parsing in front of the store calls is covered by C15/C20; small scope of populations.",
  "DESIGN.md §6 C14"),
 "C18": ("sched", "model_checking",
  "stateless model checking of the real reloadConfig against one in-flight request under the controlled scheduler, differential oracle (result under old only / new only from sequential reference runs)",
  "For each old/new configuration pair chosen to make a mixture observable (auth kind switched on one route, route removed/added, pull endpoints swapped between routes, limits lowered) every interleaving of the real reloadConfig with one ingress or pull request, at the lock operations of the runtime state, stores and servers, is executed on the handlers wired by the real startServers; the request's status and effects must equal the result under the old configuration only or under the new configuration only, and the same request sent once more after everything finished must be answered as a sequential reference run answers it (stale per-request caches). A management mutation (move / delete of a managed endpoint through the Admin API) is explored against an ingress request on the route it currently maps to: the answer, the configuration file and the running gateway must agree (applied entirely or not at all). Crash points inside every config-file replacement flow (Admin upsert/delete, MCP config_apply) and every reload failure variant are enumerated by the other parts.",
  "Scheduling points at lock operations (data-race freedom is a side condition); crash-atomicity of the config file replacement and failure => unchanged are decided by the fault-enumeration parts when present in the evidence.",
  "DESIGN.md §6 C18"),
 "C19": ("enum", "exploration",
  "bounded-exhaustive enumeration of grammar-derived configuration programs (slot table transcribed from the parser, all spellings, all pairs, lexical classes) with the differential oracle Parse/Format/Compile",
  "Every program built from a minimal valid base plus every choice of <= 2 optional directive slots in every accepted spelling (shorthand/block/dot forms, quoted/unquoted, placeholders, repeated and multi-value forms, channel wrappers, named matchers, comments), and every string of length <= 2/3 over a lexical alphabet at each of the 241 value positions, is parsed; for each text that parses the formatted text must parse, compile to a reflect.DeepEqual runtime configuration with an equal validation result, and be a fixed point of the formatter.",
  "Interactions of three or more optional directives and ASTs that only management mutations can build are outside the bound; the slot table is checked against parser.go's keywords on every run.",
  "DESIGN.md §6 C19"),

 "C01": ("crash", "fault_enumeration",
  "crash-point enumeration by real process death: the child process running the scripted history on the real handlers and SQLite store is SIGKILLed before its n-th file-mutating syscall for every n, then the production restart path runs and a reference model of acknowledged operations judges the database; for concurrent clients the child runs under the controlled scheduler and every (schedule, crash point) pair is taken",
  "For each scripted history (ingress on a pull route and on a two-target fan-out route, Admin publish incl. a refused duplicate batch, pull dequeue / ack / nack / dead-letter / batch ack, explicit WAL checkpoints) every crash point is taken: SIGKILL before each of the K file-mutating syscalls (pwrite64, fsync, ftruncate, ...) SQLite issues, observed through a patched copy of the libc syscall trampoline. After each death the database is reopened through the production boot path and must open, pass integrity_check, have consistent counters, contain exactly one of the admissible outcomes (acknowledged operations exactly; the single unacknowledged operation applied, not applied, or a fan-out prefix; nothing nobody sent; no mixed fields) and offer every unsettled message again exactly once after lease expiry with identical payload and headers. Every history of length 2 (thorough: 4) over the operation alphabet is generated and crashed at every point as well. Concurrent part: 2-3 clients (producers on pull and fan-out routes, a publisher, a consumer that settles what it gets) run under the controlled scheduler inside the child; the schedules are enumerated first (quick: at most 1 preemption; thorough: at most 2, three clients 1), then for every schedule and every crash point of it whose execution prefix was not already reached the child is replayed on that schedule and killed there; the admissible outcomes allow one in-flight operation per client.",
  "Process death only (page cache survives); power loss is not modelled. Acknowledgement = first WriteHeader/Write. Concurrent part: scheduling points are lock/atomic/connection operations (data-race freedom is the side condition of C03/C18's -race pass).",
  "DESIGN.md §4.3 §6 C01"),
 "C07": ("enum", "exploration",
  "bounded-exhaustive enumeration of bodies x header sets x ingress/publish paths x pull HTTP/gRPC/push delivery x backends x redelivery/restart histories through the real wiring, against an independent reference transformation",
  "All byte strings of length <= 1 (quick, plus 1024 two-byte strings) / <= 2 (thorough), boundary sizes around max_body (8 B route and the 2 MiB default, Content-Length and chunked), every ordered selection of <= 2/3 header atoms (case variants, repeated names, empty values, the three sensitive names, UTF-8 values, forward-auth copy_headers) enter through ingress or Admin publish and leave through pull HTTP, the real gRPC server, the real PushDispatcher+HTTPDeliverer and GET /messages, on memory and SQLite, after first delivery, nack+redelivery and SQLite close+reopen; payload must be byte-identical and headers equal the reference (canonical names, comma-join in arrival order, sensitive names dropped, copy_headers added).",
  "Framing headers (Host, Content-Length, Transfer-Encoding) are not compared; non-UTF-8 header values are outside the quantifier; Postgres not run.",
  "DESIGN.md §6 C07"),
 "C11": ("enum", "exploration",
  "complete enumeration of the token-configuration x endpoint x operation x credential table over pull HTTP, worker gRPC (real server over an in-memory listener) and every Admin path x method, against a reference allowlist rule, with full state dumps before/after",
  "Every configuration of global / per-route / admin token lists of the tier is compiled by the real compiler (which must reject exactly those leaving a pull route without an allowlist) and booted through the production startServers; every endpoint spelling x operation x credential (absent, empty, scheme variants, exact, prefix/suffix/case near-misses, other lists' tokens, override-replaces-global, multi-value headers) is sent over pull HTTP, gRPC metadata and every Admin path x method; unauthorised requests must get 401/Unauthenticated and leave a full state dump identical; authorised ones must not be refused as unauthorised.",
  "Behaviour the documentation leaves undefined (scheme case, several Authorization values) is accepted either way and recorded; TLS/mTLS not involved.",
  "DESIGN.md §6 C11"),
 "C16": ("enum", "exploration",
  "bounded-exhaustive enumeration of URL x resolver answer x policy (compiled from DSL) x redirect chains through the real HTTPDeliverer with an in-memory resolver and transport, against an independent address classifier and rule matcher",
  "Every combination of scheme, 48 hosts (names incl. numeric look-alikes, every address class of the statement with its range edges, IPv4-mapped and zoned literals), userinfo/port, resolver answer class, and policy (https_only x redirects x dns_rebind_protection x allow x deny rule sets incl. mapped and CIDR forms), plus 1- and 2-hop redirect chains into every URL class, is delivered through the real Deliver; every request the transport saw must be allowed by the reference policy, a denied delivery must wrap ErrPolicyDenied and send nothing, redirects are followed only when enabled and each hop is checked; at dispatcher level a denied target ends dead(policy_denied) after one attempt.",
  "'At the time of the check' (no rebinding between check and connect); what the OS resolver does with numeric names is not modelled; IDNA mapping of hosts by net/http is outside the statement.",
  "DESIGN.md §6 C16"),
 "C20": ("enum", "exploration",
  "complete enumeration of the finite gating table (tool x role x flags x principal) with argument-shape variants through the real JSON-RPC Serve loop, with side-effect probes and an independent reference predicate",
  "All 31 documented tools plus unknown names x 5 role inputs x mutations flag x runtime-control flag x principal presence, each with tools/list and tools/call and every argument-shape variant (unknown key, missing arguments, actor equal/mismatching/empty, missing reason, 8 path spellings, config_apply content x mode), are run against a seeded SQLite db, a config file, a pid file and recording stand-ins for the run binary and signalled process; allowed iff role rank, flag and principal/actor rule hold; refused calls have no effect; tools/list equals the allowed set; config-writing tools touch only the configured path with content that parses and compiles; every mutating call leaves exactly one audit record with the required fields.",
  "No real hookaido process is started or signalled; Postgres proxy path not run; arbitrary argument strings beyond the listed alphabet are not enumerated.",
  "DESIGN.md §6 C20"),

 "C04": ("bfs", "model_checking",
  "explicit-state search over dequeue / lease-operation / operator / clock histories through the real pull HTTP handler (wired by startServers) on memory and SQLite in a virtual-time bubble, validated against qmodel plus the idempotent-duplicate rule",
  "Every history up to the depth over dequeue (batch 1/2), ack / nack / dead-letter / extend with each of the newest lease ids and an unknown id, batch ack/nack with duplicate, stale and unknown ids mixed with valid ones, operator cancel/requeue and clock steps (+1 ns, +1 s, +ttl, +ttl+1 s, to the end of the idempotency window - 1 ns) is executed through the pull API; a call with a non-current or expired lease must change nothing except returning an expired message to the queue and must answer 409 unless an identical operation on that lease succeeded less than RecentLeaseOpTTL ago, in which case the duplicate answer is allowed and must have no effect; batches are judged per lease id; the full listing is compared after every step. Restart-focus jobs add a restart of the gateway through the production boot path (SQLite: nothing may change, a held lease stays the holder's; memory: the store starts empty and every lease id a worker still holds is foreign) and fresh enqueues as operations. A schedule part explores overlapping duplicate and stale settlements; a free-running -race side pass covers unsynchronised sharing.",
  "Operator mutations go through the Store; the gRPC status mapping is a thin switch over the same operations; small scope: 2 messages, 3 newest leases.",
  "DESIGN.md §6 C04"),
 "C10": ("enum", "exploration",
  "bounded-exhaustive enumeration of compiled configurations (ordered route lists x channel x match shapes) x requests through the real ingress handler against an independent reference resolver",
  "Every ordered list of <= 2 (thorough: 3) routes over path {/a,/a/b,/ab,/} x channel {bare, inbound wrapper, outbound, internal} x 13 match shapes is compiled by the real compiler and booted through startServers; every request over path (10) x method (3) x Host (8) x header X (6) x query (4) x remote address (5), complete along every dimension some matcher observes, is served; status, Allow set and route/target of the stored message must equal the reference (inbound routes only, first match in configuration order, criteria ANDed, segment-boundary prefix, POST by default, exact/*/sub-domain hosts, header and query values, remote prefixes; 404/405 leave the store empty).",
  "Five details the documentation leaves open (// collapsing, trailing-dot host, * without Host, comma lists in header values, IPv4-mapped peers) are measured once and applied consistently, never alarmed on; encoded slashes excluded.",
  "DESIGN.md §6 C10"),

 "C05": ("bfs+sched+crash", "model_checking",
  "explicit-state search over readiness histories with a nanosecond clock grid on both backends (qmodel + independent readiness monitor), exhaustive interleavings of consumers racing across a lease expiry, and crash-point enumeration while messages are leased",
  "(1) Every store operation sequence up to the depth over enqueue (incl. future next_run_at), dequeue with every filter and batch sizes 1/2/3/100/101, nack with delay 0 and 5 s, extend, operator requeue/cancel and clock steps that land exactly on, 1 ns before and 10 ms-1 ns / 10 ms after every due instant, on memory and SQLite: nothing is offered before it is due, every dequeue returns exactly min(batch, ready) items, and everything due for at least the sweep granularity is ready. (2) Every interleaving within the preemption bound of two consumers on two routes racing across a lease expiry (the SQLite sweep-throttle compare-and-swap inside the transaction), linearizable against qmodel. (3) SIGKILL before every file-mutating syscall of lease-centred histories, restart through the production path, every unsettled message offered again exactly once after its lease expired, and no lease acknowledged before the crash offered to anybody else right after the restart. The searches also start from non-initial populations (a dead / settled / canceled / delayed / expired-lease message next to live ones) with settlements incl. batch forms and every operator transition that makes a parked message ready again; the memory searches run with the order-list compaction thresholds lowered so that compactions happen inside the histories; on SQLite a restart on the same file is an operation.",
  "SQLite's documented 10 ms sweep granularity is the allowed delay; monotonic clock; process death only; Postgres not executed.",
  "DESIGN.md §6 C05"),
 "C15": ("enum", "exploration",
  "bounded-exhaustive enumeration of publish batches (every item kind alone, every ordered pair, core triples) x pre-states x policies x global/scoped paths x backends through the real Admin handler, against an independent acceptability reference with full row dumps before/after",
  "Every single item kind, every ordered pair of all kinds (thorough: every ordered triple of the core kinds) of acceptable and unacceptable items (unknown/relative/managed/disabled routes, unresolvable targets, bad base64, payload/headers over the limits, invalid header names/values, bad timestamps, duplicate and already-queued ids, selector hints) is published on the global and the endpoint-scoped path under 8 queue pre-states (incl. near-full and full under reject and drop_oldest) and 14 request-level policies on memory and SQLite; acceptance => 200, published = n and every item stored in the shape of an ingress message; rejection => structured error, all rows and columns identical, item_index the lowest unacceptable index.",
  "The multi-pass preflight order (item_index of the first failing pass instead of the lowest index) is a listed known finding (137 ordered kind pairs); batches of 4..999 items only through probes.",
  "DESIGN.md §6 C15"),
 "C17": ("enum", "exploration",
  "bounded-exhaustive enumeration of secret-version window tuples x clock instants x selection modes x request shapes through the real HTTPDeliverer (signing config compiled from DSL) and the real ingress handler, against an independent HMAC/selection reference",
  "Every ordered tuple of 1..3 secret versions over 9 validity windows (ties under every id assignment) x 20 clock instants (every bound and +/-1 ns, +/-1 s) x selection {default, newest_valid, oldest_valid} x loadable/unloadable values x request shapes (paths needing escaping, methods, bodies incl. NUL, custom header names) is signed by the real deliverer: the request seen by the transport carries timestamp = unix seconds and signature = HMAC-SHA256 over METHOD, escaped path, timestamp, body hash under the version the rule selects among versions valid at signing time (from inclusive, until exclusive); nothing is sent when no version is valid or the secret cannot be loaded. Inbound: a request signed with version v at timestamp t is accepted iff from(v) <= t < until(v), for every version x boundary instant.",
  "Whole-second window bounds; tie direction by id is undocumented (either fixed end accepted); file:/vault: refs share the env: path.",
  "DESIGN.md §6 C17"),

 "C08": ("enum", "exploration",
  "bounded-exhaustive enumeration of single-edit mutations of valid signed requests x clock offsets x secret-window configurations, Basic credential variants and every forward-auth answer through the real ingress handler in virtual time, against an independent verifier (one-directional soundness + completeness probes)",
  "For six HMAC configurations (inline / versioned secret_refs with overlapping windows / both, default and custom header names) x every window end-point +/-1 s as signed timestamp x every configured signer x clock offsets {-tol-1 ns, -tol, 0, +tol, +tol+1 ns}: every single-bit flip and hex substitution of the signature, every prefix/suffix, structural and encoding variants, every single-character edit of the timestamp, every single-bit flip of the body, path/method variants and missing/empty/blank/renamed/duplicated headers; Basic: every prefix/suffix/case/bit-flip/base64 variant for two users; forward auth: every status 100..599, transport errors and a hang until the timeout. A 202 must be accepted by the independent verifier; everything else must get 401/403/503 as the statement assigns them and leave Stats and the listing identical; the unmodified request must be accepted.",
  "413/429 paths in front of auth are not provoked; requests net/http itself refuses are not evaluated; memory backend.",
  "DESIGN.md §6 C08"),

 "C06": ("enum", "exploration",
  "complete enumeration of the classification table and of retry configurations, and bounded-exhaustive enumeration of target-behaviour histories, on the real PushDispatcher in virtual-time bubbles with real stores and a scripted target, against a reference written from the statement",
  "(a) every status 100..599 and 8 error shapes x attempt 1..max+2 x max {1,2,3} through the in-memory Deliverer and the real HTTPDeliverer: ack / retry / dead(reason) and one attempt record per send must equal the reference table; (b) every compile-accepted retry configuration of the DSL grid x attempts up to 70 x harness-answered jitter draws {0, 0.5, largest float < 1}: the nack delay lies in [m(1-j), m(1+j)], m = min(base*2^(a-1), cap), in big-integer arithmetic; (c) every script of target behaviours {2xx, 503, 429, 404, 302, hang, policy denial} of length max+2 (plus a DLQ requeue cycle) on single- and two-target routes, 1-4 workers, memory and SQLite stores with and without the batch extension: at most max+1 sends per cycle, terminal delivered or dead with the right reason, each retry within the window after the failure in virtual time, one attempt row per send; (d) Drain requested during a micro-batch.",
  "Multi-worker bubbles use the Go scheduler (the per-message oracle does not depend on the schedule); lease mutations are assumed to succeed (property quantifier); Postgres not executed.",
  "DESIGN.md §6 C06"),
}

NOT_YET = "check not built yet (work in progress, see DESIGN.md §6)"

def main():
    props = [json.loads(l) for l in open(os.path.join(ROOT, "properties.jsonl"))]
    base = json.load(open(os.path.join(ROOT, "MANIFEST.json")))
    m = {
        "version": 1,
        "setup_cmd": "bin/setup",
        "hooks": base["hooks"],
        "engines": [
            {"name": "sched", "path": "kit/sched", "serves_properties": [k for k, v in CHECKS.items() if "sched" in v[0]],
             "kind_free_text": "controlled cooperative scheduler for real goroutines in a testing/synctest bubble; sync, sync/atomic and database/sql of the packages under test are import-rewritten to shims whose operations are choice points; DFS over choice prefixes with iterative preemption bounding, sharded over processes"},
            {"name": "bfs", "path": "kit/bfs", "serves_properties": [k for k, v in CHECKS.items() if "bfs" in v[0]],
             "kind_free_text": "breadth-first explicit-state search over the real transition function (state = operation history, successor = replay + one operation), de-duplicated on a canonical dump of the implementation state incl. private fields"},
            {"name": "enum", "path": "kit/runner", "serves_properties": [k for k, v in CHECKS.items() if "enum" in v[0]],
             "kind_free_text": "complete enumeration of finite input/configuration products against an independent reference"},
            {"name": "crash", "path": "kit/verifcrash", "serves_properties": [k for k, v in CHECKS.items() if "crash" in v[0]],
             "kind_free_text": "crash-point enumeration by real process death (SIGKILL before the n-th file-mutating syscall of SQLite / n-th statement of instrumented functions) and recovery through the production constructor"},
        ],
        "checks": [],
        "not_applicable": [],
        "notes": "Everything is built from /repo's current working tree through a build overlay (bin/verifgen); /repo carries no hooks. Genuine defects repaired by fix: commits and known findings are listed in known_findings.txt; see DESIGN.md.",
    }
    for p in props:
        pid = p["id"]
        have = os.path.exists(os.path.join(ROOT, "harness", pid.lower(), "check_test.go"))
        if pid in CHECKS and have:
            eng, cat, tech, text, note, ref = CHECKS[pid]
            m["checks"].append({
                "property_id": pid,
                "quick_cmd": "bin/check %s --tier quick" % pid,
                "thorough_cmd": "bin/check %s --tier thorough" % pid,
                "evidence_file": "evidence/%s.json" % pid,
                "replay_cmd_template": "bin/check %s --replay {path}" % pid,
                "engine": eng,
                "level_claimed": {"category": cat, "text": text, "design_ref": ref},
                "level_note": note,
                "technique": tech,
            })
        else:
            m["not_applicable"].append({"property_id": pid, "reason": NOT_YET})
    json.dump(m, open(os.path.join(ROOT, "MANIFEST.json"), "w"), indent=1)
    print("checks:", [c["property_id"] for c in m["checks"]])

if __name__ == "__main__":
    main()
