#!/usr/bin/env python3
"""Patch the writable copy of modernc.org/libc: every syscall trampoline in syscall_musl.go first calls the
exported hook variable VerifSyscallHook (nil by default). Nothing else changes."""
import re, sys, os
d = sys.argv[1]
p = os.path.join(d, "syscall_musl.go")
s = open(p).read()
if "VerifSyscallHook" in s:
    sys.exit(0)
s = s.replace('func ___syscall_cp(', '''// VerifSyscallHook, when set, is called before every syscall the transpiled C code issues (verification build only).
var VerifSyscallHook func(n, a1, a2, a3, a4, a5, a6 int64)

func ___syscall_cp(''', 1)
def hook(args):
    args = args + ["0"] * (6 - len(args))
    return "\tif h := VerifSyscallHook; h != nil {\n\t\th(int64(n), " + ", ".join("int64(%s)" % a if a != "0" else "0" for a in args) + ")\n\t}\n"
out = []
for line in s.split("\n"):
    out.append(line)
    m = re.match(r'^func (___syscall_cp|X__syscall(\d))\(tls \*TLS, n(, .*)? long\) long \{$', line)
    if m:
        rest = m.group(3) or ""
        names = [x.strip() for x in rest.split(",") if x.strip()]
        out.append(hook(names).rstrip("\n"))
s = "\n".join(out)
open(p, "w").write(s)
print("patched", p)
