#!/usr/bin/env python3
"""Regenerates seeded/README.md (which check catches which independently seeded change) from seeded/*/meta.json."""
import json, os, re
ROOT = os.path.dirname(os.path.dirname(os.path.abspath(__file__)))
rows = []
for d in sorted(os.listdir(os.path.join(ROOT, "seeded"))):
    mp = os.path.join(ROOT, "seeded", d, "meta.json")
    if not os.path.exists(mp):
        continue
    m = json.load(open(mp))
    desc = " ".join(x.strip() for x in (m.get("summary") or m.get("description_from_author", "")).strip().split("\n")[:2])
    desc = re.sub(r"\s+", " ", desc)[:170].replace("|", "/")
    caught = [k for k, v in m.get("checks", {}).items() if v["verdict"] == "DETECTED"]
    missed = [k for k, v in m.get("checks", {}).items() if v["verdict"] != "DETECTED"]
    keys = []
    for k, v in m.get("checks", {}).items():
        if v["verdict"] == "DETECTED":
            keys = [x.replace("key=", "") for x in v.get("keys", [])][:2]
    rows.append((d, ", ".join(m.get("touched_packages", [])), desc, ", ".join(caught) or "—", ", ".join(missed) or "", "; ".join(keys)[:160].replace("|", "/"), m.get("repo_head", "")))
out = ["# Independently seeded property-breaking changes", "",
       "Written by fresh sub-agents that saw only the property text and a scratch worktree; confirmed by `tools/seedcheck.py`",
       "(demonstration passes on the unchanged tree and fails with the change; the touched packages' own tests still pass).",
       "`caught by` = first tier of the first check that printed VIOLATION with the change applied (`VERIF_REPO=<worktree> bin/check`).",
       "Wave 1 = A/B, wave 2 = X/Y, wave 3 = P/Q, wave 4 = R/S, wave 5 = V/W, sixth round = Z (ten properties). DESIGN.md §12.6 / §12.7 record which of these were first missed and what was strengthened; a change caught only by another property's check names that check.", "",
       "| change | touches | author's headline | caught by | not caught by | violation keys | /repo HEAD |", "|---|---|---|---|---|---|---|"]
for r in rows:
    out.append("| " + " | ".join(r) + " |")
n = len(rows)
c = sum(1 for r in rows if r[3] != "—")
out += ["", "%d changes, %d caught by at least one registered check." % (n, c), ""]
open(os.path.join(ROOT, "seeded", "README.md"), "w").write("\n".join(out))
print(n, c)
