#!/usr/bin/env python3
"""Validates independently seeded property-breaking changes (written by fresh sub-agents that saw only the property
text) and runs the checks against them. For /tmp/seed-out/<Cnn>/{A,B}.diff + {A,B}_demo_test.go:
  1. demo passes on the unchanged tree, 2. the change applies and builds, 3. the demo fails with it,
  4. the touched packages' own tests still pass, 5. bin/check <Cnn> (quick, then thorough if quick misses) must report
  VIOLATION. Confirmed changes are stored under /verif/seeded/<Cnn>-<A|B>/ (patch.diff, demo, meta.json).
Usage: tools/seedcheck.py Cnn [A|B] [--checks C02,C13]"""
import os, re, subprocess, sys, json, shutil, time

ROOT = os.path.dirname(os.path.dirname(os.path.abspath(__file__)))
WT = os.environ.get("SEED_WT", "/tmp/wt-seed")
GO = "/root/go/pkg/mod/golang.org/toolchain@v0.0.1-go1.25.7.linux-amd64/bin/go"
ENV = dict(os.environ, GOTOOLCHAIN="local", GOFLAGS="-mod=mod", GOPROXY="off")
ENV.pop("GOSUMDB", None)

def sh(cmd, cwd=None, env=None, timeout=3600):
    p = subprocess.run(cmd, shell=True, cwd=cwd, env=env or ENV, capture_output=True, text=True, errors="replace", timeout=timeout)
    return p.returncode, p.stdout + p.stderr

def clean():
    sh("git checkout -q -f --detach $(git -C /repo rev-parse HEAD) && git clean -fdq", cwd=WT)

def main():
    args = [a for a in sys.argv[1:] if not a.startswith("--")]
    pid = args[0]
    which = args[1:] or ["A", "B"]
    extra_checks = []
    for a in sys.argv[1:]:
        if a.startswith("--checks="):
            extra_checks = a.split("=", 1)[1].split(",")
    src = os.environ.get("SEED_OUT", "/tmp/seed-out") + "/%s" % pid
    readme = open(os.path.join(src, "README.md")).read() if os.path.exists(os.path.join(src, "README.md")) else ""
    if not os.path.isdir(WT):
        sh("git -C /repo worktree add --detach %s HEAD" % WT)
    for w in which:
        diff = os.path.join(src, "%s.diff" % w)
        demo = os.path.join(src, "%s_demo_test.go" % w)
        if not os.path.exists(diff):
            print(pid, w, "no diff"); continue
        meta = {"property": pid, "variant": w, "repo_head": sh("git -C /repo rev-parse --short HEAD")[1].strip(), "ran": []}
        # where does the demo go?
        m = re.search(r'(internal/[a-z_/]+|cmd/[a-z_/]+)/zz_seed_[a-z0-9_]*%s[a-z0-9_]*_test\.go' % w.lower(), readme)
        demo_rel = m.group(0) if m else None
        pkg = "./" + os.path.dirname(demo_rel) + "/" if demo_rel else None
        runpat = "Seed(C[0-9]+)?_?%s" % w  # TestSeedA_…, TestSeedC08A…, TestZZSeedA…
        clean()
        demo_ok_clean = demo_fail_mut = None
        if demo_rel and os.path.exists(demo):
            shutil.copy(demo, os.path.join(WT, demo_rel))
            rc, out = sh("%s test -count=1 -run '%s' %s" % (GO, runpat, pkg), cwd=WT)
            demo_ok_clean = rc == 0
            meta["ran"].append({"cmd": "go test -run %s %s (unchanged tree)" % (runpat, pkg), "pass": rc == 0})
        rc, out = sh("git apply %s" % diff, cwd=WT)
        if rc != 0:
            print(pid, w, "DIFF DOES NOT APPLY", out[-200:]); continue
        touched = sorted(set("./" + os.path.dirname(l[6:]) + "/" for l in open(diff) if l.startswith("+++ b/")))
        rc, out = sh("%s build ./..." % GO, cwd=WT)
        if rc != 0:
            print(pid, w, "DOES NOT BUILD", out[-300:]); continue
        if demo_rel and os.path.exists(demo):
            rc, out = sh("%s test -count=1 -run '%s' %s" % (GO, runpat, pkg), cwd=WT)
            demo_fail_mut = rc != 0
            meta["ran"].append({"cmd": "go test -run %s %s (with the change)" % (runpat, pkg), "pass": rc == 0})
            os.remove(os.path.join(WT, demo_rel))
        rc, out = sh("%s test -count=1 %s" % (GO, " ".join(touched)), cwd=WT)
        own_tests = rc == 0
        meta["ran"].append({"cmd": "go test %s (with the change, existing tests)" % " ".join(touched), "pass": own_tests})
        # the checks
        results = {}
        for chk in [pid] + [c for c in extra_checks if c != pid]:
            for tier in os.environ.get("SEED_TIERS", "quick,thorough").split(","):
                t0 = time.time()
                rc, out = sh("bin/check %s --tier %s" % (chk, tier), cwd=ROOT, env=dict(ENV, VERIF_REPO=WT, VERIF_EVIDENCE_OUT="/tmp/seed-evidence-%s.json" % os.path.basename(WT)), timeout=3600)
                keys = [l.strip() for l in out.split("\n") if l.strip().startswith("key=")]
                verdict = "DETECTED" if "VIOLATION property=" in out else ("INFRA" if rc == 2 else "missed")
                results["%s/%s" % (chk, tier)] = {"verdict": verdict, "seconds": round(time.time() - t0), "keys": keys[:3], "tail": out[-400:] if verdict != "DETECTED" else ""}
                meta["ran"].append({"cmd": "VERIF_REPO=<worktree with the change> bin/check %s --tier %s" % (chk, tier), "verdict": verdict, "keys": keys[:3]})
                if verdict == "DETECTED":
                    break
        clean()
        confirmed = bool(demo_ok_clean) and bool(demo_fail_mut) and own_tests
        meta.update({"demo_passes_unchanged": demo_ok_clean, "demo_fails_with_change": demo_fail_mut, "existing_tests_pass_with_change": own_tests,
                     "confirmed": confirmed, "touched_packages": touched, "checks": results})
        # what it needs to manifest: take the README section of this change verbatim (first 1500 chars)
        sec = re.split(r'\n#+ ', readme)
        needs = ""
        for s_ in sec:
            if re.match(r'(Change )?%s\b' % w, s_.strip()[:12]):
                needs = s_.strip()[:1800]
        meta["description_from_author"] = needs
        print(pid, w, "confirmed=%s" % confirmed, {k: v["verdict"] for k, v in results.items()}, flush=True)
        if confirmed:
            dst = os.path.join(ROOT, "seeded", "%s-%s" % (pid, w))
            os.makedirs(dst, exist_ok=True)
            shutil.copy(diff, os.path.join(dst, "patch.diff"))
            shutil.copy(demo, os.path.join(dst, os.path.basename(demo_rel)))
            meta["demo_placement"] = demo_rel
            meta["demo_command"] = "go test -count=1 -run '%s' %s" % (runpat, pkg)
            json.dump(meta, open(os.path.join(dst, "meta.json"), "w"), indent=1)

if __name__ == "__main__":
    main()
