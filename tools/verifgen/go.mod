module verifgen

go 1.23
