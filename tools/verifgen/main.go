// verifgen generates the build overlay that binds the /verif harness to the
// current working tree of /repo without touching it:
//
//   - every non-test Go file of the packages under test is re-emitted with the
//     imports "sync", "sync/atomic" (and, per file, "database/sql", "net",
//     "math/rand") renamed to the scheduler shims under internal/verifkit;
//   - /verif/kit/<pkg>/*.go appear as github.com/nuetzliches/hookaido/internal/verifkit/<pkg>;
//   - /verif/export/<pkg>/*.go are added to internal/<pkg> (private seams);
//   - /verif/harness/<cNN>/*.go appear as internal/verifharness/<cNN>;
//   - optionally (-crashfuncs) a crash point call is inserted before every
//     statement of the named functions.
//
// Nothing here decides a property; it is plumbing.
package main

import (
	"bytes"
	"encoding/json"
	"flag"
	"fmt"
	"go/ast"
	"go/importer"
	"go/parser"
	"go/token"
	"go/types"
	"os"
	"path/filepath"
	"sort"
	"strconv"
	"strings"
)

const modPath = "github.com/nuetzliches/hookaido"

// packages whose sync primitives become scheduling points
var rewritePkgs = []string{
	"internal/queue", "internal/ingress", "internal/pullapi", "internal/workerapi",
	"internal/dispatcher", "internal/app", "internal/admin",
}

// per-file extra import rewrites: repo-relative file -> import path -> shim package
var extraRewrites = map[string]map[string]string{
	"internal/queue/sqlite.go":    {"database/sql": "vsql"},
	"internal/dispatcher/push.go": {"math/rand": "vrand"},
	"internal/app/run.go":         {"net": "vnet"},
}

var baseRewrites = map[string]string{
	"sync":        "vsync",
	"sync/atomic": "vatomic",
}

type crashSpec struct {
	file  string // repo-relative
	funcs map[string]bool
}

// files whose "os" import is replaced by vos under -rewriteos
var osRewriteFiles = map[string]bool{"internal/mcp/server.go": true, "internal/app/run.go": true}

type scale struct{ name, file, old, new string }

var scales = []scale{
	{"memory-compaction-min", "internal/queue/memory.go", "len(s.order) < 1024", "len(s.order) < verifCompactMin"},
	{"memory-compaction-factor", "internal/queue/memory.go", "len(s.order) <= 4*len(s.items)", "len(s.order) <= verifCompactFactor*len(s.items)"},
}
var scaled = map[string]bool{}

func main() {
	repo := flag.String("repo", "/repo", "repository root")
	verif := flag.String("verif", "/verif", "verif root")
	out := flag.String("out", "", "scratch output directory (overlay.json is written there)")
	harness := flag.String("harness", "", "comma separated harness dirs under /verif/harness to include (empty: all)")
	crash := flag.String("crashfuncs", "", "comma separated file.go:Func entries to instrument with crash points")
	norewrite := flag.Bool("norewrite", false, "do not rewrite imports (pure virtual packages only)")
	rewriteOS := flag.Bool("rewriteos", false, "rewrite the os import of the configuration-writing files to the vos shim (file mutations become crash points)")
	flag.Parse()
	if *out == "" {
		fatal("missing -out")
	}
	must(os.MkdirAll(*out, 0o755))

	replace := map[string]string{}

	crashByFile := map[string]map[string]bool{}
	if *crash != "" {
		for _, ent := range strings.Split(*crash, ",") {
			ent = strings.TrimSpace(ent)
			if ent == "" {
				continue
			}
			i := strings.LastIndex(ent, ":")
			if i < 0 {
				fatal("bad -crashfuncs entry " + ent)
			}
			f, fn := ent[:i], ent[i+1:]
			if crashByFile[f] == nil {
				crashByFile[f] = map[string]bool{}
			}
			crashByFile[f][fn] = true
		}
	}

	// 1. import rewriting (+ crash instrumentation)
	seenCrash := map[string]bool{}
	handled := map[string]bool{}
	processFile := func(rel string) {
		if handled[rel] {
			return
		}
		handled[rel] = true
		src, err := os.ReadFile(filepath.Join(*repo, rel))
		must(err)
		rw := map[string]string{}
		if !*norewrite && inRewritePkg(rel) {
			for k, v := range baseRewrites {
				rw[k] = v
			}
			for k, v := range extraRewrites[rel] {
				rw[k] = v
			}
		}
		if *rewriteOS && osRewriteFiles[rel] {
			rw["os"] = "vos"
		}
		newSrc, changed := rewriteFile(rel, src, rw, crashByFile[rel], seenCrash)
		// scaled-down thresholds: a literal threshold no bounded history can reach is replaced by a package variable
		// (declared in export/queue with the literal's value as default) that a harness may lower. When the expression
		// is not found (the code changed) nothing is replaced and the harness is told so.
		for _, sc := range scales {
			if sc.file != rel {
				continue
			}
			if bytes.Contains(newSrc, []byte(sc.old)) {
				newSrc = bytes.Replace(newSrc, []byte(sc.old), []byte(sc.new), 1)
				changed = true
				scaled[sc.name] = true
			} else {
				fmt.Fprintf(os.Stderr, "verifgen: scale %s: expression %q not found in %s, left unscaled\n", sc.name, sc.old, rel)
			}
		}
		if !changed {
			return
		}
		dst := filepath.Join(*out, "src", rel)
		must(os.MkdirAll(filepath.Dir(dst), 0o755))
		must(os.WriteFile(dst, newSrc, 0o644))
		replace[filepath.Join(*repo, rel)] = dst
	}
	if !*norewrite {
		for _, pkg := range rewritePkgs {
			ents, err := os.ReadDir(filepath.Join(*repo, pkg))
			must(err)
			for _, e := range ents {
				n := e.Name()
				if e.IsDir() || !strings.HasSuffix(n, ".go") || strings.HasSuffix(n, "_test.go") {
					continue
				}
				processFile(filepath.Join(pkg, n))
			}
		}
	}
	for rel := range crashByFile {
		processFile(rel)
	}
	if *rewriteOS {
		for rel := range osRewriteFiles {
			processFile(rel)
		}
	}
	for rel, fns := range crashByFile {
		for fn := range fns {
			if !seenCrash[rel+":"+fn] {
				fatal("crash instrumentation: function " + fn + " not found in " + rel)
			}
		}
	}

	// 2. kit packages
	addTree := func(srcRoot, dstRel string, filter func(name string) bool) {
		filepath.Walk(srcRoot, func(p string, info os.FileInfo, err error) error {
			if err != nil || info.IsDir() {
				return nil
			}
			if !strings.HasSuffix(p, ".go") {
				return nil
			}
			r, _ := filepath.Rel(srcRoot, p)
			if filter != nil && !filter(r) {
				return nil
			}
			replace[filepath.Join(*repo, dstRel, r)] = p
			return nil
		})
	}
	addTree(filepath.Join(*verif, "kit"), "internal/verifkit", nil)

	// 2b. vos_gen.go: every exported identifier of package os that vos.go does not define itself
	{
		src, err := genVos(filepath.Join(*verif, "kit/vos/vos.go"))
		must(err)
		dst := filepath.Join(*out, "src", "internal/verifkit/vos/vos_gen.go")
		must(os.MkdirAll(filepath.Dir(dst), 0o755))
		must(os.WriteFile(dst, src, 0o644))
		replace[filepath.Join(*repo, "internal/verifkit/vos/vos_gen.go")] = dst
		for _, sh := range []struct{ dir, pkgPath, pkgName string }{{"vsync", "sync", "sync"}, {"vatomic", "sync/atomic", "atomic"}} {
			var hand []string
			ents, err := os.ReadDir(filepath.Join(*verif, "kit", sh.dir))
			must(err)
			for _, e := range ents {
				if strings.HasSuffix(e.Name(), ".go") && !strings.HasSuffix(e.Name(), "_test.go") {
					hand = append(hand, filepath.Join(*verif, "kit", sh.dir, e.Name()))
				}
			}
			src, err := genShim(hand, sh.pkgPath, sh.pkgName, sh.dir)
			must(err)
			dst := filepath.Join(*out, "src", "internal/verifkit", sh.dir, sh.dir+"_gen.go")
			must(os.MkdirAll(filepath.Dir(dst), 0o755))
			must(os.WriteFile(dst, src, 0o644))
			replace[filepath.Join(*repo, "internal/verifkit", sh.dir, sh.dir+"_gen.go")] = dst
		}
	}

	// 3. export shims
	expRoot := filepath.Join(*verif, "export")
	if ents, err := os.ReadDir(expRoot); err == nil {
		for _, e := range ents {
			if !e.IsDir() {
				continue
			}
			pkg := e.Name()
			files, _ := os.ReadDir(filepath.Join(expRoot, pkg))
			for _, f := range files {
				if strings.HasSuffix(f.Name(), ".go") {
					replace[filepath.Join(*repo, "internal", pkg, f.Name())] = filepath.Join(expRoot, pkg, f.Name())
				}
			}
		}
	}

	// 3b. which scaled thresholds are live in this build
	{
		var names []string
		for n := range scaled {
			names = append(names, n)
		}
		sort.Strings(names)
		src := "package queue\n\nfunc init() {\n"
		for _, n := range names {
			src += fmt.Sprintf("\tverifScaled[%q] = true\n", n)
		}
		src += "}\n"
		dst := filepath.Join(*out, "src", "internal/queue/zz_verif_scaled_gen.go")
		must(os.MkdirAll(filepath.Dir(dst), 0o755))
		must(os.WriteFile(dst, []byte(src), 0o644))
		replace[filepath.Join(*repo, "internal/queue/zz_verif_scaled_gen.go")] = dst
	}

	// 4. harness packages
	want := map[string]bool{}
	if *harness != "" {
		for _, h := range strings.Split(*harness, ",") {
			want[strings.TrimSpace(h)] = true
		}
	}
	hRoot := filepath.Join(*verif, "harness")
	if ents, err := os.ReadDir(hRoot); err == nil {
		for _, e := range ents {
			if !e.IsDir() {
				continue
			}
			if len(want) > 0 && !want[e.Name()] {
				continue
			}
			addTree(filepath.Join(hRoot, e.Name()), filepath.Join("internal/verifharness", e.Name()), nil)
		}
	}

	type overlay struct {
		Replace map[string]string
	}
	b, _ := json.MarshalIndent(overlay{Replace: replace}, "", " ")
	must(os.WriteFile(filepath.Join(*out, "overlay.json"), b, 0o644))
	keys := make([]string, 0, len(replace))
	for k := range replace {
		keys = append(keys, k)
	}
	sort.Strings(keys)
	fmt.Fprintf(os.Stderr, "verifgen: %d overlay entries -> %s\n", len(keys), filepath.Join(*out, "overlay.json"))
}

// files whose locks cannot influence any property stay on the real primitives
var noRewrite = map[string]bool{
	"internal/app/metrics.go":    true,
	"internal/queue/postgres.go": true,
}

func inRewritePkg(rel string) bool {
	if noRewrite[rel] {
		return false
	}
	d := filepath.Dir(rel)
	for _, p := range rewritePkgs {
		if d == p {
			return true
		}
	}
	return false
}

type edit struct {
	pos  int
	end  int
	text string
}

func rewriteFile(rel string, src []byte, rw map[string]string, crashFns map[string]bool, seen map[string]bool) ([]byte, bool) {
	fset := token.NewFileSet()
	mode := parser.ImportsOnly
	if len(crashFns) > 0 {
		mode = parser.ParseComments
	}
	f, err := parser.ParseFile(fset, rel, src, mode)
	if err != nil {
		fatal("parse " + rel + ": " + err.Error())
	}
	var edits []edit
	off := func(p token.Pos) int { return fset.Position(p).Offset }
	for _, imp := range f.Imports {
		path, _ := strconv.Unquote(imp.Path.Value)
		shim, ok := rw[path]
		if !ok {
			continue
		}
		name := path[strings.LastIndex(path, "/")+1:]
		if imp.Name != nil {
			name = imp.Name.Name
		}
		start := off(imp.Path.Pos())
		if imp.Name != nil {
			start = off(imp.Name.Pos())
		}
		edits = append(edits, edit{start, off(imp.Path.End()),
			name + " " + strconv.Quote(modPath+"/internal/verifkit/"+shim)})
	}
	if len(crashFns) > 0 {
		hasCrashImport := false
		for _, imp := range f.Imports {
			if strings.HasSuffix(strings.Trim(imp.Path.Value, `"`), "/verifkit/verifcrash") {
				hasCrashImport = true
			}
		}
		for _, d := range f.Decls {
			fd, ok := d.(*ast.FuncDecl)
			if !ok || fd.Body == nil || !crashFns[fd.Name.Name] {
				continue
			}
			seen[rel+":"+fd.Name.Name] = true
			var visit func(list []ast.Stmt)
			visitStmt := func(s ast.Stmt) {}
			visit = func(list []ast.Stmt) {
				for _, s := range list {
					line := fset.Position(s.Pos()).Line
					label := fmt.Sprintf("%s:%s:%d", filepath.Base(rel), fd.Name.Name, line)
					edits = append(edits, edit{off(s.Pos()), off(s.Pos()),
						"verifcrash.Point(" + strconv.Quote(label) + "); "})
					visitStmt(s)
				}
			}
			visitStmt = func(s ast.Stmt) {
				switch x := s.(type) {
				case *ast.BlockStmt:
					visit(x.List)
				case *ast.IfStmt:
					visit(x.Body.List)
					if x.Else != nil {
						switch e := x.Else.(type) {
						case *ast.BlockStmt:
							visit(e.List)
						case *ast.IfStmt:
							visitStmt(e)
						}
					}
				case *ast.ForStmt:
					visit(x.Body.List)
				case *ast.RangeStmt:
					visit(x.Body.List)
				case *ast.SwitchStmt:
					for _, c := range x.Body.List {
						visit(c.(*ast.CaseClause).Body)
					}
				case *ast.TypeSwitchStmt:
					for _, c := range x.Body.List {
						visit(c.(*ast.CaseClause).Body)
					}
				case *ast.LabeledStmt:
					visitStmt(x.Stmt)
				}
			}
			visit(fd.Body.List)
		}
		if !hasCrashImport {
			// add an import declaration right after the package clause
			p := off(f.Name.End())
			edits = append(edits, edit{p, p, "; import verifcrash " + strconv.Quote(modPath+"/internal/verifkit/verifcrash")})
		}
	}
	if len(edits) == 0 {
		return src, false
	}
	sort.SliceStable(edits, func(i, j int) bool { return edits[i].pos < edits[j].pos })
	var buf bytes.Buffer
	last := 0
	for _, e := range edits {
		buf.Write(src[last:e.pos])
		buf.WriteString(e.text)
		last = e.end
	}
	buf.Write(src[last:])
	return buf.Bytes(), true
}

// genVos lists package os (type-checked from source with the toolchain in use) and re-exports what vos.go lacks.
func genVos(handPath string) ([]byte, error) { return genShim([]string{handPath}, "os", "os", "vos") }

// genShim re-exports from package pkgPath (imported under pkgName) every exported identifier that the hand-written
// files of the shim package do not define, so that a tree which starts using another identifier of the replaced
// package still builds (un-instrumented pass-through).
func genShim(handPaths []string, pkgPath, pkgName, shimName string) ([]byte, error) {
	fset := token.NewFileSet()
	have := map[string]bool{}
	for _, handPath := range handPaths {
		hf, err := parser.ParseFile(fset, handPath, nil, 0)
		if err != nil {
			return nil, err
		}
		for _, d := range hf.Decls {
			switch d := d.(type) {
			case *ast.FuncDecl:
				if d.Recv == nil {
					have[d.Name.Name] = true
				}
			case *ast.GenDecl:
				for _, sp := range d.Specs {
					switch sp := sp.(type) {
					case *ast.TypeSpec:
						have[sp.Name.Name] = true
					case *ast.ValueSpec:
						for _, n := range sp.Names {
							have[n.Name] = true
						}
					}
				}
			}
		}
	}
	pkg, err := importer.ForCompiler(fset, "source", nil).Import(pkgPath)
	if err != nil {
		return nil, err
	}
	var b bytes.Buffer
	fmt.Fprintf(&b, "// Code generated by verifgen; DO NOT EDIT.\n\npackage %s\n\nimport %s %q\n\nvar _ = %s.%s\n\n", shimName, pkgName, pkgPath, pkgName, firstExported(pkg))
	names := pkg.Scope().Names()
	sort.Strings(names)
	for _, n := range names {
		if !ast.IsExported(n) || have[n] {
			continue
		}
		switch o := pkg.Scope().Lookup(n).(type) {
		case *types.Func:
			if sig, ok := o.Type().(*types.Signature); ok && sig.TypeParams().Len() > 0 {
				continue // generic functions need a hand-written wrapper
			}
			fmt.Fprintf(&b, "var %s = %s.%s\n", n, pkgName, n)
		case *types.TypeName:
			if named, ok := o.Type().(*types.Named); ok && named.TypeParams().Len() > 0 {
				continue // generic types cannot be aliased without parameters
			}
			fmt.Fprintf(&b, "type %s = %s.%s\n", n, pkgName, n)
		case *types.Const:
			fmt.Fprintf(&b, "const %s = %s.%s\n", n, pkgName, n)
		case *types.Var:
			fmt.Fprintf(&b, "var %s = %s.%s\n", n, pkgName, n)
		}
	}
	return b.Bytes(), nil
}

func firstExported(pkg *types.Package) string {
	for _, n := range pkg.Scope().Names() {
		if ast.IsExported(n) {
			if _, ok := pkg.Scope().Lookup(n).(*types.Func); ok {
				if sig := pkg.Scope().Lookup(n).Type().(*types.Signature); sig.TypeParams().Len() == 0 {
					return n
				}
			}
		}
	}
	return "init"
}

func must(err error) {
	if err != nil {
		fatal(err.Error())
	}
}

func fatal(msg string) {
	fmt.Fprintln(os.Stderr, "verifgen: "+msg)
	os.Exit(2)
}
