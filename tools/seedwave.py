#!/usr/bin/env python3
"""Runs tools/seedcheck.py for many seeded changes in parallel, one scratch worktree per slot.
Usage: SEED_OUT=/tmp/seed5-out tools/seedwave.py [-j 4] [--tiers quick] C01:V C01:W C02:V ...   (or `all:VW`)
Each job's output goes to $SEED_OUT/<Cnn>/<letter>.seedcheck.log; a summary line per job is printed."""
import os, sys, subprocess, queue, threading, glob

ROOT = os.path.dirname(os.path.dirname(os.path.abspath(__file__)))
OUT = os.environ.get("SEED_OUT", "/tmp/seed5-out")

def main():
    args = sys.argv[1:]
    par, tiers, jobs, extra = 4, "quick", [], {}
    while args:
        a = args.pop(0)
        if a == "-j": par = int(args.pop(0))
        elif a == "--tiers": tiers = args.pop(0)
        elif a.startswith("all:"):
            for d in sorted(glob.glob(OUT + "/C*")):
                for w in a[4:]:
                    if os.path.exists("%s/%s.diff" % (d, w)): jobs.append((os.path.basename(d), w))
        else:
            p, w = a.split(":")[:2]
            if a.count(":") == 2: extra[(p, w)] = a.split(":")[2]
            jobs.append((p, w))
    slots = queue.Queue()
    for i in range(par): slots.put("/tmp/wt-wave-%d" % i)
    jq = queue.Queue()
    for j in jobs: jq.put(j)
    lock = threading.Lock()
    def worker():
        while True:
            try: p, w = jq.get_nowait()
            except queue.Empty: return
            wt = slots.get()
            cmd = ["python3", ROOT + "/tools/seedcheck.py", p, w]
            if (p, w) in extra: cmd.append("--checks=" + extra[(p, w)])
            r = subprocess.run(cmd, env=dict(os.environ, SEED_WT=wt, SEED_OUT=OUT, SEED_TIERS=tiers), capture_output=True, text=True, errors="replace")
            open("%s/%s/%s.seedcheck.log" % (OUT, p, w), "a").write(r.stdout + r.stderr)
            with lock: print((r.stdout.strip().split("\n") or ["?"])[-1][:300], flush=True)
            slots.put(wt)
    ts = [threading.Thread(target=worker) for _ in range(par)]
    for t in ts: t.start()
    for t in ts: t.join()
    for i in range(par):
        subprocess.run(["git", "-C", "/repo", "worktree", "remove", "--force", "/tmp/wt-wave-%d" % i], capture_output=True)

if __name__ == "__main__":
    main()
